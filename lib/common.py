"""Shared infrastructure for the checks: scratch dirs, building IR / generated C / reference
objects from /repo's current working tree, running CBMC instances in a pool, evidence."""
import os, sys, subprocess, tempfile, shutil, json, time, hashlib, atexit, re, random
from concurrent.futures import ThreadPoolExecutor

VERIF = os.path.dirname(os.path.dirname(os.path.abspath(__file__)))
REPO = os.environ.get('PS_REPO', '/repo')
NPROC = int(os.environ.get('VERIF_JOBS', '16'))
SEED = int(os.environ.get('VERIF_SEED', '1'))

CLANG_FLAGS = ['-std=c++17', '-O1', '-fno-vectorize', '-fno-slp-vectorize', '-fno-unroll-loops', '-ffp-contract=off',
               '-msse4.2', '-mno-avx', '-DPHOTOSPLINE_INCLUDES_SPGLAM', '-I' + REPO + '/include',
               '-I/usr/include/suitesparse', '-Wno-everything']
CLANG_CFLAGS = ['-std=gnu99', '-O1', '-fno-vectorize', '-fno-slp-vectorize', '-fno-unroll-loops', '-ffp-contract=off',
                '-msse4.2', '-mno-avx', '-I' + REPO + '/include', '-I' + REPO + '/src/fitter', '-I/usr/include/suitesparse', '-Wno-everything']
GXX_FLAGS = ['-std=c++17', '-O2', '-msse4.2', '-mno-avx', '-DPHOTOSPLINE_INCLUDES_SPGLAM', '-I' + REPO + '/include',
             '-I/usr/include/suitesparse', '-w']

class CheckError(Exception):
    """the check itself could not reach a verdict (exit 2)"""

_scratch = None
def scratch():
    global _scratch
    if _scratch is None:
        base = os.environ.get('TMPDIR', '/var/tmp')
        _scratch = tempfile.mkdtemp(prefix='psverif.', dir=base)
        if not os.environ.get('VERIF_KEEP'):
            atexit.register(lambda: shutil.rmtree(_scratch, ignore_errors=True))
    return _scratch

def run(cmd, timeout=None, cwd=None, check=True, env=None, input=None):
    t0 = time.time()
    try:
        p = subprocess.run(cmd, capture_output=True, text=True, timeout=timeout, cwd=cwd, env=env, input=input)
    except subprocess.TimeoutExpired as e:
        return dict(rc=-9, out=(e.stdout or b'').decode('utf8', 'replace') if isinstance(e.stdout, bytes) else (e.stdout or ''),
                    err='TIMEOUT', wall=time.time() - t0, timeout=True)
    if check and p.returncode != 0:
        raise CheckError('command failed (%d): %s\n%s\n%s' % (p.returncode, ' '.join(cmd)[:400], p.stdout[-3000:], p.stderr[-3000:]))
    return dict(rc=p.returncode, out=p.stdout, err=p.stderr, wall=time.time() - t0, timeout=False)

import threading
_once_lock = threading.Lock(); _once_locks = {}; _once_vals = {}
def once(key, fn):
    """thread-safe memoisation of an expensive build step"""
    with _once_lock:
        lk = _once_locks.setdefault(key, threading.Lock())
    with lk:
        if key not in _once_vals: _once_vals[key] = fn()
        return _once_vals[key]

def pmap(fn, items, jobs=None):
    with ThreadPoolExecutor(max_workers=jobs or NPROC) as ex:
        return list(ex.map(fn, items))

def src_hash(paths):
    h = hashlib.sha256()
    for p in sorted(paths):
        with open(p, 'rb') as f: h.update(f.read())
    return h.hexdigest()[:16]

def repo_sources():
    out = []
    for d in ('include/photospline', 'include/photospline/detail', 'include/photospline/cinter', 'src/core', 'src/fitter', 'src/cinter'):
        full = os.path.join(REPO, d)
        for f in sorted(os.listdir(full)):
            if f.endswith(('.h', '.c', '.cpp')): out.append(os.path.join(full, f))
    return out

def build_ir(name, sources, defines=(), extra=(), noinline=False):
    """compile C/C++ sources (wrappers + repo files) to one scalarized .ll; returns its path"""
    d = scratch(); lls = []
    def one(src):
        out = os.path.join(d, '%s.%s.ll' % (name, re.sub(r'[^A-Za-z0-9]', '_', os.path.basename(src))))
        if src.endswith('.c'):
            cmd = ['clang-14'] + CLANG_CFLAGS
        else:
            cmd = ['clang++-14'] + CLANG_FLAGS
        cmd += ['-D' + x for x in defines] + list(extra) + (['-fno-inline'] if noinline else []) + ['-S', '-emit-llvm', src, '-o', out]
        run(cmd)
        return out
    lls = pmap(one, sources)
    linked = os.path.join(d, name + '.linked.ll')
    run(['llvm-link-14', '-S'] + lls + ['-o', linked])
    final = os.path.join(d, name + '.ll')
    run(['opt-14', '-passes=scalarizer', '-scalarize-load-store', '-S', linked, '-o', final])
    return final

def ir2c(ll, out, roots, cut=(), alias=(), extra=()):
    cmd = [sys.executable, os.path.join(VERIF, 'tools/ir2c.py'), ll, '-o', out, '--roots', ','.join(roots), '--map', out + '.map']
    if cut: cmd += ['--cut', ','.join(cut)]
    for a in alias: cmd += ['--alias', a]
    cmd += list(extra)
    run(cmd)
    return json.load(open(out + '.map'))

def build_ref_objects(name, sources, defines=(), sanitize=False):
    """compile real sources with g++ (the reference build) -> list of .o"""
    d = scratch(); objs = []
    def one(src):
        out = os.path.join(d, '%s.%s.o' % (name, re.sub(r'[^A-Za-z0-9]', '_', os.path.basename(src))))
        if src.endswith('.c'):
            cmd = ['gcc', '-std=gnu99', '-O2', '-msse4.2', '-mno-avx', '-w', '-I' + REPO + '/include', '-I' + REPO + '/src/fitter', '-I/usr/include/suitesparse']
        else:
            cmd = ['g++'] + GXX_FLAGS
        if sanitize: cmd += ['-fsanitize=address,undefined', '-fno-omit-frame-pointer', '-g', '-O1']
        cmd += ['-D' + x for x in defines] + ['-c', src, '-o', out]
        run(cmd); return out
    return pmap(one, sources)

# ----------------------------------------------------------------------------- CBMC
CBMC_FLAGS = ['--unwinding-assertions', '--signed-overflow-check', '--undefined-shift-check',
              '--div-by-zero-check', '--drop-unused-functions', '--no-malloc-may-fail', '--no-standard-checks',
              '--bounds-check', '--pointer-check', '--pointer-primitive-check', '--object-bits', '12', '--slice-formula']

def goto_cc(out, sources, defines=(), includes=()):
    cmd = ['goto-cc', '-o', out, '-D__CPROVER__'] + ['-D' + x for x in defines] + ['-I' + x for x in includes] + ['-I' + os.path.join(VERIF, 'rt')] + list(sources)
    run(cmd)
    return out

def parse_cbmc(out):
    """-> (verdict, failed_props[list of (name, desc)], n_props)"""
    failed = []; nprops = 0
    for m in re.finditer(r'^\[(\S+)\] (.*?): (SUCCESS|FAILURE)$', out, re.M):
        nprops += 1
        if m.group(3) == 'FAILURE': failed.append((m.group(1), m.group(2)))
    if 'VERIFICATION SUCCESSFUL' in out: v = 'SUCCESS'
    elif 'VERIFICATION FAILED' in out: v = 'FAILED'
    else: v = 'ERROR'
    return v, failed, nprops

def cbmc(binary, function=None, unwind=None, unwindset=(), extra=(), timeout=300, trace=False, memlimit_gb=12, flags=None):
    cmd = ['cbmc', binary] + list(CBMC_FLAGS if flags is None else flags)
    if function: cmd += ['--function', function]
    if unwind is not None: cmd += ['--unwind', str(unwind)]
    if unwindset: cmd += ['--unwindset', ','.join(unwindset)]
    if trace: cmd += ['--trace']
    cmd += list(extra)
    shell = 'ulimit -v %d; exec "$@"' % (memlimit_gb * 1024 * 1024)
    r = run(['bash', '-c', shell, 'x'] + cmd, timeout=timeout, check=False)
    if r['timeout']:
        r['verdict'] = 'TIMEOUT'; r['failed'] = []; r['nprops'] = 0
    else:
        r['verdict'], r['failed'], r['nprops'] = parse_cbmc(r['out'])
        m = re.search(r'(\d+) variables, (\d+) clauses', r['out'])
        if m: r['sat_vars'] = int(m.group(1)); r['sat_clauses'] = int(m.group(2))
    r['cmd'] = ' '.join(cmd)
    return r

# ----------------------------------------------------------------------------- evidence / findings
def load_known():
    p = os.path.join(VERIF, 'known_findings.json')
    if not os.path.exists(p): return {'findings': [], 'fixed': []}
    return json.load(open(p))

def write_evidence(pid, tier, coverage, assumptions, wall, violations, level='model_checking'):
    os.makedirs(os.path.join(VERIF, 'evidence'), exist_ok=True)
    ev = dict(property_id=pid, tier=tier, seed=SEED, level=level, coverage=coverage, assumptions=assumptions,
              wall_s=round(wall, 2), violations=violations)
    with open(os.path.join(VERIF, 'evidence', pid + '.json'), 'w') as f:
        json.dump(ev, f, indent=1, default=str)
    return ev

# ----------------------------------------------------------------------------- CBMC instance grids
def list_loops(binary):
    r = run(['cbmc', binary, '--function', 'harness', '--show-loops', '--drop-unused-functions'], check=False)
    return re.findall(r'^Loop (\S+):\n  file \S+ line \d+ function (\S+)', r['out'], re.M)

class GotoLib:
    """generated C + runtime + models compiled once to goto objects; harnesses are linked per instance"""
    def __init__(self, name, csources, defines, includes):
        # goto-cc does not predefine __CPROVER__ (cbmc's own front end does): the runtime/models select their CBMC variants on it
        self.d = scratch(); self.defines = ['__CPROVER__'] + list(defines); self.includes = list(includes) + [self.d, os.path.join(VERIF, 'harness'), os.path.join(VERIF, 'models')]
        self.objs = []
        def one(src):
            out = os.path.join(self.d, '%s.%s.gb' % (name, os.path.basename(src)))
            run(['goto-cc', '-c'] + ['-D' + x for x in self.defines] + ['-I' + x for x in self.includes] + ['-I' + os.path.join(VERIF, 'rt'), src, '-o', out])
            return out
        self.objs = pmap(one, csources)
    def link(self, out, harness, defines):
        run(['goto-cc'] + ['-D' + x for x in self.defines + list(defines)] + ['-I' + x for x in self.includes] +
            ['-I' + os.path.join(VERIF, 'rt'), harness] + self.objs + ['-o', out])
        return out

def run_instance(lib, harness, name, defines, unwind, ir_unwind=None, timeout=300, extra=(), want_trace=False):
    """link + cbmc one instance; loops inside ir_* functions get ir_unwind, everything else `unwind`"""
    out = os.path.join(lib.d, name + '.gb')
    lib.link(out, harness, defines)
    uset = []
    if ir_unwind is not None:
        for lid, fn in list_loops(out):
            if fn.startswith('ir_'):
                b = ir_unwind(fn) if callable(ir_unwind) else ir_unwind
                if b is not None: uset.append('%s:%d' % (lid, b))
    r = cbmc(out, function='harness', unwind=unwind, unwindset=uset, timeout=timeout, extra=extra)
    r['name'] = name; r['defines'] = list(defines); r['binary'] = out; r['unwindset'] = uset; r['unwind'] = unwind
    return r

def cbmc_trace_inputs(binary, unwind, unwindset, prop, names, timeout=300, extra=()):
    """re-run with --trace for one failed property; return the last value assigned to each element of the named
    harness variables (values are read from the bit pattern CBMC prints, which is unambiguous)"""
    # no --slice-formula here: it removes the assignments to the recording variables from the trace
    cmd = ['cbmc', binary] + [f for f in CBMC_FLAGS if f != '--slice-formula'] + ['--function', 'harness', '--unwind', str(unwind), '--trace'] + list(extra)
    # unwinding / recursion assertions cannot be selected with --property: take the first failure instead
    cmd += ['--stop-on-fail'] if ('.unwind.' in prop or '.recursion' in prop) else ['--property', prop]
    if unwindset: cmd += ['--unwindset', ','.join(unwindset)]
    r = run(cmd, timeout=timeout, check=False)
    vals = {}
    for m in re.finditer(r'^  ([A-Za-z_][A-Za-z_0-9]*)((?:\[\d+[a-z]*\])*)=.*\(([01 ]+)\)$', r['out'], re.M):
        if m.group(1) in names:
            vals[m.group(1) + m.group(2)] = int(m.group(3).replace(' ', ''), 2)
    return vals
