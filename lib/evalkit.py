"""Evaluation bundle shared by C01..C05: IR of the eval wrappers + bspline.cpp, generated C,
layout header, translator validation against the g++ build."""
import os, glob
from common import *

EVAL_SOURCES = lambda: [VERIF + '/wrap/eval.cpp', REPO + '/src/core/bspline.cpp']
_cache = {}

def eval_ir(defines=(), cinter=False):
    key = ('ir', cinter) + tuple(defines)
    def build():
        return build_ir('eval' + ('c' if cinter else '') + ''.join('_' + d[:12] for d in defines), EVAL_SOURCES() + ([REPO + '/src/cinter/splinetable.cpp'] if cinter else []), defines=defines)
    return once(key, build)

def layout_header():
    def build():
        d = scratch()
        run(['g++'] + GXX_FLAGS + [VERIF + '/tools/gen_layout.cpp', '-o', d + '/gen_layout'])
        open(d + '/ps_layout.h', 'w').write(run([d + '/gen_layout'])['out'])
        return d + '/ps_layout.h'
    return once('layout', build)

def eval_c(roots, tag, defines=(), extra=('--nsw-signed',), cut=(), alias=(), cinter=False):
    d = scratch(); out = os.path.join(d, 'eval_%s.c' % tag)
    m = ir2c(eval_ir(defines, cinter), out, roots, cut=cut, alias=alias, extra=extra)
    return out, m

MODEL_SRCS = [VERIF + '/rt/rt_common.c', VERIF + '/models/stdcxx.c', VERIF + '/models/alloc_plain.c']

def validate_translation(seed=SEED):
    """generated C + R-ieee vs g++ build of the real code, bit-identical (DESIGN 2.5). returns (compared, mismatches)"""
    if 'val' in _cache: return _cache['val']
    d = scratch()
    c, m = eval_c(['/^w_/'], 'val', extra=())
    objs = []
    def cc(src):
        o = os.path.join(d, 'val.' + os.path.basename(src) + '.o')
        run(['gcc', '-fwrapv', '-falign-functions=16', '-O1', '-DVR_IEEE', '-I' + VERIF + '/rt', '-I' + VERIF + '/models', '-c', src, '-o', o]); return o
    objs = pmap(cc, [c] + MODEL_SRCS)
    ref = build_ref_objects('valref', [VERIF + '/wrap/eval.cpp', REPO + '/src/core/bspline.cpp', REPO + '/src/core/fitsio.cpp', REPO + '/src/core/convolve.cpp'])
    run(['g++'] + GXX_FLAGS + ['-I' + VERIF + '/harness', VERIF + '/harness/val_eval.cpp', '-o', d + '/val_eval'] + objs + ref + ['-lcfitsio', '-lm'])
    r = run([d + '/val_eval', str(seed)] + sorted(glob.glob(REPO + '/test/test_data/*.fits')), check=False, timeout=120)
    mm = re.search(r'VALIDATION compared=(\d+) mismatches=(\d+)', r['out'])
    if r['timeout'] or r['rc'] < 0:
        # the real code itself hangs/crashes on the validation inputs: not a translator disagreement; the solver checks decide
        _cache['val'] = (0, 0, 'real build did not finish the validation run (%s)' % ('timeout' if r['timeout'] else 'signal %d' % -r['rc']))
        return _cache['val']
    if not mm or r['rc'] != 0:
        raise CheckError('translator validation failed (generated C disagrees with the g++ build):\n' + r['out'][-2000:] + r['err'][-2000:])
    _cache['val'] = (int(mm.group(1)), int(mm.group(2)), 'ok')
    return _cache['val']

STR_CUT = [r'/^std::__cxx11::to_string\(/', r'/std::operator\+<char/']
def ord_lib(roots, tag, cut=(), alias=(), cut_strings=False):
    """goto library in the order-key domain for the given roots"""
    layout_header()
    c, m = eval_c(roots, tag, cut=list(cut) + (STR_CUT if cut_strings else []), alias=alias)
    lib = GotoLib(tag, [c] + MODEL_SRCS + ([VERIF + '/models/strstubs.c'] if cut_strings else []), ['VR_ORD'], [])
    lib.map = m
    return lib
