"""Result bookkeeping shared by all checks: known findings, VIOLATION lines, evidence, exit codes."""
import os, sys, time, json, re, shutil
from common import *

class Outcome:
    def __init__(self, pid, tier):
        self.pid = pid; self.tier = tier; self.t0 = time.time()
        self.violations = []   # dict(signature, what, replay, detail)
        self.errors = []       # strings: the check could not decide something
        self.cov = dict(obligations=0, discharged=0, samples=[], functions_encoded=[], bounds={}, solver_time_s=0.0,
                        queries=0, witness_ok=None, trusted_base=[], checker_cmd='')
        self.assumptions = []
        # replay files of earlier runs of this check are stale (named regression specs are kept)
        rd = os.path.join(VERIF, 'replay')
        if os.path.isdir(rd):
            for f in os.listdir(rd):
                if re.match(r'^%s-[0-9a-f]{10}\.' % pid, f): os.remove(os.path.join(rd, f))
    def add_violation(self, signature, what, replay, detail=None):
        self.violations.append(dict(signature=signature, what=what, replay=replay, detail=detail))
    def finish(self):
        known = load_known()
        new = []; listed = []
        for v in self.violations:
            hit = None
            for k in known.get('findings', []):
                if k['property'] == self.pid and re.search(k['match'], v['signature']):
                    hit = k; break
            (listed if hit else new).append((v, hit))
        seenk = set()
        for v, k in listed:
            if k['match'] in seenk: continue
            seenk.add(k['match'])
            print('KNOWN-FINDING: property=%s %s' % (self.pid, k['what']))
        seen = set()
        for v, _ in new:
            if v['signature'] in seen: continue
            seen.add(v['signature'])
            print('VIOLATION property=%s replay=%s  # %s' % (self.pid, v['replay'], v['what']))
        for e in self.errors[:20]: print('CHECK-ERROR: ' + e)
        cov = self.cov
        cov['known_findings_reported'] = sorted(seenk)
        cov['violation_signatures'] = sorted(seen)
        cov['errors'] = self.errors[:20]
        if not cov['samples']: cov['samples'] = ['(none)']
        cov.setdefault('evaluations', max(cov['obligations'], 1))
        cov.setdefault('distinct_nontrivial', cov['obligations'])
        cov.setdefault('rule', 'one obligation = one solver instance (CBMC run or SMT query) over a distinct concrete size configuration with symbolic contents')
        write_evidence(self.pid, self.tier, cov, self.assumptions, time.time() - self.t0, len(seen))
        if seen: return 1
        if self.errors: return 2
        return 0
