"""E2 driver: native symbolic runs (generated C + R-sym) and SMT discharge with z3 (+ cvc5 sample)."""
import os, json, random, subprocess
from common import *
import evalkit

_bin = {}
CINTER_ROOTS = ['ndsplineeval', 'ndsplineeval_gradient', 'ndsplineeval_deriv', 'tablesearchcenters']
def build_harness(tag='e2', defines=(), eval_defines=(), extra_c=(), cinter=False):
    """gcc-compiled generated C (VR_SYM) + rt_sym + e2_eval harness -> executable"""
    key = (tag, cinter) + tuple(defines) + tuple(eval_defines)
    return once(key, lambda: _build_harness(tag, defines, eval_defines, extra_c, cinter))

def _build_harness(tag, defines, eval_defines, extra_c, cinter):
    d = scratch(); evalkit.layout_header()
    roots = ['/^w_/'] + (CINTER_ROOTS if cinter else [])
    alias = ['%s=c_%s' % (r, r) for r in CINTER_ROOTS] if cinter else []
    if cinter: defines = list(defines) + ['WITH_CINTER']
    c, m = evalkit.eval_c(roots, tag + '_sym', defines=eval_defines, extra=(), alias=alias, cinter=cinter)
    objs = []
    def cc(src):
        o = os.path.join(d, tag + '.' + os.path.basename(src) + '.o')
        run(['gcc', '-fwrapv', '-falign-functions=16', '-O1', '-DVR_SYM', '-I' + VERIF + '/rt', '-I' + VERIF + '/models', '-I' + d, '-c', src, '-o', o]); return o
    objs = pmap(cc, [c] + evalkit.MODEL_SRCS + list(extra_c))
    o = os.path.join(d, tag + '.rt_sym.o')
    run(['g++', '-std=c++17', '-O2', '-I' + VERIF + '/rt', '-c', VERIF + '/rt/rt_sym.cpp', '-o', o])
    out = os.path.join(d, tag + '_e2_eval')
    run(['g++', '-std=c++17', '-O1', '-DVR_SYM'] + ['-D' + x for x in defines] + ['-I' + VERIF + '/rt', '-I' + VERIF + '/harness', '-I' + d, VERIF + '/harness/e2_eval.cpp', '-o', out] + objs + [o, '-lgmpxx', '-lgmp', '-lm'])
    return (out, m)

def run_cases(binary, casefile_text, name):
    """run the harness on one case file; returns (outdir, manifest entries)"""
    d = os.path.join(scratch(), 'e2_' + name); os.makedirs(d, exist_ok=True)
    cf = os.path.join(d, 'cases.txt'); open(cf, 'w').write(casefile_text)
    r = run([binary, cf, d], check=False, timeout=1800)
    if r['rc'] != 0: raise CheckError('E2 harness failed on %s: rc=%d %s %s' % (name, r['rc'], r['out'][-500:], r['err'][-1500:]))
    man = [json.loads(l) for l in open(os.path.join(d, 'manifest.jsonl'))]
    return d, man

def solve(path, timeout_s, solver='z3', model=False):
    if solver == 'z3':
        if model:
            txt = open(path).read() + '(get-model)\n'
            r = run(['z3', '-in', '-T:%d' % timeout_s], check=False, timeout=timeout_s + 10, input=txt)
        else:
            r = run(['z3', '-T:%d' % timeout_s, path], check=False, timeout=timeout_s + 10)
    else:
        r = run(['cvc5', '--tlimit=%d' % (timeout_s * 1000), path], check=False, timeout=timeout_s + 10)
    out = r['out'].strip()
    first = out.split('\n')[0].strip() if out else ''
    if '(error' in out and not model: return 'error', out[:300], r['wall']
    if first in ('sat', 'unsat'): return first, out, r['wall']
    return ('timeout' if (r['timeout'] or 'timeout' in out) else 'unknown'), out[:300], r['wall']

def solve_batch(paths, timeout_s):
    """several queries in one z3 process, separated by (reset); returns list of verdicts or None if the output is not clean"""
    txt = []
    for p in paths: txt.append(open(p).read()); txt.append('(reset)\n')
    r = run(['z3', '-in', '-t:%d' % (timeout_s * 1000)], check=False, timeout=timeout_s * len(paths) + 30, input=''.join(txt))
    lines = [l.strip() for l in r['out'].split('\n') if l.strip()]
    if r['timeout'] or len(lines) != len(paths) or any(l not in ('sat', 'unsat', 'unknown') for l in lines): return None, r['wall']
    return lines, r['wall']

def discharge(dirs_and_manifests, budget_s, cvc5_fraction=0.05, seed=SEED, batch=40):
    """solve every query; returns list of dict(file, label, case, verdict, wall, model?)"""
    qs = []
    for d, man in dirs_and_manifests:
        for e in man:
            if e['kind'] in ('eq', 'divisor', 'eq-trivial', 'witness'): qs.append(dict(e, path=os.path.join(d, e['file'])))
    rng = random.Random(seed)
    def one(q):
        v, out, wall = solve(q['path'], budget_s)
        q['verdict'] = v; q['wall'] = wall
        if v == 'sat' and q['kind'] != 'witness' and not q.get('uf'):
            v2, out2, _ = solve(q['path'], budget_s, model=True); q['model'] = out2
        elif v != 'unsat': q['detail'] = out
        return q
    # small queries are batched per z3 process (start-up dominates); anything not cleanly answered is re-run alone
    small = [q for q in qs if q.get('nodes', 0) <= 4000]; big = [q for q in qs if q.get('nodes', 0) > 4000]
    chunks = [small[i:i + batch] for i in range(0, len(small), batch)]
    def onechunk(ch):
        v, wall = solve_batch([q['path'] for q in ch], budget_s)
        out = []
        for i, q in enumerate(ch):
            if v is None or v[i] not in ('unsat',) and not (v[i] == 'sat' and q['kind'] == 'witness'):
                out.append(one(q))            # sat / unknown / unclean batch: individual run (with model)
            else:
                q['verdict'] = v[i]; q['wall'] = wall / len(ch); out.append(q)
        return out
    res = [q for ch in pmap(onechunk, chunks) for q in ch] + pmap(one, big)
    # cross-check a sample on cvc5 (QF_NRA / QF_UF): a disagreement is an error of the check
    sample = [q for q in res if q['verdict'] in ('sat', 'unsat') and rng.random() < cvc5_fraction][:200]
    def two(q):
        v, out, wall = solve(q['path'], budget_s, solver='cvc5'); q['cvc5'] = v; return q
    pmap(two, sample)
    return res

def parse_model(txt):
    """z3 model text -> {name: Fraction-string}"""
    import re
    vals = {}
    for m in re.finditer(r'\(define-fun \|?([^\s|]+)\|? \(\) Real\s+(.*?)\)\s*(?=\(define-fun|\)\s*$)', txt, re.S):
        vals[m.group(1)] = ' '.join(m.group(2).split())
    return vals

def sexpr_to_fraction(s):
    from fractions import Fraction
    s = s.strip()
    toks = s.replace('(', ' ( ').replace(')', ' ) ').split()
    def parse(i):
        if toks[i] == '(':
            op = toks[i + 1]; i += 2; args = []
            while toks[i] != ')':
                v, i = parse(i); args.append(v)
            i += 1
            if op == '-': return (-args[0] if len(args) == 1 else args[0] - args[1]), i
            if op == '/': return args[0] / args[1], i
            if op == '+': return sum(args), i
            if op == '*':
                r = Fraction(1)
                for a in args: r *= a
                return r, i
            raise ValueError(op)
        return Fraction(toks[i]), i + 1
    return parse(0)[0]
