"""Turn a failing order-key CBMC instance (C04/C05) into a replay against the real library."""
import os, re, hashlib
from common import *
_built = {}
import threading
_lock = threading.Lock()

def replay_binary(sanitize):
    key = 'san' if sanitize else 'plain'
    with _lock:
      if key not in _built:
          d = scratch()
          ref = build_ref_objects('rp' + key, [REPO + '/src/core/bspline.cpp', REPO + '/src/core/fitsio.cpp', REPO + '/src/core/convolve.cpp'], sanitize=sanitize)
          out = os.path.join(d, 'replay_eval_' + key)
          cmd = ['g++'] + GXX_FLAGS + ['-UNDEBUG', '-I' + VERIF + '/harness', VERIF + '/harness/replay_eval.cpp', '-o', out] + ref + ['-lcfitsio', '-lm']
          if sanitize: cmd += ['-fsanitize=address,undefined', '-fno-omit-frame-pointer', '-g', '-O1']
          run(cmd)
          _built[key] = out
    return _built[key]

def extract_spec(r, nd, orders, nks, mode, prop):
    """CBMC trace of failing instance r -> replay spec text (None if the trace could not be read)"""
    vals = cbmc_trace_inputs(r['binary'], r['unwind'], r['unwindset'], prop, {'in_knots', 'in_pad', 'in_x', 'in_mask', 'in_derivs'}, timeout=600)
    def num(s):
        s = str(s)
        m = re.match(r'-?\d+', s)
        return int(m.group(0)) if m else 0
    def get(name, *idx):
        for k, v in vals.items():
            if re.split(r'[\[.]', k)[0] != name: continue
            ks = [int(x) for x in re.findall(r'\[(\d+)[a-z]*\]', k)]
            if ks == list(idx): return num(v)
        return None
    lines = ['mode ' + mode, 'nd %d' % nd]
    for d in range(nd):
        lines.append('dim %d order %d nknots %d' % (d, orders[d], nks[d]))
        ks = [get('in_knots', d, i) for i in range(nks[d])]
        if any(k is None for k in ks): return None
        lines.append('knots %d ' % d + ' '.join(map(str, ks)))
        ps = [get('in_pad', d, i) for i in range(2 * orders[d])]
        lines.append('pad %d ' % d + ' '.join(str(p if p is not None else 1) for p in ps))
    xs = [get('in_x', d) for d in range(nd)]
    if any(x is None for x in xs): return None
    lines.append('x ' + ' '.join(map(str, xs)))
    m = get('in_mask')
    if m is not None: lines.append('mask %d' % m)
    dv = [get('in_derivs', d) for d in range(nd)]
    if all(v is not None for v in dv): lines.append('derivs ' + ' '.join(map(str, dv)))
    return '\n'.join(lines) + '\n'

def save_and_run(pid, spec, sanitize):
    os.makedirs(os.path.join(VERIF, 'replay'), exist_ok=True)
    h = hashlib.sha1(spec.encode()).hexdigest()[:10]
    path = os.path.join(VERIF, 'replay', '%s-%s.spec' % (pid, h))
    open(path, 'w').write(spec)
    r = run([replay_binary(sanitize), path], check=False, timeout=120,
            env=dict(os.environ, ASAN_OPTIONS='detect_leaks=0:abort_on_error=0', UBSAN_OPTIONS='halt_on_error=1:print_stacktrace=1'))
    reproduced = r['rc'] != 0 or r['timeout']
    if r['timeout']: r['out'] += '\nREPLAY TIMEOUT (non-termination)'
    return path, reproduced, (r['out'] + r['err'])[-1500:]

def triage(r, pid, c, mode, sanitize, timeout=300):
    """classify one CBMC instance result: ('ok',) | ('violation', signature, what, path, log) | ('error', msg)"""
    if r['verdict'] == 'SUCCESS': return ('ok',)
    if r['verdict'] != 'FAILED':
        return ('error', '%s: %s %s' % (r['name'], r['verdict'], r['err'][-200:].strip()))
    insuff = [f for f in r['failed'] if 'abstraction insufficient' in f[1]]
    if insuff: return ('error', '%s: %s' % (r['name'], insuff[0][1]))
    # prefer a genuine assertion over unwinding/memory side effects of the same bug
    order = sorted(r['failed'], key=lambda f: (0 if 'assertion' in f[0] and 'unwind' not in f[0] else 1))
    prop, desc = order[0]
    kind = 'unwind' if 'unwinding' in desc or 'recursion' in desc else ('memory' if ('pointer' in desc or 'bounds' in desc or 'dereference' in desc) else 'spec')
    spec = extract_spec(r, c['nd'], c['orders'], c['nks'], mode, prop)
    if spec is None: return ('error', '%s: counterexample for %s could not be extracted' % (r['name'], prop))
    path, rep, log = save_and_run(pid, spec, sanitize)
    what = '%s fails for orders %s nknots %s: %s' % (c.get('entry', mode), c['orders'], c['nks'], desc)
    sig = '%s:%s:%s:%s' % (pid, c.get('entry', mode), kind, re.sub(r'[^A-Za-z0-9_<>=. -]', '', desc)[:70])
    if rep: return ('violation', sig, what, path, log)
    if kind == 'spec': return ('error', '%s: counterexample for "%s" does not reproduce on the real build (encoding error?)' % (r['name'], desc))
    # memory / termination findings that sanitizers do not confirm are reported separately as errors-to-triage
    return ('error', '%s: %s found by CBMC but not confirmed by the sanitizer replay %s' % (r['name'], desc, path))

def failure_group(r):
    """coarse signature of a failing instance before triage: (entry, first failing property description)"""
    if r['verdict'] != 'FAILED': return (r['verdict'],)
    order = sorted(r['failed'], key=lambda f: (0 if 'assertion' in f[0] and 'unwind' not in f[0] else 1))
    return (r['case'].get('entry', ''), re.sub(r'\d+', 'N', order[0][1])[:80])

def run_grid(out, pid, cases, one, mode, sanitize, budget, per_group=2):
    """phase 1: all instances; phase 2: extract + replay at most per_group counterexamples per failure group"""
    res = pmap(one, cases)
    # a failure consisting only of unwinding assertions may be a too-tight bound of ours: re-run those loosely
    def retry(r):
        if r['verdict'] == 'FAILED' and all('unwinding' in f[1] or 'recursion' in f[1] for f in r['failed']):
            r2 = one(r['case'], loose=True); r2['retried_loose'] = True; return r2
        return r
    res = pmap(retry, res)
    groups = {}
    for r in res:
        out.cov['obligations'] += 1; out.cov['solver_time_s'] += r['wall']
        if r['verdict'] == 'SUCCESS': out.cov['discharged'] += 1
        else: groups.setdefault(failure_group(r), []).append(r)
    todo = []
    for g, rs in groups.items():
        todo += rs[:per_group]
    tri = pmap(lambda r: triage(r, pid, r['case'], mode, sanitize, timeout=budget), todo)
    for r, t in zip(todo, tri):
        n_same = len(groups[failure_group(r)])
        if t[0] == 'violation': out.add_violation(t[1], t[2] + ' (%d instance(s) fail this way)' % n_same, t[3], t[4])
        elif t[0] == 'error': out.errors.append(t[1])
    return res
