"""Case generation for the E2 evaluation checks (C01/C02/C03): knot families, region enumeration,
case-file text, and conversion of solver models into replay specs."""
import os, random, hashlib, re
from fractions import Fraction
from common import *
import e2

def knot_family(kind, nk, order, rng):
    """list of nk Fractions (non-decreasing)"""
    if kind == 'uniform':
        return [Fraction(i) for i in range(nk)]
    steps = [Fraction(1, 2), Fraction(3, 4), Fraction(2), Fraction(1, 3), Fraction(5, 4), Fraction(1), Fraction(7, 3), Fraction(1, 5), Fraction(3, 2)]
    ks = [Fraction(-3, 2)]
    for i in range(nk - 1): ks.append(ks[-1] + steps[(i * 5 + rng.randrange(len(steps))) % len(steps)])
    if kind == 'repeated' and nk >= 4:
        j = 1 + rng.randrange(nk - 3) if nk > 3 else 1      # t_j == t_{j+1}
        ks[j + 1] = ks[j]
    if kind == 'scaled':
        ks = [k * Fraction(10 ** 6) if i % 2 else k * Fraction(10 ** 6) + Fraction(1, 10 ** 4) * i for i, k in enumerate(ks)]
        ks = sorted(ks)
    return ks

def regions_1d(ks):
    """all regions of (t_0, t_last]: ('i',k) open intervals with t_k<t_{k+1}; ('k',k) knots (first index of a repeated knot)"""
    out = []
    for k in range(len(ks) - 1):
        if ks[k] < ks[k + 1]: out.append(('i', k))
    for k in range(1, len(ks)):
        if ks[k] > ks[0] and (ks[k] != ks[k - 1]): out.append(('k', k))
    return out

def fr(q): return '%d/%d' % (q.numerator, q.denominator) if q.denominator != 1 else str(q.numerator)

class Table:
    def __init__(self, orders, knots, symknots=False):
        self.orders = list(orders); self.knots = [list(k) for k in knots]; self.symknots = symknots
        self.nd = len(orders)
    def header(self):
        s = 'table nd %d%s\n' % (self.nd, ' symknots' if self.symknots else '')
        for d in range(self.nd):
            s += 'dim %d order %d knots %s\n' % (d, self.orders[d], ' '.join(fr(k) for k in self.knots[d]))
        return s
    def tag(self): return 'o%s_k%s' % ('-'.join(map(str, self.orders)), '-'.join(str(len(k)) for k in self.knots))

class CaseSet:
    """cases of one table -> one harness run"""
    def __init__(self, table, name):
        self.table = table; self.name = name; self.cases = {}; self.lines = []
    def add(self, kind, entry, regions, mask=0, derivs=None, ones=False, uf=False, entry2=None):
        cid = '%s#%d' % (self.name, len(self.cases))
        l = 'case %s kind %s entry %s' % (cid, kind, entry)
        if entry2: l += ' entry2 ' + entry2
        if mask: l += ' mask %d' % mask
        if derivs: l += ' derivs ' + ','.join(map(str, derivs))
        if ones: l += ' ones'
        if uf: l += ' uf'
        l += ' region ' + ' '.join('%s%d' % r for r in regions)
        self.lines.append(l)
        self.cases[cid] = dict(kind=kind, entry=entry, entry2=entry2, regions=list(regions), mask=mask, derivs=derivs or [], ones=ones, uf=uf, table=self.table)
        return cid
    def text(self): return self.table.header() + '\n'.join(self.lines) + '\n'

def cover_tuples(per_dim_regions, rng, n_extra=0):
    """seeded covering: every per-dimension region appears at least once"""
    m = max(len(r) for r in per_dim_regions)
    tuples = []
    shuf = [rng.sample(r, len(r)) for r in per_dim_regions]
    for i in range(m + n_extra):
        tuples.append(tuple(s[i % len(s)] if i < m else rng.choice(s) for s in shuf))
    return tuples

def model_to_spec(case, label, model_txt):
    """z3 model + case -> replay_value spec text"""
    t = case['table']
    vals = {}
    for k, v in e2.parse_model(model_txt).items():
        try: vals[k] = e2.sexpr_to_fraction(v)
        except Exception: pass
    lines = ['nd %d' % t.nd]
    nc = 1
    for d in range(t.nd):
        lines.append('dim %d order %d knots %s' % (d, t.orders[d], ' '.join(fr(k) for k in t.knots[d])))
        nc *= len(t.knots[d]) - t.orders[d] - 1
    coefs = [Fraction(1) if case['ones'] else vals.get('c%d' % i, Fraction(0)) for i in range(nc)]
    lines.append('coef ' + ' '.join(fr(c) for c in coefs))
    xs = []
    for d in range(t.nd):
        kind, k = case['regions'][d]
        if kind == 'k': xs.append(t.knots[d][k])
        else: xs.append(vals.get('x%d' % d, (t.knots[d][k] + t.knots[d][k + 1]) / 2))
    lines.append('x ' + ' '.join(fr(x) for x in xs))
    lines.append('entry ' + case['entry'])
    if case['mask']: lines.append('mask %d' % case['mask'])
    if case['derivs']: lines.append('derivs ' + ','.join(map(str, case['derivs'])))
    m = re.search(r'\[(\d+)\] ==', label)
    if m: lines.append('lane %s' % m.group(1))
    return '\n'.join(lines) + '\n'

def replay_value_binary():
    def build():
        d = scratch()
        ref = build_ref_objects('rpv', [REPO + '/src/core/bspline.cpp', REPO + '/src/core/fitsio.cpp', REPO + '/src/core/convolve.cpp'])
        out = os.path.join(d, 'replay_value')
        run(['g++'] + GXX_FLAGS + ['-I' + VERIF + '/harness', VERIF + '/harness/replay_value.cpp', '-o', out] + ref + ['-lcfitsio', '-lgmpxx', '-lgmp', '-lm'])
        return out
    return once('replay_value', build)

def run_replay_value(pid, spec):
    os.makedirs(os.path.join(VERIF, 'replay'), exist_ok=True)
    path = os.path.join(VERIF, 'replay', '%s-%s.spec' % (pid, hashlib.sha1(spec.encode()).hexdigest()[:10]))
    open(path, 'w').write(spec)
    r = run([replay_value_binary(), path], check=False, timeout=60)
    return path, (r['rc'] == 3 or r['rc'] < 0 or r['timeout']), (r['out'] + r['err'])[-600:]

def classify(case):
    """coarse class of a case for grouping counterexamples"""
    t = case['table']; cls = []
    for d, (kind, k) in enumerate(case['regions']):
        o = t.orders[d]; nk = len(t.knots[d]); na = nk - o - 1
        pos = 'interior'
        x_lo = t.knots[d][k]
        if kind == 'i':
            if k < o: pos = 'lower-margin'
            elif k >= na: pos = 'upper-margin'
        else:
            if x_lo < t.knots[d][o]: pos = 'lower-margin-knot'
            elif x_lo > t.knots[d][na]: pos = 'upper-margin-knot'
            elif x_lo == t.knots[d][na]: pos = 'support-end-repeated-knot' if t.knots[d][na - 1] == t.knots[d][na] else 'support-end-knot'
            else: pos = 'interior-knot'
        dn = ''
        if case['kind'] == 'deriv' and d < len(case['derivs']): dn = 'd%d@' % case['derivs'][d]
        cls.append('%s%s%s' % (dn, pos, '/minknots' if nk == 2 * o + 2 else ''))
    return ','.join(sorted(set(cls)))

def evaluate(out, pid, casesets, budget, per_group=2):
    """run harness on all case sets, discharge obligations, triage sat ones by replay. returns stats dict"""
    binary, m = e2.build_harness()
    def runset(cs): return cs, e2.run_cases(binary, cs.text(), re.sub(r'[^A-Za-z0-9_]', '_', cs.name))
    ran = pmap(runset, casesets)
    allcases = {}
    dm = []
    for cs, (d, man) in ran:
        allcases.update(cs.cases); dm.append((d, man))
    res = e2.discharge(dm, budget)
    groups = {}
    for d, man in dm:
        for e in man:
            if e['kind'] != 'error': continue
            if e['msg'].startswith('division by the constant zero') and e['case'] in allcases:
                # the real code divides by an exact zero here (inf/NaN): a candidate violation, decided by replay
                c = allcases[e['case']]; out.cov['obligations'] += 1
                g = (c['entry'], c.get('entry2'), 'divzero', classify(c), bool(c['mask']), tuple(bool(x) for x in c['derivs']))
                groups.setdefault(g, []).append(dict(e, label=e['case'] + ' ' + c['entry'], verdict='divzero', model=''))
            else: out.errors.append('%s: %s' % (e['case'], e['msg']))
    nwit = 0
    for q in res:
        if q['kind'] == 'witness':
            nwit += 1
            if q['verdict'] != 'sat': out.errors.append('vacuous obligation (assumptions unsatisfiable or undecided): %s' % q['label'])
            continue
        out.cov['obligations'] += 1; out.cov['solver_time_s'] += q['wall']
        if q.get('cvc5') and q['cvc5'] in ('sat', 'unsat') and q['cvc5'] != q['verdict']:
            out.errors.append('z3/cvc5 disagree on %s (%s vs %s)' % (q['label'], q['verdict'], q['cvc5']))
        if q['verdict'] == 'unsat': out.cov['discharged'] += 1
        elif q['verdict'] == 'sat':
            c = allcases[q['case']]
            what = 'divisor can be zero' if q['kind'] == 'divisor' else 'differs from the definition'
            g = (c['entry'], c.get('entry2'), q['kind'], classify(c), bool(c['mask']), tuple(bool(x) for x in c['derivs']))
            groups.setdefault(g, []).append(q)
        else:
            out.errors.append('%s: solver answered %s' % (q['label'], q['verdict']))
    # poison entries: proved output depends on uninitialised memory
    for d, man in dm:
        for e in man:
            if e['kind'] == 'poison':
                c = allcases[e['case']]
                out.cov['obligations'] += 1
                g = (c['entry'], c.get('entry2'), 'uninit', classify(c), bool(c['mask']), tuple(bool(x) for x in c['derivs']))
                groups.setdefault(g, []).append(dict(e, verdict='poison', model=''))
    out.cov['witnesses_sat'] = nwit
    todo = []
    for g, qs in groups.items(): todo += [(g, q) for q in qs[:per_group]]
    def tri(gq):
        g, q = gq; c = allcases[q['case']]
        spec = model_to_spec(c, q['label'], q.get('model', ''))
        return run_replay_value(pid, spec)
    tr = pmap(tri, todo)
    for (g, q), (path, rep, log) in zip(todo, tr):
        c = allcases[q['case']]; t = c['table']
        sig = '%s:%s:%s:%s:%s' % (pid, g[0] + ('~' + g[1] if g[1] else ''), g[2], g[3], 'orders=' + '-'.join(map(str, t.orders)))
        if g[2] == 'divzero' and any(len(set(k)) < len(k) for k in t.knots): sig += ':repeated-knots'      # a knot of multiplicity > 1: zero-width spans in the recursion
        what = '%s at %s (orders %s, nknots %s): %s; %d obligation(s) fail this way' % (q['label'], g[3], t.orders, [len(k) for k in t.knots], 'result depends on uninitialised memory' if g[2] == 'uninit' else ('divisor can be zero' if g[2] == 'divisor' else ('the code divides by an exact zero (NaN/inf result)' if g[2] == 'divzero' else 'result differs from the B-spline definition')), len(groups[g]))
        if rep: out.add_violation(sig, what, path, log)
        elif g[2] == 'uninit': out.add_violation(sig, what + ' (replay value happened to agree; the dependence on uninitialised stack memory is shown by the symbolic run)', path, log)
        else: out.errors.append('counterexample for "%s" does not reproduce on the real build (%s): %s' % (q['label'], path, log[-200:].replace('\n', ' ')))
    out.cov['queries'] = len(res)
    out.cov['e2_cases'] = len(allcases)
    out.cov['functions_encoded'] = m['translated']
    return res, allcases
