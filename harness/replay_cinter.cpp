// Replay for C18 on the real library (real cfitsio, real operator new): runs the scenario of the spec through the real C
// interface next to the C++ member functions and reports the first disagreement of the kind named in the "what" line:
// an exception leaving an extern "C" function (caught here), a failure of the C++ operation that the wrapper reports as
// success, a differing result, or blocks that are not released.  exit 3 = REPRODUCED.
#include "mktable.hpp"
#include "photospline/cinter/splinetable.h"
#include <cstdio>
#include <cstring>
#include <fstream>
#include <new>
#include <unistd.h>
#include <sys/wait.h>
static long live_blocks = 0, alloc_count = 0, fail_at = -1;
void* operator new(size_t n){ if (alloc_count++ == fail_at) throw std::bad_alloc(); void* p = malloc(n ? n : 1); if (!p) throw std::bad_alloc(); live_blocks++; return p; }
void* operator new[](size_t n){ return operator new(n); }
void operator delete(void* p) noexcept { if (p) { live_blocks--; free(p); } }
void operator delete[](void* p) noexcept { operator delete(p); }
void operator delete(void* p, size_t) noexcept { operator delete(p); }
void operator delete[](void* p, size_t) noexcept { operator delete(p); }
static int bad = 0;
static void fail(const std::string& m){ printf("%s\n", m.c_str()); bad = 1; }
int main(int argc, char** argv){
  std::ifstream in(argv[1]); std::string line, w, scen, what; unsigned nd = 0; std::vector<unsigned> ord; std::vector<uint64_t> nk; std::vector<std::pair<std::string, std::string>> aux;
  while (std::getline(in, line)) { std::istringstream ls(line); if (!(ls >> w)) continue;
    if (w == "cinter") { std::string id, tok; ls >> id; while (ls >> tok) { if (tok == "nd") { ls >> nd; ord.resize(nd); nk.resize(nd); } else if (tok == "scen") ls >> scen; } }
    else if (w == "what") std::getline(ls, what);
    else if (w == "dim") { unsigned d; std::string a; ls >> d >> a >> ord[d] >> a >> nk[d]; }
    else if (w == "aux") { std::string kv; ls >> kv; size_t bar = kv.find('|'); std::string v = kv.substr(bar + 1); for (auto& c : v) if (c == '~') c = ' '; aux.push_back({kv.substr(0, bar), v}); } }
  std::vector<std::vector<double>> kn(nd); uint64_t nc = 1; for (unsigned d = 0; d < nd; d++) { for (uint64_t i = 0; i < nk[d]; i++) kn[d].push_back(d + (double)i); nc *= nk[d] - ord[d] - 1; }
  std::vector<float> cf(nc); for (uint64_t i = 0; i < nc; i++) cf[i] = 1.f + i;
  auto table = [&](ST& t){ mk_table(t, ord, kn, cf, 0, 0); for (unsigned d = 0; d < nd; d++) for (unsigned i = 0; i < ord[d]; i++) { t.knots[d][-(int)i - 1] = kn[d][0] - 1 - i; t.knots[d][nk[d] + i] = kn[d].back() + 1 + i; } for (auto& a : aux) t.write_key(a.first.c_str(), a.second.c_str()); };
  bool want_escape = what.find("no exception leaves") != std::string::npos;
  if (scen == "eval") {
    ST t; table(t); splinetable h = {&t}; std::vector<double> x(nd), g(nd + 1); std::vector<int> c(nd); for (unsigned d = 0; d < nd; d++) { x[d] = kn[d][ord[d]]; c[d] = ord[d]; }
    try { ndsplineeval_gradient(&h, x.data(), c.data(), g.data()); } catch (std::exception& e) { fail(std::string("exception left ndsplineeval_gradient (a C caller would be terminated): ") + e.what()); }
  } else if (scen == "keys") {
    ST t; table(t); auto mb = t.write_fits_mem(); splinetable h = {nullptr}; splinetable_buffer b = {mb.first, mb.second}; splinetable_init(&h); readsplinefitstable_mem(&b, &h);
    int got = 77; int rc = 1; try { rc = splinetable_read_key(&h, SPLINETABLE_INT, "ABSENT", &got); } catch (std::exception& e) { fail(std::string("exception left splinetable_read_key: ") + e.what()); }
    int tg = 0; bool tr = t.read_key("ABSENT", tg);
    if ((rc != 0) != !tr) fail("splinetable_read_key(\"ABSENT\") returned " + std::to_string(rc) + " (success) although read_key returned false: the caller's variable was not written");
    { double dg = 0; int rcd = 1; try { rcd = splinetable_read_key(&h, SPLINETABLE_DOUBLE, "ABSENT", &dg); } catch (std::exception& e) { fail(std::string("exception left splinetable_read_key: ") + e.what()); } double td = 0; if ((rcd != 0) != !t.read_key("ABSENT", td)) fail("splinetable_read_key(SPLINETABLE_DOUBLE, \"ABSENT\") returned " + std::to_string(rcd) + " (success) although read_key returned false"); }
    int v = 5; try { rc = splinetable_write_key(&h, SPLINETABLE_INT, "NAXIS", &v); } catch (std::exception& e) { fail(std::string("exception left splinetable_write_key: ") + e.what()); }
    if (rc == 0) fail("splinetable_write_key of a reserved key reported success");
    splinetable_free(&h); free(mb.first);
  } else if (scen == "ops" || scen == "opsfail") {
    ST t; table(t); auto mb = t.write_fits_mem(); double kk[3] = {-1, 0, 1};
    for (unsigned dim = 0; dim < nd && !bad; dim++) {
      long used = 0; { splinetable h = {nullptr}; splinetable_buffer b = {mb.first, mb.second}; splinetable_init(&h); readsplinefitstable_mem(&b, &h); long a0 = alloc_count; splinetable_convolve(&h, dim, kk, 3); used = alloc_count - a0; splinetable_free(&h); }
      for (long k = 0; k < used && !bad; k++) { splinetable h = {nullptr}; splinetable_buffer b = {mb.first, mb.second}; splinetable_init(&h); readsplinefitstable_mem(&b, &h); int rc = 0;
        fail_at = alloc_count + k; try { rc = splinetable_convolve(&h, dim, kk, 3); fail_at = -1; if (rc == 0 && k < used) { /* allocation may not have been reached */ } }
        catch (std::bad_alloc& e) { fail_at = -1; fail("std::bad_alloc left splinetable_convolve (dimension " + std::to_string(dim) + ", allocation #" + std::to_string(k) + " failing): a C caller would be terminated"); }
        fail_at = -1; if (!bad && rc == 0) splinetable_free(&h); /* the table a failed convolution leaves behind is C20's subject */ } }
    { splinetable h = {nullptr}; splinetable_buffer b = {mb.first, mb.second}; splinetable_init(&h); readsplinefitstable_mem(&b, &h); std::vector<size_t> badp(nd, 0); int rc = 0;
      if (nd > 1) { try { rc = splinetable_permute(&h, badp.data()); } catch (std::exception& e) { fail(std::string("exception left splinetable_permute: ") + e.what()); } if (!bad && rc == 0) fail("splinetable_permute accepted an invalid permutation"); }
      splinetable_free(&h); }
    free(mb.first);
  } else if (scen == "mem" || scen == "memfail" || scen == "disk") {
    long before = 0; { ST t; table(t); auto mb = t.write_fits_mem(); before = live_blocks;
      splinetable h = {nullptr}; splinetable_buffer b = {mb.first, mb.second}, o = {nullptr, 0};
      try { if (splinetable_init(&h)) fail("splinetable_init failed"); if (readsplinefitstable_mem(&b, &h)) fail("readsplinefitstable_mem failed"); if (!(*(ST*)h.data == t)) fail("table read through the C interface differs");
        if (writesplinefitstable_mem(&o, &h)) fail("writesplinefitstable_mem failed"); if (readsplinefitstable_mem(&b, &h) == 0) fail("reading into an occupied handle succeeded");
        char path[] = "/var/tmp/psreplay_XXXXXX"; int fd = mkstemp(path); close(fd); if (writesplinefitstable(path, &h)) fail("writesplinefitstable failed"); splinetable g = {nullptr}; if (readsplinefitstable(path, &g)) fail("readsplinefitstable failed"); else if (!(*(ST*)g.data == t)) fail("file written through the C interface differs"); splinetable_free(&g); unlink(path);
        if (readsplinefitstable("/nonexistent/x.fits", &g) == 0) fail("reading a missing file reported success"); splinetable_free(&g);
        // failing read into an occupied handle, then free (in a child: a double free aborts)
        { fflush(stdout); pid_t pc = fork(); if (pc == 0) { splinetable q = {nullptr}; splinetable_buffer b2 = {mb.first, mb.second}; splinetable_init(&q); readsplinefitstable_mem(&b2, &q); readsplinefitstable("/nonexistent/x.fits", &q); splinetable_free(&q); splinetable_free(&q); _exit(0); }
          int st = 0; waitpid(pc, &st, 0); if (WIFSIGNALED(st)) fail("a failing readsplinefitstable into an occupied handle followed by splinetable_free crashed (signal " + std::to_string(WTERMSIG(st)) + "): the handle kept a pointer to the destroyed table"); }
      } catch (std::exception& e) { fail(std::string("exception left the C interface: ") + e.what()); }
      splinetable_free(&h); splinetable_free(&h); free(o.data); free(mb.first);
      if (live_blocks != before) fail("blocks allocated through the C interface and not released: " + std::to_string(live_blocks - before)); }
  }
  (void)want_escape;
  printf(bad ? "REPRODUCED\n" : "HELD\n"); return bad ? 3 : 0;
}
