// Translator + CHOLMOD-model validation for fitting (R-ieee): real library fit (real CHOLMOD) vs generated C fit on the
// semantic CHOLMOD model whose solve is plain Gaussian elimination; fitted coefficients must agree to 1e-5 relative.
#include "mktable.hpp"
#include <cstdio>
#include <cstring>
#include <cmath>
extern "C" {
void ir_w_fit(char* t, char* data, char* w, uint64_t nw, char* coords, char* ncoords, uint64_t ncv, char* orders, uint64_t no, char* knots, char* nknots, uint64_t nkv, char* sm, uint64_t nsm, char* po, uint64_t npo, uint32_t monodim);
extern int exc_pending;
void vm_solve(uint64_t n, const uint64_t* A, const uint64_t* b, uint64_t* x){
  std::vector<double> M(n * n), r(n); for (uint64_t i = 0; i < n * n; i++) memcpy(&M[i], &A[i], 8); for (uint64_t i = 0; i < n; i++) memcpy(&r[i], &b[i], 8);
  for (uint64_t k = 0; k < n; k++) { uint64_t piv = k; for (uint64_t i = k + 1; i < n; i++) if (std::fabs(M[k * n + i]) > std::fabs(M[k * n + piv])) piv = i;   // column-major: M[col*n+row]
    if (piv != k) { for (uint64_t c = 0; c < n; c++) std::swap(M[c * n + k], M[c * n + piv]); std::swap(r[k], r[piv]); }
    for (uint64_t i = k + 1; i < n; i++) { double f = M[k * n + i] / M[k * n + k]; for (uint64_t c = k; c < n; c++) M[c * n + i] -= f * M[c * n + k]; r[i] -= f * r[k]; } }
  for (int64_t i = n - 1; i >= 0; i--) { double s = r[i]; for (uint64_t c = i + 1; c < n; c++) { double xc; memcpy(&xc, &x[c], 8); s -= M[c * n + i] * xc; } s /= M[i * n + i]; memcpy(&x[i], &s, 8); }
}
char* ir_nnls_normal_block3(char* A, char* b, uint32_t v, char* c){ return 0; }
}
int main(int argc, char** argv){
  unsigned seed = argc > 1 ? atoi(argv[1]) : 1; std::mt19937_64 rng(seed); long ncmp = 0, nbad = 0;
  for (int rep = 0; rep < 12; rep++) {
    unsigned nd = 1 + rep % 2; std::vector<uint32_t> ord(nd), po(nd); std::vector<std::vector<double>> kn(nd), co(nd); std::vector<double> sm(nd);
    for (unsigned d = 0; d < nd; d++) { ord[d] = rng() % 3; po[d] = rng() % (ord[d] + 1); sm[d] = (rng() % 3) ? 0.5 + (rng() % 100) / 10.0 : 0.0; unsigned nk = 2 * ord[d] + 2 + rng() % 3; double v = 0; for (unsigned i = 0; i < nk; i++) { kn[d].push_back(v); v += 0.5 + (rng() % 100) / 100.0; }
      unsigned np = nk + 3; for (unsigned i = 0; i < np; i++) co[d].push_back(kn[d][ord[d]] + (kn[d][nk - ord[d] - 1] - kn[d][ord[d]]) * (i + 0.37) / np); }
    // dense data grid
    size_t rows = 1; for (unsigned d = 0; d < nd; d++) rows *= co[d].size();
    photospline::ndsparse data(rows, nd); std::vector<double> w(rows);
    std::vector<unsigned> idx(nd, 0);
    for (size_t r = 0; r < rows; r++) { double y = 1; for (unsigned d = 0; d < nd; d++) y += std::sin(co[d][idx[d]] * (d + 1)); data.insertEntry(y, idx.data()); w[r] = 0.5 + (rng() % 100) / 50.0;
      int d = nd - 1; while (d >= 0 && ++idx[d] == co[d].size()) { idx[d] = 0; d--; } }
    ST ta, tb;
    ta.fit(data, w, co, ord, kn, sm, po, ST::no_monodim, false);
    std::vector<const double*> cp(nd), kp(nd); std::vector<size_t> cn(nd), knn(nd); for (unsigned d = 0; d < nd; d++) { cp[d] = co[d].data(); cn[d] = co[d].size(); kp[d] = kn[d].data(); knn[d] = kn[d].size(); }
    ir_w_fit((char*)&tb, (char*)static_cast< ::ndsparse*>(&data), (char*)w.data(), w.size(), (char*)cp.data(), (char*)cn.data(), nd, (char*)ord.data(), nd, (char*)kp.data(), (char*)knn.data(), nd, (char*)sm.data(), nd, (char*)po.data(), nd, ST::no_monodim);
    if (exc_pending) { printf("MISMATCH: generated fit threw\n"); nbad++; exc_pending = 0; continue; }
    uint64_t nc = ta.get_ncoeffs(); ncmp++; if (tb.ndim != ta.ndim || tb.get_ncoeffs() != nc) { nbad++; printf("MISMATCH shape\n"); continue; }
    double scale = 0; for (uint64_t i = 0; i < nc; i++) scale = std::max(scale, (double)std::fabs(ta.coefficients[i]));
    for (uint64_t i = 0; i < nc; i++) { ncmp++; if (!(std::fabs(ta.coefficients[i] - tb.coefficients[i]) <= 2e-4 * scale + 1e-6)) { if (nbad++ < 8) printf("MISMATCH rep %d coef %llu real=%g ir=%g\n", rep, (unsigned long long)i, ta.coefficients[i], tb.coefficients[i]); } }
  }
  printf("VALIDATION compared=%ld mismatches=%ld\n", ncmp, nbad); return nbad ? 1 : 0;
}
