// E2 harness for C14: runs the IR-derived splinetable::convolve natively in the exact-real domain (symbolic coefficients,
// concrete rational table and kernel knots) and emits obligations: metadata, and for every coefficient slice and every
// open interval of the new knot vector  sum_r c'_r B'_r(X) == h(X)  with h from the exact piecewise-polynomial oracle.
// case file: table/dim lines, then blocks  "conv <id> dim D kernel y.."  "poly r i a0 a1 .."...  "end"
#include <cstdio>
#include <cstdlib>
#include <cstring>
#include <csetjmp>
#include <string>
#include <vector>
#include <map>
#include <sstream>
#include <fstream>
#include <algorithm>
#define VR_SYM
extern "C" {
#include "ps_table.h"
#include "models.h"
extern jmp_buf vs_jmp; extern int vs_failed; extern char vs_errmsg[512];
void ir_w_convolve(char* t, uint32_t dim, char* knots, uint64_t n);
void ir_w_destroy(char* t);
extern int exc_pending;
}
struct Dim { unsigned order; std::vector<std::string> knots; };
static std::vector<Dim> dims; static unsigned ND;
static void eqi(const std::string& l, long a, long b){ vs_prove_eq(vs_q(a, 1), vs_q(b, 1), l.c_str()); }
static vr64 cdb(const std::vector<vr64>& t, int j, int n, int m, vr64 X){
  if (n == 0) return vs_q(j == m ? 1 : 0, 1);
  if (m < j || m > j + n) return vs_q(0, 1);
  vr64 r = vs_q(0, 1);
  if (t[j + n] != t[j]) r = vs_add(r, vs_mul(vs_div(vs_sub(X, t[j]), vs_sub(t[j + n], t[j])), cdb(t, j, n - 1, m, X)));
  if (t[j + n + 1] != t[j + 1]) r = vs_add(r, vs_mul(vs_div(vs_sub(t[j + n + 1], X), vs_sub(t[j + n + 1], t[j + 1])), cdb(t, j + 1, n - 1, m, X)));
  return r;
}
template<class T> static T* blk(size_t n){ T* p = (T*)vm_new(n * sizeof(T)); return p; }
int main(int argc, char** argv){
  if (argc < 3) return 2;
  std::ifstream in(argv[1]); vs_open(argv[2]); std::string line; int ncase = 0, nerr = 0;
  std::vector<std::string> lines; while (std::getline(in, line)) lines.push_back(line);
  for (size_t li = 0; li < lines.size(); li++) {
    std::istringstream ls(lines[li]); std::string w; if (!(ls >> w)) continue;
    if (w == "table") { ls >> w >> ND; dims.assign(ND, Dim()); continue; }
    if (w == "dim") { unsigned d; std::string a; ls >> d >> a >> dims[d].order >> a; std::string k; dims[d].knots.clear(); while (ls >> k) dims[d].knots.push_back(k); continue; }
    if (w != "conv") continue;
    std::string id, tok; unsigned cdim = 0; std::vector<std::string> kern; ls >> id; while (ls >> tok) { if (tok == "dim") ls >> cdim; else if (tok == "kernel") { std::string k; while (ls >> k) kern.push_back(k); } }
    std::map<std::pair<int,int>, std::vector<std::string>> poly;   // (region, i) -> coefficients
    for (li++; li < lines.size() && lines[li] != "end"; li++) { std::istringstream ps(lines[li]); std::string p; int r, i; ps >> p >> r >> i; std::string c; while (ps >> c) poly[{r, i}].push_back(c); }
    ncase++; vs_reset(0); vs_note("case", id.c_str()); exc_pending = 0;
    if (setjmp(vs_jmp)) { nerr++; continue; }
    // table with every block obtained from the ledger allocator, exactly as the library allocates them
    ps_table t; memset(&t, 0, sizeof t); t.ndim = ND;
    t.order = blk<uint32_t>(ND); t.nknots = blk<uint64_t>(ND); t.naxes = blk<uint64_t>(ND); t.strides = blk<uint64_t>(ND); t.knots = blk<vr64*>(ND); t.extents = blk<vr64*>(ND); t.extents[0] = blk<vr64>(2 * ND);
    std::vector<std::vector<vr64>> okn(ND); uint64_t nc = 1;
    for (int d = ND - 1; d >= 0; d--) { unsigned o = dims[d].order, nk = dims[d].knots.size(); t.order[d] = o; t.nknots[d] = nk; t.naxes[d] = nk - o - 1; t.strides[d] = nc; nc *= t.naxes[d];
      vr64* b = blk<vr64>(nk + 2 * o); for (unsigned i = 0; i < o; i++) { char nm[40]; snprintf(nm, 40, "padlo_%d_%u", d, i); b[i] = vs_var_wild(nm); snprintf(nm, 40, "padhi_%d_%u", d, i); b[o + nk + i] = vs_var_wild(nm); }
      for (unsigned i = 0; i < nk; i++) { b[o + i] = vs_qstr(dims[d].knots[i].c_str()); okn[d].push_back(b[o + i]); }
      t.knots[d] = b + o; t.extents[d] = t.extents[0] + 2 * d; t.extents[d][0] = okn[d][o]; t.extents[d][1] = okn[d][nk - o - 1]; }
    t.coefficients = blk<vr32>(nc); std::vector<vr64> oc(nc);
    for (uint64_t i = 0; i < nc; i++) { char nm[32]; snprintf(nm, 32, "c%llu", (unsigned long long)i); oc[i] = vs_var(nm); t.coefficients[i] = (vr32)oc[i]; }
    std::vector<uint64_t> onax(t.naxes, t.naxes + ND), ostr(t.strides, t.strides + ND); std::vector<unsigned> oord(t.order, t.order + ND);
    std::vector<vr64> kk; for (auto& k : kern) kk.push_back(vs_qstr(k.c_str()));
    int live0 = vm_live_blocks();
    ir_w_convolve((char*)&t, cdim, (char*)kk.data(), kk.size());
    if (exc_pending) vs_error("convolve threw");
    unsigned n = kern.size();
    // metadata
    eqi(id + " order rises by n-1", t.order[cdim], oord[cdim] + n - 1);
    eqi(id + " nknots == old*n", t.nknots[cdim], okn[cdim].size() * n);
    eqi(id + " naxes == nknots-order-1", t.naxes[cdim], t.nknots[cdim] - t.order[cdim] - 1);
    eqi(id + " ledger: no double/foreign free", vm_errors, 0);
    eqi(id + " ledger: same number of live blocks (old storage released, temporaries released)", vm_live_blocks(), live0);
    { uint64_t s = 1; for (int d = ND - 1; d >= 0; d--) { eqi(id + " row-major strides", t.strides[d], s); s *= t.naxes[d]; } }
    for (unsigned d = 0; d < ND; d++) { if (d == cdim) continue;
      eqi(id + " other dimension order unchanged", t.order[d], oord[d]); eqi(id + " other dimension nknots unchanged", t.nknots[d], okn[d].size()); eqi(id + " other dimension naxes unchanged", t.naxes[d], onax[d]);
      for (unsigned i = 0; i < okn[d].size(); i++) vs_prove_eq(t.knots[d][i], okn[d][i], (id + " other dimension knots unchanged").c_str());
      eqi(id + " knot block sized nknots+2*order", vm_block_size(t.knots[d] - t.order[d]), (t.nknots[d] + 2 * t.order[d]) * 8); }
    eqi(id + " knot block sized nknots+2*order", vm_block_size(t.knots[cdim] - t.order[cdim]), (t.nknots[cdim] + 2 * t.order[cdim]) * 8);
    { uint64_t tot = 1; for (unsigned d = 0; d < ND; d++) tot *= t.naxes[d]; eqi(id + " coefficient block sized prod(naxes)", vm_block_size(t.coefficients), tot * 4); }
    // new knots == sorted pairwise sums (harness computes the sums itself)
    std::vector<vr64> sums; for (auto a : okn[cdim]) for (auto b : kk) sums.push_back(vs_add(a, b));
    std::sort(sums.begin(), sums.end(), [](vr64 a, vr64 b){ return vs_cmp_const(a, b) < 0; });
    std::vector<vr64> nkn(t.knots[cdim], t.knots[cdim] + t.nknots[cdim]);
    for (size_t i = 0; i < sums.size() && i < nkn.size(); i++) vs_prove_eq(nkn[i], sums[i], (id + " new knots are the sorted pairwise sums").c_str());
    // values: per coefficient slice and per open interval of the new knots
    unsigned no = t.order[cdim]; uint64_t nna = t.naxes[cdim];
    uint64_t nslices = 1; for (unsigned d = 0; d < ND; d++) if (d != cdim) nslices *= onax[d];
    for (uint64_t s = 0; s < nslices; s++) {
      // decompose slice number into the other indices
      std::vector<uint64_t> idx(ND, 0); uint64_t rem = s; for (int d = ND - 1; d >= 0; d--) { if ((unsigned)d == cdim) continue; idx[d] = rem % onax[d]; rem /= onax[d]; }
      auto oldc = [&](uint64_t i){ uint64_t p = 0; for (unsigned d = 0; d < ND; d++) p += (d == cdim ? i : idx[d]) * ostr[d]; return oc[p]; };
      auto newc = [&](uint64_t r){ uint64_t p = 0; for (unsigned d = 0; d < ND; d++) p += (d == cdim ? r : idx[d]) * t.strides[d]; return (vr64)t.coefficients[p]; };
      for (size_t r = 0; r + 1 < nkn.size(); r++) {
        if (vs_cmp_const(nkn[r], nkn[r + 1]) >= 0) continue;
        char nm[16]; snprintf(nm, 16, "X"); vr64 X = vs_var_between(nm, nkn[r], nkn[r + 1]);
        vr64 lhs = vs_q(0, 1);
        for (int j = std::max(0, (int)r - (int)no); j <= std::min((int)nna - 1, (int)r); j++) lhs = vs_add(lhs, vs_mul(newc(j), cdb(nkn, j, no, r, X)));
        vr64 rhs = vs_q(0, 1);
        for (uint64_t i = 0; i < onax[cdim]; i++) { auto it = poly.find({(int)r, (int)i}); if (it == poly.end()) continue;
          vr64 p = vs_q(0, 1), xp = vs_q(1, 1); for (auto& a : it->second) { p = vs_add(p, vs_mul(vs_qstr(a.c_str()), xp)); xp = vs_mul(xp, X); }
          rhs = vs_add(rhs, vs_mul(oldc(i), p)); }
        vs_prove_eq(lhs, rhs, (id + " slice " + std::to_string(s) + " interval " + std::to_string(r) + ": convolved spline == integral f(x-s)K(s)ds").c_str());
      }
    }
    ir_w_destroy((char*)&t);
    eqi(id + " destructor releases every block of the convolved table", vm_live_blocks(), 0);
    eqi(id + " ledger clean after destruction", vm_errors, 0);
  }
  printf("E2 cases=%d errors=%d\n", ncase, nerr);
  return 0;
}
