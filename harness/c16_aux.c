/* C16: the auxiliary key store behaves as an insertion-ordered string map (E1, inductive step from an arbitrary
 * store of NAUX entries; strings are symbolic byte arrays over an alphabet with the interesting character classes).
 * -DNAUX=<n> -DKL=<key length of the operation> -DVL=<value length> -DPKLS/-DPVLS=<pre-state key/value lengths> and one of OP_WRITE_STR / OP_WRITE_INT / OP_GET / OP_READ_INT */
#include "ps_table.h"
#include "models.h"
#include <assert.h>
uint64_t nondet_u64(void); uint32_t nondet_u32(void); uint8_t nondet_u8(void); _Bool nondet_bool(void);
char* ir_w_get_aux_value(char*, char*); uint32_t ir_w_write_key_str(char*, char*, char*); uint32_t ir_w_write_key_int(char*, char*, uint32_t);
uint32_t ir_w_read_key_int(char*, char*, char*); uint32_t ir_w_reserved(char*);
#ifdef OP_REMOVE
uint32_t ir_w_remove_key(char*, char*);
#endif
uint64_t vm_format_double(vr64 v, char* buf){ (void)v; buf[0] = '1'; return 1; }
int vm_parse_double(const char* t, uint64_t n, vr64* out){ (void)t; (void)n; *out = VR_OPAQUE; return nondet_bool(); }
#ifndef SL
#define SL 3          /* max length of stored keys / values in the pre-state */
#endif
static char alpha(void){ uint8_t k = nondet_u8(); __CPROVER_assume(k < 9); const char A[9] = {'A', 'O', 'Z', '7', 'a', '-', '=', '\'', ' '}; return A[k]; }
static char* sym_string(unsigned n, unsigned* len_out, char first){   /* exactly sized, NUL terminated; length concrete, characters symbolic
                                                                          (a non-zero `first` fixes the first character: the grid decides which keys match) */
  char* s = malloc(n + 1); __CPROVER_assume(s != 0);
  for (unsigned i = 0; i < n; i++) s[i] = (i == 0 && first) ? first : alpha();
  s[n] = 0; if (len_out) *len_out = n; vr_register_string(s, n); return s;
}
static const unsigned PKL[3] = {PKLS}, PVL[3] = {PVLS};            /* lengths of the pre-state keys / values */
/* comparisons use the concrete lengths: a loop that may run past a terminator would read out of bounds symbolically */
static int streqn(const char* a, unsigned la, const char* b, unsigned lb){ if (la != lb) return 0; for (unsigned i = 0; i < la; i++) if (a[i] != b[i]) return 0; return a[la] == 0 && b[lb] == 0; }
/* strncmp(prefix, key, n) == 0, written with the concrete key length: a key shorter than the prefix differs at its terminator */
static int prefix(const char* p, unsigned n, const char* k, unsigned kl){ if (kl < n) return 0; for (unsigned i = 0; i < n; i++) { if (k[i] != p[i]) return 0; } return 1; }
static int reserved(const char* k, unsigned kl){ return prefix("BITPIX", 6, k, kl) || prefix("SIMPLE", 6, k, kl) || prefix("TYPE", 4, k, kl) || prefix("ORDER", 5, k, kl) || prefix("NAXIS", 5, k, kl) || prefix("PERIOD", 6, k, kl) || prefix("EXTEND", 6, k, kl) || prefix("COMMENT", 7, k, kl); }
char g_key[KL + 1], g_val[VL + 1];

void harness(void){
  struct ps_table t; memset(&t, 0, sizeof t); t.ndim = 1;
  char* okey[NAUX + 1]; char* oval[NAUX + 1]; char** oent[NAUX + 1];
  t.naux = NAUX;
  if (NAUX) { t.aux = malloc(NAUX * sizeof(char**)); __CPROVER_assume(t.aux != 0); vm_adopt(t.aux, NAUX * sizeof(char**)); }
  for (unsigned i = 0; i < NAUX; i++) {
    unsigned kl, vl; okey[i] = sym_string(PKL[i], &kl, (char)('K' + i)); oval[i] = sym_string(PVL[i], &vl, 0); vm_adopt(okey[i], kl + 1); vm_adopt(oval[i], vl + 1);
    oent[i] = malloc(2 * sizeof(char*)); __CPROVER_assume(oent[i] != 0); vm_adopt(oent[i], 2 * sizeof(char*)); oent[i][0] = okey[i]; oent[i][1] = oval[i]; t.aux[i] = oent[i];
  }
  int live0 = vm_live_blocks();
  /* the operation's key */
  /* the operation's key.  MATCH=i: the very key of entry i (the lookup is decided by symex); otherwise a fresh key whose
   * first character FIRST differs from every stored key's first character, the remaining characters symbolic; RESERVED=k
   * prepends the k-th reserved prefix */
#if defined(MATCH)
  char* const opkey = okey[MATCH]; const unsigned kl = PKL[MATCH];
#else
  char* const opkey = g_key; const unsigned kl = KL;
  { unsigned i = 0;
#ifdef RESERVED
    static const char* const RP[8] = {"BITPIX", "SIMPLE", "TYPE", "ORDER", "NAXIS", "PERIOD", "EXTEND", "COMMENT"};
    for (; RP[RESERVED][i] && i < KL; i++) g_key[i] = RP[RESERVED][i];
#else
    if (KL > 0) g_key[i++] = FIRST;
#endif
    for (; i < KL; i++) g_key[i] = alpha(); g_key[kl] = 0; vr_register_string(g_key, kl); }
#endif
#if defined(MATCH)
  const int present = MATCH;
#else
  const int present = -1;
#endif
#if defined(OP_GET)
  char* v = ir_w_get_aux_value((char*)&t, opkey);
  assert(!exc_pending);
  assert(present < 0 ? v == 0 : v == oval[present]);           /* value of the first matching key, absence reported as NULL */
  assert(vm_live_blocks() == live0 && t.naux == NAUX);
#elif defined(OP_WRITE_STR) || defined(OP_WRITE_INT)
#ifdef OP_WRITE_STR
  const unsigned vl = VL;
  for (unsigned i = 0; i < VL; i++) g_val[i] = alpha(); g_val[vl] = 0; vr_register_string(g_val, vl);
  uint32_t r = ir_w_write_key_str((char*)&t, opkey, g_val);
#else
  /* the written integer: any value with DIGITS decimal digits, either sign (the grid enumerates DIGITS 1..10) */
  extern int vm_int_digits; vm_int_digits = DIGITS;
  int32_t iv = (int32_t)nondet_u32();
  { uint32_t mag = iv < 0 ? 0u - (uint32_t)iv : (uint32_t)iv; uint32_t lo = 1; for (int i = 1; i < DIGITS; i++) lo *= 10;
    __CPROVER_assume(DIGITS == 1 ? mag <= 9 : (mag >= lo && (DIGITS == 10 || mag < lo * 10))); }
#ifdef NEGATIVE
  __CPROVER_assume(iv < 0);
#else
  __CPROVER_assume(iv >= 0);
#endif
  uint32_t r = ir_w_write_key_int((char*)&t, opkey, (uint32_t)iv);
  unsigned vl = 0;
#endif
#ifndef NOPOST
  /* classes that must be rejected */
  int has_lower = 0, has_eq = 0, badshort = 0;
  for (unsigned i = 0; i < kl; i++) { char c = opkey[i]; if (c >= 'a' && c <= 'z') has_lower = 1; if (c == '=') has_eq = 1; if (!((c >= 'A' && c <= 'Z') || (c >= '0' && c <= '9'))) badshort = 1; }
  unsigned maxdata = kl <= 8 ? 68 : 80 - (13 + kl);
  int must_reject = reserved(opkey, kl) || (kl <= 8 ? (has_lower || has_eq) : (has_lower || has_eq));
#ifdef OP_WRITE_STR
  if (vl > maxdata) must_reject = 1;
#endif
  int must_accept = !reserved(opkey, kl) && kl >= 1 && kl <= 8 && !badshort && vl <= maxdata;
  if (must_reject) assert(exc_pending);
  if (must_accept) assert(!exc_pending);
  if (exc_pending) {                                           /* rejected: every byte of the store unchanged */
    assert(t.naux == NAUX && vm_live_blocks() == live0);
    for (unsigned i = 0; i < NAUX; i++) { assert(t.aux[i] == oent[i] && oent[i][0] == okey[i] && oent[i][1] == oval[i] && vm_is_live(okey[i]) && vm_is_live(oval[i])); }
  } else if (present >= 0) {                                   /* overwrite in place: same position, other entries untouched */
    assert(r == 0 && t.naux == NAUX);
    for (unsigned i = 0; i < NAUX; i++) { assert(t.aux[i] == oent[i] && oent[i][0] == okey[i]); if ((int)i != present) assert(oent[i][1] == oval[i] && vm_is_live(oval[i])); }
    char* nv = oent[present][1];
    assert(nv != oval[present] && vm_is_live(nv) && !vm_is_live(oval[present]));
#ifdef OP_WRITE_STR
    assert(vm_block_size(nv) == vl + 1); assert(streqn(nv, vl, g_val, vl));
#endif
    assert(vm_live_blocks() == live0);
  } else {                                                     /* append at the end, insertion order kept */
    assert(r != 0 && t.naux == NAUX + 1);
    for (unsigned i = 0; i < NAUX; i++) { assert(t.aux[i] == oent[i] && oent[i][0] == okey[i] && oent[i][1] == oval[i]); }
    char** ne = t.aux[NAUX];
    assert(vm_block_size(ne[0]) == kl + 1); assert(streqn(ne[0], kl, opkey, kl));
#ifdef OP_WRITE_STR
    assert(vm_block_size(ne[1]) == vl + 1); assert(streqn(ne[1], vl, g_val, vl));
#endif
    assert(vm_block_size(t.aux) == (NAUX + 1) * sizeof(char**));
    assert(vm_live_blocks() == live0 + 3 + (NAUX ? 0 : 1));
  }
#endif /* NOPOST */
#ifdef OP_WRITE_INT
  if (!exc_pending) {       /* the stored value block has exactly the size of the decimal representation (digits, sign, terminator);
                               its characters are produced by the stream model and copied by the same code path as string values
                               (checked character by character in the OP_WRITE_STR instances); reading the characters back here
                               exceeded the solver's memory, so the digit string itself is covered by OP_WRITE_STR + OP_READ_INT */
    const char* stored = present >= 0 ? oent[present][1] : t.aux[NAUX][1];
#ifdef NEGATIVE
    assert(vm_block_size((void*)stored) == DIGITS + 2);
#else
    assert(vm_block_size((void*)stored) == DIGITS + 1);
#endif
  }
#endif
#if defined(OP_WRITE_INT) && defined(READBACK)
  if (!exc_pending) {                                          /* typed read returns the value denoted by the stored string: exactly the integer written */
    { char* stored = present >= 0 ? oent[present][1] : t.aux[NAUX][1];           /* its length is known: DIGITS (+ sign) */
#ifdef NEGATIVE
      vr_register_string(stored, DIGITS + 1);
#else
      vr_register_string(stored, DIGITS);
#endif
    }
    /* the lookup is made with the stored key itself, so that symex decides it (a character-wise equal copy would not be) */
    int32_t back = 12345; uint32_t ok = ir_w_read_key_int((char*)&t, present >= 0 ? oent[present][0] : t.aux[NAUX][0], (char*)&back);
    assert(!exc_pending && ok && back == iv);
  }
#endif
  exc_pending = 0;
#elif defined(OP_REMOVE)
  uint32_t r = ir_w_remove_key((char*)&t, opkey);
  assert(!exc_pending);
  if (present < 0) {                                           /* absent: reported, store unchanged */
    assert(!r && t.naux == NAUX && vm_live_blocks() == live0);
    for (unsigned i = 0; i < NAUX; i++) assert(t.aux[i] == oent[i] && oent[i][0] == okey[i] && oent[i][1] == oval[i]);
  } else {                                                     /* exactly that entry goes, the others keep their order, its storage is released */
    assert(r && t.naux == NAUX - 1);
    for (int i = 0; i < (int)NAUX; i++) { if (i < present) assert(t.aux[i] == oent[i]); if (i > present) assert(t.aux[i - 1] == oent[i]);
      if (i != present) assert(oent[i][0] == okey[i] && oent[i][1] == oval[i] && vm_is_live(okey[i]) && vm_is_live(oval[i]) && vm_is_live(oent[i])); }
    assert(!vm_is_live(okey[present]) && !vm_is_live(oval[present]) && !vm_is_live(oent[present]));
    assert(vm_block_size(t.aux) == (NAUX - 1) * sizeof(char**));
    assert(vm_live_blocks() == live0 - 3);                     /* key, value, entry released; array replaced; temporary released */
  }
#elif defined(OP_READ_INT)
  int32_t out = 777; uint32_t ok = ir_w_read_key_int((char*)&t, opkey, (char*)&out);
  assert(!exc_pending && vm_live_blocks() == live0);
  if (present < 0) assert(!ok);
  else { /* a stored string of decimal digits (optionally signed) denotes that integer */
    const char* s = oval[present]; unsigned n = PVL[present]; int alldig = n > 0; int32_t val = 0;
    for (unsigned i = 0; i < n; i++) { if (s[i] < '0' || s[i] > '9') alldig = 0; else val = val * 10 + (s[i] - '0'); }
    if (alldig) assert(ok && out == val);
    if (n == 0) assert(!ok);
  }
#endif
#ifdef WITNESS
  assert(0);
#endif
}
