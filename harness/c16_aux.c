/* C16: the auxiliary key store behaves as an insertion-ordered string map (E1, inductive step from an arbitrary
 * store of NAUX entries; strings are symbolic byte arrays over an alphabet with the interesting character classes).
 * -DNAUX=<n> -DKL=<key length of the operation> -DVL=<value length> -DPKLS/-DPVLS=<pre-state key/value lengths> and one of OP_WRITE_STR / OP_WRITE_INT / OP_GET / OP_READ_INT */
#include "ps_table.h"
#include "models.h"
#include <assert.h>
uint64_t nondet_u64(void); uint32_t nondet_u32(void); uint8_t nondet_u8(void); _Bool nondet_bool(void);
char* ir_w_get_aux_value(char*, char*); uint32_t ir_w_write_key_str(char*, char*, char*); uint32_t ir_w_write_key_int(char*, char*, uint32_t);
uint32_t ir_w_read_key_int(char*, char*, char*); uint32_t ir_w_reserved(char*);
#ifdef OP_REMOVE
uint32_t ir_w_remove_key(char*, char*);
#endif
uint64_t vm_format_double(vr64 v, char* buf){ (void)v; buf[0] = '1'; return 1; }
int vm_parse_double(const char* t, uint64_t n, vr64* out){ (void)t; (void)n; *out = VR_OPAQUE; return nondet_bool(); }
#ifndef SL
#define SL 3          /* max length of stored keys / values in the pre-state */
#endif
static char alpha(void){ uint8_t k = nondet_u8(); __CPROVER_assume(k < 9); const char A[9] = {'A', 'O', 'Z', '7', 'a', '-', '=', '\'', ' '}; return A[k]; }
static char* sym_string(unsigned n, unsigned* len_out){          /* exactly sized, NUL terminated; length concrete, characters symbolic */
  char* s = malloc(n + 1); __CPROVER_assume(s != 0);
  for (unsigned i = 0; i < n; i++) s[i] = alpha();
  s[n] = 0; if (len_out) *len_out = n; vr_register_string(s, n); return s;
}
static const unsigned PKL[3] = {PKLS}, PVL[3] = {PVLS};            /* lengths of the pre-state keys / values */
/* comparisons use the concrete lengths: a loop that may run past a terminator would read out of bounds symbolically */
static int streqn(const char* a, unsigned la, const char* b, unsigned lb){ if (la != lb) return 0; for (unsigned i = 0; i < la; i++) if (a[i] != b[i]) return 0; return a[la] == 0 && b[lb] == 0; }
static int prefix(const char* p, unsigned n, const char* k){ for (unsigned i = 0; i < n; i++) { if (k[i] != p[i]) return 0; } return 1; }   /* p has no NUL before n, so a shorter k differs at its terminator */
static int reserved(const char* k){ return prefix("BITPIX", 6, k) || prefix("SIMPLE", 6, k) || prefix("TYPE", 4, k) || prefix("ORDER", 5, k) || prefix("NAXIS", 5, k) || prefix("PERIOD", 6, k) || prefix("EXTEND", 6, k) || prefix("COMMENT", 7, k); }
char g_key[KL + 1], g_val[VL + 1];

void harness(void){
  struct ps_table t; memset(&t, 0, sizeof t); t.ndim = 1;
  char* okey[NAUX + 1]; char* oval[NAUX + 1]; char** oent[NAUX + 1];
  t.naux = NAUX;
  if (NAUX) { t.aux = malloc(NAUX * sizeof(char**)); __CPROVER_assume(t.aux != 0); vm_adopt(t.aux, NAUX * sizeof(char**)); }
  for (unsigned i = 0; i < NAUX; i++) {
    unsigned kl, vl; okey[i] = sym_string(PKL[i], &kl); oval[i] = sym_string(PVL[i], &vl); vm_adopt(okey[i], kl + 1); vm_adopt(oval[i], vl + 1);
    oent[i] = malloc(2 * sizeof(char*)); __CPROVER_assume(oent[i] != 0); vm_adopt(oent[i], 2 * sizeof(char*)); oent[i][0] = okey[i]; oent[i][1] = oval[i]; t.aux[i] = oent[i];
  }
  int live0 = vm_live_blocks();
  /* the operation's key */
  const unsigned kl = KL;                                    /* lengths are concrete per instance (the grid enumerates them), characters symbolic */
#ifdef HIT
  /* the operation's key is (character for character) the key of entry 0: the lookup is decided by symex */
  for (unsigned i = 0; i < KL; i++) g_key[i] = okey[0][i]; g_key[kl] = 0; vr_register_string(g_key, kl);
#else
  for (unsigned i = 0; i < KL; i++) g_key[i] = alpha(); g_key[kl] = 0; vr_register_string(g_key, kl);
#endif
  int present = -1; for (int i = NAUX - 1; i >= 0; i--) if (streqn(okey[i], PKL[i], g_key, kl)) present = i;      /* first match */
#if defined(OP_GET)
  char* v = ir_w_get_aux_value((char*)&t, g_key);
  assert(!exc_pending);
  assert(present < 0 ? v == 0 : v == oval[present]);           /* value of the first matching key, absence reported as NULL */
  assert(vm_live_blocks() == live0 && t.naux == NAUX);
#elif defined(OP_WRITE_STR) || defined(OP_WRITE_INT)
#ifdef OP_WRITE_STR
  const unsigned vl = VL;
  for (unsigned i = 0; i < VL; i++) g_val[i] = alpha(); g_val[vl] = 0; vr_register_string(g_val, vl);
  uint32_t r = ir_w_write_key_str((char*)&t, g_key, g_val);
#else
  /* the written integer: any value with DIGITS decimal digits, either sign (the grid enumerates DIGITS 1..10) */
  extern int vm_int_digits; vm_int_digits = DIGITS;
  int32_t iv = (int32_t)nondet_u32();
  { uint32_t mag = iv < 0 ? 0u - (uint32_t)iv : (uint32_t)iv; uint32_t lo = 1; for (int i = 1; i < DIGITS; i++) lo *= 10;
    __CPROVER_assume(DIGITS == 1 ? mag <= 9 : (mag >= lo && (DIGITS == 10 || mag < lo * 10))); }
#ifdef NEGATIVE
  __CPROVER_assume(iv < 0);
#else
  __CPROVER_assume(iv >= 0);
#endif
  uint32_t r = ir_w_write_key_int((char*)&t, g_key, (uint32_t)iv);
  unsigned vl = 0;
#endif
#ifndef NOPOST
  /* classes that must be rejected */
  int has_lower = 0, has_eq = 0, badshort = 0;
  for (unsigned i = 0; i < kl; i++) { char c = g_key[i]; if (c >= 'a' && c <= 'z') has_lower = 1; if (c == '=') has_eq = 1; if (!((c >= 'A' && c <= 'Z') || (c >= '0' && c <= '9'))) badshort = 1; }
  unsigned maxdata = kl <= 8 ? 68 : 80 - (13 + kl);
  int must_reject = reserved(g_key) || (kl <= 8 ? (has_lower || has_eq) : (has_lower || has_eq));
#ifdef OP_WRITE_STR
  if (vl > maxdata) must_reject = 1;
#endif
  int must_accept = !reserved(g_key) && kl >= 1 && kl <= 8 && !badshort && vl <= maxdata;
  if (must_reject) assert(exc_pending);
  if (must_accept) assert(!exc_pending);
  if (exc_pending) {                                           /* rejected: every byte of the store unchanged */
    assert(t.naux == NAUX && vm_live_blocks() == live0);
    for (unsigned i = 0; i < NAUX; i++) { assert(t.aux[i] == oent[i] && oent[i][0] == okey[i] && oent[i][1] == oval[i] && vm_is_live(okey[i]) && vm_is_live(oval[i])); }
  } else if (present >= 0) {                                   /* overwrite in place: same position, other entries untouched */
    assert(r == 0 && t.naux == NAUX);
    for (unsigned i = 0; i < NAUX; i++) { assert(t.aux[i] == oent[i] && oent[i][0] == okey[i]); if ((int)i != present) assert(oent[i][1] == oval[i] && vm_is_live(oval[i])); }
    char* nv = oent[present][1];
    assert(nv != oval[present] && vm_is_live(nv) && !vm_is_live(oval[present]));
#ifdef OP_WRITE_STR
    assert(vm_block_size(nv) == vl + 1); assert(streqn(nv, vl, g_val, vl));
#endif
    assert(vm_live_blocks() == live0);
  } else {                                                     /* append at the end, insertion order kept */
    assert(r != 0 && t.naux == NAUX + 1);
    for (unsigned i = 0; i < NAUX; i++) { assert(t.aux[i] == oent[i] && oent[i][0] == okey[i] && oent[i][1] == oval[i]); }
    char** ne = t.aux[NAUX];
    assert(vm_block_size(ne[0]) == kl + 1); assert(streqn(ne[0], kl, g_key, kl));
#ifdef OP_WRITE_STR
    assert(vm_block_size(ne[1]) == vl + 1); assert(streqn(ne[1], vl, g_val, vl));
#endif
    assert(vm_block_size(t.aux) == (NAUX + 1) * sizeof(char**));
    assert(vm_live_blocks() == live0 + 3 + (NAUX ? 0 : 1));
  }
#endif /* NOPOST */
#ifdef OP_WRITE_INT
  if (!exc_pending) {                                          /* typed read returns the value denoted by the stored string: exactly the integer written */
    { char* stored = present >= 0 ? oent[present][1] : t.aux[NAUX][1];           /* its length is known: DIGITS (+ sign) */
#ifdef NEGATIVE
      vr_register_string(stored, DIGITS + 1);
#else
      vr_register_string(stored, DIGITS);
#endif
    }
    int32_t back = 12345; uint32_t ok = ir_w_read_key_int((char*)&t, g_key, (char*)&back);
    assert(!exc_pending && ok && back == iv);
  }
#endif
  exc_pending = 0;
#elif defined(OP_READ_INT)
  int32_t out = 777; uint32_t ok = ir_w_read_key_int((char*)&t, g_key, (char*)&out);
  assert(!exc_pending && vm_live_blocks() == live0);
  if (present < 0) assert(!ok);
  else { /* a stored string of decimal digits (optionally signed) denotes that integer */
    const char* s = oval[present]; unsigned n = PVL[present]; int alldig = n > 0; int32_t val = 0;
    for (unsigned i = 0; i < n; i++) { if (s[i] < '0' || s[i] > '9') alldig = 0; else val = val * 10 + (s[i] - '0'); }
    if (alldig) assert(ok && out == val);
    if (n == 0) assert(!ok);
  }
#endif
#ifdef WITNESS
  assert(0);
#endif
}
