// E2 harness for C15: runs the IR-derived permuteDimensions natively with every float payload (coefficients,
// extents, periods) a distinct uninterpreted variable and every integer attribute a distinct concrete value, and
// emits one obligation per relocated item.  Copying code is data-independent, so distinct payloads are complete.
// case file: "table nd N" / "dim d order O nknots K" / "perm <id> [periods] a b c ..." (any length / entries)
#include <cstdio>
#include <cstdlib>
#include <cstring>
#include <csetjmp>
#include <string>
#include <vector>
#include <sstream>
#include <fstream>
#define VR_SYM
extern "C" {
#include "ps_table.h"
#include "models.h"
extern jmp_buf vs_jmp; extern int vs_failed; extern char vs_errmsg[512];
void ir_w_permute(char* t, char* p, uint64_t n);
extern int exc_pending;
}
static unsigned ND; static std::vector<unsigned> ORD; static std::vector<uint64_t> NK;
struct Snap { std::vector<uint32_t> order; std::vector<uint64_t> nknots, naxes, strides; std::vector<vr64*> knots; std::vector<vr64> ext, periods; std::vector<vr32> coef; };
static void eqi(const std::string& l, long a, long b){ vs_prove_eq(vs_q(a, 1), vs_q(b, 1), l.c_str()); }
static void eqh(const std::string& l, vr64 a, vr64 b){ vs_prove_eq(a, b, l.c_str()); }
static Snap snap(ps_table& t, uint64_t nc){ Snap s; for (unsigned d = 0; d < ND; d++) { s.order.push_back(t.order[d]); s.nknots.push_back(t.nknots[d]); s.naxes.push_back(t.naxes[d]); s.strides.push_back(t.strides[d]); s.knots.push_back(t.knots[d]); s.ext.push_back(t.extents[d][0]); s.ext.push_back(t.extents[d][1]); s.periods.push_back(t.periods ? t.periods[d] : 0); } s.coef.assign(t.coefficients, t.coefficients + nc); return s; }
#include <csignal>
static sigjmp_buf crash_env; static volatile int crash_armed;
static void on_crash(int sig){ if (crash_armed) { crash_armed = 0; siglongjmp(crash_env, sig); } signal(sig, SIG_DFL); raise(sig); }
template<class F> static int guarded(F f){ int s = sigsetjmp(crash_env, 1); if (s) return s; crash_armed = 1; f(); crash_armed = 0; return 0; }
int main(int argc, char** argv){
  signal(SIGSEGV, on_crash); signal(SIGBUS, on_crash); signal(SIGABRT, on_crash);
  if (argc < 3) return 2;
  std::ifstream in(argv[1]); vs_open(argv[2]); std::string line; int ncase = 0, nerr = 0;
  while (std::getline(in, line)) {
    std::istringstream ls(line); std::string w; if (!(ls >> w)) continue;
    if (w == "table") { ls >> w >> ND; ORD.assign(ND, 0); NK.assign(ND, 0); continue; }
    if (w == "dim") { unsigned d; std::string a; ls >> d >> a >> ORD[d] >> a >> NK[d]; continue; }
    if (w != "perm") continue;
    std::string id; ls >> id; bool hasp = false; std::vector<uint64_t> p; std::string tok;
    while (ls >> tok) { if (tok == "periods") hasp = true; else p.push_back(strtoull(tok.c_str(), 0, 10)); }
    ncase++; vs_reset(1); vs_note("case", id.c_str()); exc_pending = 0;
    if (setjmp(vs_jmp)) { nerr++; continue; }
    ps_table t; memset(&t, 0, sizeof t); t.ndim = ND;
    t.order = new uint32_t[ND]; t.nknots = new uint64_t[ND]; t.naxes = new uint64_t[ND]; t.strides = new uint64_t[ND]; t.knots = new vr64*[ND]; t.extents = new vr64*[ND]; t.extents[0] = new vr64[2 * ND];
    t.periods = hasp ? new vr64[ND] : 0;
    uint64_t nc = 1;
    for (int d = ND - 1; d >= 0; d--) { t.order[d] = ORD[d]; t.nknots[d] = NK[d]; t.naxes[d] = NK[d] - ORD[d] - 1; t.strides[d] = nc; nc *= t.naxes[d];
      t.knots[d] = new vr64[1]; t.extents[d] = t.extents[0] + 2 * d; char nm[32];
      snprintf(nm, 32, "elo%d", d); t.extents[d][0] = vs_var(nm); snprintf(nm, 32, "ehi%d", d); t.extents[d][1] = vs_var(nm);
      if (hasp) { snprintf(nm, 32, "per%d", d); t.periods[d] = vs_var(nm); } }
    t.coefficients = new vr32[nc];
    for (uint64_t i = 0; i < nc; i++) { char nm[32]; snprintf(nm, 32, "c%llu", (unsigned long long)i); t.coefficients[i] = (vr32)vs_var(nm); }
    Snap o = snap(t, nc);
    bool isperm = p.size() == ND; if (isperm) { std::vector<bool> seen(ND, false); for (auto v : p) { if (v >= ND || seen[v]) { isperm = false; break; } seen[v] = true; } }
    int before = vm_live_blocks();
    std::vector<uint64_t> arg(p); arg.push_back(0);
    { int sg = guarded([&]{ ir_w_permute((char*)&t, (char*)arg.data(), p.size()); }); eqi(id + " permuteDimensions does not crash (out-of-bounds write into its scratch storage)", sg, 0); if (sg) { exc_pending = 0; continue; } }
    bool threw = exc_pending; exc_pending = 0;
    eqi(id + " rejected exactly when the argument is not a permutation", threw, !isperm);
    eqi(id + " all temporaries released", vm_live_blocks(), before);
    eqi(id + " ledger reports no double/foreign free", vm_errors, 0);
    Snap n = snap(t, nc);
    auto same_as = [&](const Snap& a, const Snap& b, const std::string& what){
      for (unsigned d = 0; d < ND; d++) { eqi(id + " " + what + " order", a.order[d], b.order[d]); eqi(id + " " + what + " nknots", a.nknots[d], b.nknots[d]); eqi(id + " " + what + " naxes", a.naxes[d], b.naxes[d]);
        eqi(id + " " + what + " strides", a.strides[d], b.strides[d]); eqi(id + " " + what + " knots pointer", a.knots[d] == b.knots[d], 1);
        eqh(id + " " + what + " extent lo", a.ext[2 * d], b.ext[2 * d]); eqh(id + " " + what + " extent hi", a.ext[2 * d + 1], b.ext[2 * d + 1]); if (hasp) eqh(id + " " + what + " period", a.periods[d], b.periods[d]); }
      for (uint64_t i = 0; i < nc; i++) eqh(id + " " + what + " coefficient", a.coef[i], b.coef[i]); };
    if (threw || !isperm) { same_as(n, o, "unchanged after rejection"); continue; }
    // accepted: attributes in the new order, row-major strides, coefficients relocated (every multi-index)
    uint64_t s = 1; for (int d = ND - 1; d >= 0; d--) { eqi(id + " row-major stride", n.strides[d], s); s *= n.naxes[d]; }
    for (unsigned d = 0; d < ND; d++) { uint64_t j = p[d];
      eqi(id + " order[d]==old order[perm[d]]", n.order[d], o.order[j]); eqi(id + " nknots", n.nknots[d], o.nknots[j]); eqi(id + " naxes", n.naxes[d], o.naxes[j]);
      eqi(id + " knots pointer", n.knots[d] == o.knots[j], 1); eqh(id + " extent lo", n.ext[2 * d], o.ext[2 * j]); eqh(id + " extent hi", n.ext[2 * d + 1], o.ext[2 * j + 1]);
      if (hasp) eqh(id + " period[d]==old period[perm[d]]", n.periods[d], o.periods[j]); }
    std::vector<uint64_t> idx(ND, 0);
    while (true) { uint64_t op = 0, np = 0; for (unsigned d = 0; d < ND; d++) op += idx[d] * o.strides[d]; for (unsigned d = 0; d < ND; d++) np += idx[p[d]] * n.strides[d];
      if (np >= nc) eqi(id + " relocated index in range", 0, 1); else eqh(id + " coefficient relocated", n.coef[np], o.coef[op]);
      int d = ND - 1; while (d >= 0 && ++idx[d] == o.naxes[d]) { idx[d] = 0; d--; } if (d < 0) break; }
    // inverse permutation restores the original table
    std::vector<uint64_t> q(ND + 1, 0); for (unsigned d = 0; d < ND; d++) q[p[d]] = d;
    ir_w_permute((char*)&t, (char*)q.data(), ND);
    eqi(id + " inverse accepted", exc_pending, 0); exc_pending = 0;
    same_as(snap(t, nc), o, "restored by the inverse");
  }
  printf("E2 cases=%d errors=%d\n", ncase, nerr);
  return 0;
}
