/* shared by the CBMC scheduler harness (c12_sched.c) and the native validation / replay of the sequentialisation */
#include "c12_gen.c.coro.h"
#include "pthread_seq.h"
#include <cholmod.h>
static struct ir_walk_descents_ctx C0;
static struct ir_evaluate_descent_ctx W[PS_MAXT - 1];
struct vr_coro* ps_spawn(int id, char* fn, char* arg){ (void)fn; ir_evaluate_descent__init(&W[id - 1], arg); return &W[id - 1].h; }
/* constant thread index in every branch keeps ps_cur and the context address concrete for symex; a worker that has not
 * run yet starts, any other thread resumes at its recorded blocking call (never from the top again) */
#define C12_WORKER(k) do { ps_resume(k); if (W[k - 1].h.pc == 0) ir_evaluate_descent__start(&W[k - 1]); else ir_evaluate_descent__resume(&W[k - 1]); ps_after(k); } while (0)
static inline void c12_first(void){ ps_resume(0); ir_walk_descents__start(&C0); ps_after(0); }
static inline void c12_step(int t){
  switch (t) {
    case 0: ps_resume(0); ir_walk_descents__resume(&C0); ps_after(0); break;
    case 1: C12_WORKER(1); break;
#if PS_MAXT > 2
    case 2: C12_WORKER(2); break;
#endif
#if PS_MAXT > 3
    case 3: C12_WORKER(3); break;
#endif
    default: break;
  }
}
