// cfitsio-model + translator validation (R-ieee): (1) real write_fits_mem bytes are parsed by an independent FITS parser and
// compared card by card / pixel by pixel with the container the generated writer produces on the model; (2) the generated
// reader on the model (fed both with that container and with containers imported from real bytes, incl. the shipped files)
// must produce exactly the table the real reader produces.
#include "mktable.hpp"
#include <cstdio>
#include <cstring>
#include <cmath>
#include <fstream>
extern "C" {
#include "cfitsio_model.h"
void ir_w_write_fits(char* t, char* path); uint32_t ir_w_read_fits(char* t, char* path); extern int exc_pending;
uint64_t vm_format_double(uint64_t v, char* buf){ double d; memcpy(&d, &v, 8); return (uint64_t)snprintf(buf, 32, "%g", d); }
int vm_parse_double(const char* text, uint64_t n, uint64_t* out){ std::string s(text, n); std::istringstream ss(s); double d; ss >> d; if (ss.fail()) return 0; memcpy(out, &d, 8); return 1; }
}
struct Card { std::string key, val; char kind; double d; };
struct Hdu { int bitpix, naxis; std::vector<long> naxes; std::vector<double> data; std::vector<uint64_t> bits; std::vector<Card> cards; };
static std::vector<Hdu> parse_fits(const unsigned char* b, size_t n){
  std::vector<Hdu> out; size_t pos = 0;
  while (pos + 2880 <= n) { Hdu h; h.bitpix = 0; h.naxis = 0; bool end = false;
    while (!end && pos + 80 <= n) { for (int c = 0; c < 36 && !end; c++, pos += 80) { std::string card((const char*)b + pos, 80); std::string key = card.substr(0, 8); while (!key.empty() && key.back() == ' ') key.pop_back();
        if (key == "END") { end = true; continue; } if (key.empty()) continue;
        Card cd; cd.kind = 'I'; cd.d = 0; std::string rest;
        if (key == "HIERARCH") { size_t eq = card.find('='); key = card.substr(9, eq - 9); while (!key.empty() && key.back() == ' ') key.pop_back(); rest = card.substr(eq + 1); }
        else if (card[8] == '=') rest = card.substr(10); else { cd.kind = 'C'; cd.key = key; h.cards.push_back(cd); continue; }
        size_t i = 0; while (i < rest.size() && rest[i] == ' ') i++;
        if (i < rest.size() && rest[i] == '\'') { size_t j = i + 1; while (j < rest.size()) { if (rest[j] == '\'') { if (j + 1 < rest.size() && rest[j + 1] == '\'') j += 2; else break; } else j++; } cd.val = rest.substr(i, j - i + 1); cd.kind = 'S'; }
        else { size_t j = rest.find('/', i); std::string v = rest.substr(i, j == std::string::npos ? std::string::npos : j - i); while (!v.empty() && v.back() == ' ') v.pop_back(); cd.val = v; if (v.find('.') != std::string::npos || v.find('E') != std::string::npos) { cd.kind = 'D'; cd.d = atof(v.c_str()); } }
        cd.key = key; h.cards.push_back(cd);
        if (key == "BITPIX") h.bitpix = atoi(cd.val.c_str()); if (key == "NAXIS") h.naxis = atoi(cd.val.c_str()); if (key.rfind("NAXIS", 0) == 0 && key.size() > 5) h.naxes.push_back(atol(cd.val.c_str())); }
      if (end && pos % 2880) pos += 2880 - pos % 2880; }
    size_t cnt = h.naxis ? 1 : 0; for (long a : h.naxes) cnt *= a; size_t bytes = cnt * (std::abs(h.bitpix) / 8);
    for (size_t i = 0; i < cnt; i++) { const unsigned char* p = b + pos + i * (std::abs(h.bitpix) / 8); if (h.bitpix == -32) { uint32_t u = (p[0] << 24) | (p[1] << 16) | (p[2] << 8) | p[3]; float f; memcpy(&f, &u, 4); h.data.push_back(f); h.bits.push_back(u); } else if (h.bitpix == -64) { uint64_t u = 0; for (int k = 0; k < 8; k++) u = (u << 8) | p[k]; double d; memcpy(&d, &u, 8); h.data.push_back(d); h.bits.push_back(u); } }
    pos += (bytes + 2879) / 2880 * 2880; out.push_back(h); }
  return out;
}
static long ncmp = 0, nbad = 0;
static void chk(bool ok, const char* what, const std::string& ctx){ ncmp++; if (!ok && nbad++ < 12) printf("MISMATCH %s: %s\n", ctx.c_str(), what); }
static std::string rstrip_after_quote(std::string v){ return v; }
static void compare_container(const std::vector<Hdu>& real, const cf_file* f, const std::string& ctx){
  chk((int)real.size() == f->nhdu, "number of HDUs", ctx);
  for (size_t h = 0; h < real.size() && (int)h < f->nhdu; h++) { const Hdu& r = real[h]; const cf_hdu& m = f->hdu[h];
    chk(r.bitpix == m.bitpix && r.naxis == m.naxis, "bitpix/naxis", ctx); for (int i = 0; i < r.naxis && i < m.naxis; i++) chk(r.naxes[i] == m.naxes[i], "naxes", ctx);
    chk(r.bits.size() == m.ndata, "pixel count", ctx); for (size_t i = 0; i < r.bits.size() && i < m.ndata; i++) chk(r.bits[i] == m.data[i], "pixel bits", ctx);
    std::vector<Card> rc; for (auto& c : r.cards) if (c.kind != 'C') rc.push_back(c); std::vector<const cf_card*> mc; for (int i = 0; i < m.ncards; i++) if (m.cards[i].kind != 'C') mc.push_back(&m.cards[i]);
    chk(rc.size() == mc.size(), "number of value cards", ctx + " hdu " + std::to_string(h));
    for (size_t i = 0; i < rc.size() && i < mc.size(); i++) { chk(rc[i].key == mc[i]->key, ("card key " + rc[i].key + " vs " + mc[i]->key).c_str(), ctx);
      if (mc[i]->kind == 'D') { double d; memcpy(&d, &mc[i]->dval, 8); chk(std::fabs(rc[i].d - d) <= 1e-12 * std::fabs(d) + 1e-300 || atof(rc[i].val.c_str()) == d, "double card value", ctx); }
      else chk(rc[i].val == mc[i]->val, ("card value [" + rc[i].val + "] vs [" + mc[i]->val + "] for " + rc[i].key).c_str(), ctx); } }
}
static void import_container(const std::vector<Hdu>& real, const char* name){
  cf_file* f = cf_import_begin(name, 0);
  for (auto& r : real) { cf_hdu* h = cf_import_hdu(f, r.bitpix, r.naxis, r.naxes.data()); for (size_t i = 0; i < r.bits.size(); i++) h->data[i] = r.bits[i];
    for (auto& c : r.cards) { uint64_t dv = 0; memcpy(&dv, &c.d, 8); cf_import_card(h, c.key.c_str(), c.val.c_str(), c.kind, dv); } }
}
static void same_table(ST& a, ST& b, const std::string& ctx){
  chk(a.ndim == b.ndim, "ndim", ctx); if (a.ndim != b.ndim) return;
  for (unsigned d = 0; d < a.ndim; d++) { chk(a.order[d] == b.order[d] && a.nknots[d] == b.nknots[d] && a.naxes[d] == b.naxes[d] && a.strides[d] == b.strides[d], "order/nknots/naxes/strides", ctx);
    if (a.nknots[d] == b.nknots[d]) chk(!memcmp(a.knots[d], b.knots[d], 8 * a.nknots[d]), "knots", ctx); chk(!memcmp(a.extents[d], b.extents[d], 16), "extents", ctx);
    chk((a.periods != 0) == (b.periods != 0) && (!a.periods || !memcmp(&a.periods[d], &b.periods[d], 8)), "periods", ctx); }
  if (a.get_ncoeffs() == b.get_ncoeffs()) chk(!memcmp(a.coefficients, b.coefficients, 4 * a.get_ncoeffs()), "coefficients", ctx);
  chk(a.naux == b.naux, "naux", ctx); for (unsigned i = 0; i < a.naux && i < b.naux; i++) { chk(!strcmp(a.aux[i][0], b.aux[i][0]), "aux key", ctx); chk(!strcmp(a.aux[i][1], b.aux[i][1]), ("aux value [" + std::string(a.aux[i][1]) + "] vs [" + b.aux[i][1] + "]").c_str(), ctx); }
}
int main(int argc, char** argv){
  unsigned seed = argc > 1 ? atoi(argv[1]) : 1; std::mt19937_64 rng(seed);
  const char* keys[] = {"A", "KEY1", "LONGKEY8", "HIERLONGKEY", "Z9", "UNITS"}; const char* vals[] = {"", "v", "hello world", "it's", "12", "a value that is rather long but still fits in a card 0123456789", "  lead"};
  for (int rep = 0; rep < 24; rep++) {
    unsigned nd = 1 + rep % 3; std::vector<unsigned> ord(nd); std::vector<std::vector<double>> kn(nd); uint64_t nc = 1;
    for (unsigned d = 0; d < nd; d++) { ord[d] = rng() % 3; unsigned nk = 2 * ord[d] + 2 + rng() % 3 + d; double v = -1.5 * d; for (unsigned i = 0; i < nk; i++) { kn[d].push_back(v); v += 0.25 + (rng() % 64) / 64.0; } nc *= nk - ord[d] - 1; }
    std::vector<float> cf(nc); for (auto& c : cf) c = ((int)(rng() % 4001) - 2000) / 128.f; if (nc > 2) { cf[0] = -0.f; cf[1] = INFINITY; cf[2] = NAN; }
    ST t; mk_table(t, ord, kn, cf); for (unsigned d = 0; d < nd; d++) { t.extents[d][0] -= 0.125 * d; t.extents[d][1] += 0.5; }
    if (rep % 2) { t.periods = t.allocate<double>(nd); for (unsigned d = 0; d < nd; d++) t.periods[d] = d ? 360.0 : 0.0; }
    int nkeys = rep % 4; for (int k = 0; k < nkeys; k++) { try { if (k == 2) t.write_key(keys[rng() % 6], (int)(rng() % 1000) - 500); else t.write_key(keys[rng() % 6], vals[rng() % 7]); } catch (std::exception&) {} }
    std::string ctx = "rep " + std::to_string(rep);
    auto mem = t.write_fits_mem(); std::vector<Hdu> real = parse_fits((const unsigned char*)mem.first, mem.second);
    std::string name = "w" + std::to_string(rep);
    ir_w_write_fits((char*)&t, (char*)name.c_str()); chk(!exc_pending, "generated writer threw", ctx); exc_pending = 0;
    cf_file* f = 0; for (int i = 0; i < CF_MAXFILES; i++) if (cf_files[i].used && name == cf_files[i].name) f = &cf_files[i];
    if (!f) { chk(false, "container not found", ctx); continue; }
    compare_container(real, f, ctx);
    ST treal; treal.read_fits_mem(mem.first, mem.second);
    { ST tb; uint32_t r = ir_w_read_fits((char*)&tb, (char*)name.c_str()); chk(!exc_pending && r, "generated reader failed on the generated container", ctx); exc_pending = 0; same_table(treal, tb, ctx + " (model container)"); }
    { std::string n2 = "i" + std::to_string(rep); import_container(real, n2.c_str()); ST tb; uint32_t r = ir_w_read_fits((char*)&tb, (char*)n2.c_str()); chk(!exc_pending && r, "generated reader failed on the imported real file", ctx); exc_pending = 0; same_table(treal, tb, ctx + " (imported real bytes)"); }
    free(mem.first); for (int i = 0; i < CF_MAXFILES; i++) if (cf_files[i].used) { for (int h = 0; h < cf_files[i].nhdu; h++) free(cf_files[i].hdu[h].data); memset(&cf_files[i], 0, sizeof cf_files[i]); }
  }
  for (int i = 2; i < argc; i++) { std::ifstream in(argv[i], std::ios::binary); std::vector<unsigned char> bytes((std::istreambuf_iterator<char>(in)), std::istreambuf_iterator<char>());
    std::vector<Hdu> real = parse_fits(bytes.data(), bytes.size()); import_container(real, "shipped"); ST treal(argv[i]); ST tb; uint32_t r = ir_w_read_fits((char*)&tb, (char*)"shipped"); chk(!exc_pending && r, "generated reader failed on a shipped file", argv[i]); exc_pending = 0; same_table(treal, tb, argv[i]);
    for (int k = 0; k < CF_MAXFILES; k++) if (cf_files[k].used) { for (int h = 0; h < cf_files[k].nhdu; h++) free(cf_files[k].hdu[h].data); memset(&cf_files[k], 0, sizeof cf_files[k]); } }
  printf("VALIDATION compared=%ld mismatches=%ld\n", ncmp, nbad); return nbad ? 1 : 0;
}
