// Replay for C15 on the real library: builds a table with distinct payloads, applies permuteDimensions with the given
// argument and checks relocation of every attribute and coefficient, rejection and inverse.  exit 3 = REPRODUCED.
#include "mktable.hpp"
#include <cstdio>
#include <fstream>
int main(int argc, char** argv){
  std::ifstream in(argv[1]); std::string line, w; unsigned nd = 0; std::vector<unsigned> ord; std::vector<uint64_t> nk; std::vector<size_t> p; bool hasp = false;
  while (std::getline(in, line)) { std::istringstream ls(line); if (!(ls >> w)) continue;
    if (w == "table") { ls >> w >> nd; ord.resize(nd); nk.resize(nd); }
    else if (w == "dim") { unsigned d; std::string a; ls >> d >> a >> ord[d] >> a >> nk[d]; }
    else if (w == "perm") { std::string id, tok; ls >> id; while (ls >> tok) { if (tok == "periods") hasp = true; else p.push_back(strtoull(tok.c_str(), 0, 10)); } } }
  std::vector<std::vector<double>> kn(nd); uint64_t nc = 1;
  for (unsigned d = 0; d < nd; d++) { for (uint64_t i = 0; i < nk[d]; i++) kn[d].push_back(100.0 * d + i); nc *= nk[d] - ord[d] - 1; }
  std::vector<float> cf(nc); for (uint64_t i = 0; i < nc; i++) cf[i] = 1000.f + i;
  ST t; mk_table(t, ord, kn, cf);
  for (unsigned d = 0; d < nd; d++) { t.extents[d][0] = -7.0 - d; t.extents[d][1] = 900.0 + d; }
  if (hasp) { t.periods = t.allocate<double>(nd); for (unsigned d = 0; d < nd; d++) t.periods[d] = 360.0 + d; }
  std::vector<unsigned> o_ord(t.order, t.order + nd); std::vector<uint64_t> o_nk(t.nknots, t.nknots + nd), o_na(t.naxes, t.naxes + nd), o_st(t.strides, t.strides + nd);
  std::vector<double*> o_kn(t.knots, t.knots + nd); std::vector<double> o_e, o_p; for (unsigned d = 0; d < nd; d++) { o_e.push_back(t.extents[d][0]); o_e.push_back(t.extents[d][1]); o_p.push_back(hasp ? t.periods[d] : 0); }
  bool isperm = p.size() == nd; if (isperm) { std::vector<bool> s(nd, false); for (auto v : p) { if (v >= nd || s[v]) { isperm = false; break; } s[v] = true; } }
  bool threw = false; int bad = 0;
  try { t.permuteDimensions(p); } catch (std::exception& e) { threw = true; }
  if (threw == isperm) { printf("accepted/rejected wrongly: threw=%d isperm=%d\n", threw, isperm); bad = 1; }
  if (threw) { for (unsigned d = 0; d < nd; d++) if (t.order[d] != o_ord[d] || t.nknots[d] != o_nk[d] || t.naxes[d] != o_na[d] || t.knots[d] != o_kn[d] || t.extents[d][0] != o_e[2 * d]) { printf("table changed by a rejected call\n"); bad = 1; }
    for (uint64_t i = 0; i < nc; i++) if (t.coefficients[i] != cf[i]) { printf("coefficients changed by a rejected call\n"); bad = 1; break; } }
  else if (isperm) {
    for (unsigned d = 0; d < nd; d++) { size_t j = p[d];
      if (t.order[d] != o_ord[j] || t.nknots[d] != o_nk[j] || t.naxes[d] != o_na[j] || t.knots[d] != o_kn[j]) { printf("axis %u: order/nknots/naxes/knots not those of old axis %zu\n", d, j); bad = 1; }
      if (t.extents[d][0] != o_e[2 * j] || t.extents[d][1] != o_e[2 * j + 1]) { printf("axis %u: extents not those of old axis %zu\n", d, j); bad = 1; }
      if (hasp && t.periods[d] != o_p[j]) { printf("axis %u: period %g is not that of old axis %zu (%g)\n", d, t.periods[d], j, o_p[j]); bad = 1; } }
    std::vector<uint64_t> idx(nd, 0);
    while (true) { uint64_t op = 0, np = 0; for (unsigned d = 0; d < nd; d++) op += idx[d] * o_st[d]; for (unsigned d = 0; d < nd; d++) np += idx[p[d]] * t.strides[d];
      if (np >= nc || t.coefficients[np] != cf[op]) { printf("coefficient of old index %llu not found at new index %llu\n", (unsigned long long)op, (unsigned long long)np); bad = 1; break; }
      int d = nd - 1; while (d >= 0 && ++idx[d] == o_na[d]) { idx[d] = 0; d--; } if (d < 0) break; }
    std::vector<size_t> q(nd); for (unsigned d = 0; d < nd; d++) q[p[d]] = d;
    t.permuteDimensions(q);
    for (unsigned d = 0; d < nd; d++) if (t.order[d] != o_ord[d] || t.extents[d][0] != o_e[2 * d] || (hasp && t.periods[d] != o_p[d])) { printf("inverse permutation does not restore axis %u\n", d); bad = 1; }
  }
  printf(bad ? "REPRODUCED\n" : "HELD\n"); return bad ? 3 : 0;
}
