// Translator validation (DESIGN 2.5): generated C + R-ieee vs. the g++ build of the same wrappers,
// bit-identical results on the shipped tables and on synthetic tables with seeded random points.
#include "mktable.hpp"
#include <cstdio>
#include <cstring>
#include <cmath>
extern "C" {
// real
int w_searchcenters(const ST*, const double*, int*);
double w_eval_f(const ST*, const double*, const int*, int); double w_eval_d(const ST*, const double*, const int*, int);
double w_call(const ST*, const double*); double w_deriv(const ST*, const double*, const int*, const unsigned*);
void w_grad_f(const ST*, const double*, const int*, double*); void w_grad_d(const ST*, const double*, const int*, double*);
double w_ev_eval_f(const ST*, const double*, const int*, int); double w_ev_eval_d(const ST*, const double*, const int*, int);
double w_ev_call_f(const ST*, const double*, int); double w_ev_call_d(const ST*, const double*, int);
double w_ev_deriv_f(const ST*, const double*, const int*, const unsigned*); double w_ev_deriv_d(const ST*, const double*, const int*, const unsigned*);
void w_ev_grad_f(const ST*, const double*, const int*, double*); void w_ev_grad_d(const ST*, const double*, const int*, double*);
// translated (handles are bit patterns under R-ieee)
uint32_t ir_w_searchcenters(char*, char*, char*);
uint64_t ir_w_eval_f(char*, char*, char*, uint32_t); uint64_t ir_w_eval_d(char*, char*, char*, uint32_t);
uint64_t ir_w_call(char*, char*); uint64_t ir_w_deriv(char*, char*, char*, char*);
void ir_w_grad_f(char*, char*, char*, char*); void ir_w_grad_d(char*, char*, char*, char*);
uint64_t ir_w_ev_eval_f(char*, char*, char*, uint32_t); uint64_t ir_w_ev_eval_d(char*, char*, char*, uint32_t);
uint64_t ir_w_ev_call_f(char*, char*, uint32_t); uint64_t ir_w_ev_call_d(char*, char*, uint32_t);
uint64_t ir_w_ev_deriv_f(char*, char*, char*, char*); uint64_t ir_w_ev_deriv_d(char*, char*, char*, char*);
void ir_w_ev_grad_f(char*, char*, char*, char*); void ir_w_ev_grad_d(char*, char*, char*, char*);
extern int exc_pending;
}
static long ncmp = 0, nbad = 0;
static uint64_t bits(double d){ uint64_t b; memcpy(&b, &d, 8); return b; }
static void cmp(const char* what, double real, uint64_t ir){
  ncmp++;
  if (bits(real) != ir && !(real != real && ir == ir)) { // NaN payloads may differ only if both NaN
    double d; memcpy(&d, &ir, 8);
    if (real != real && d != d) return;
    if (nbad++ < 10) printf("MISMATCH %s real=%a ir=%a\n", what, real, d);
  }
}
static void exercise(ST& t, std::mt19937_64& rng, int npts){
  unsigned nd = t.ndim;
  std::vector<double> x(nd); std::vector<int> c(nd), c2(nd); std::vector<unsigned> dv(nd);
  std::vector<double> g(nd + 1), g2(nd + 1);
  for (int it = 0; it < npts; it++) {
    for (unsigned d = 0; d < nd; d++) {
      double lo = t.knots[d][0], hi = t.knots[d][t.nknots[d] - 1];
      int mode = rng() % 8;
      if (mode == 0) x[d] = t.knots[d][rng() % t.nknots[d]];                    // exactly a knot
      else if (mode == 1) x[d] = std::nextafter(t.knots[d][rng() % t.nknots[d]], (rng() & 1) ? 1e308 : -1e308);
      else if (mode == 2) x[d] = lo + (hi - lo) * 1.2 * ((rng() % 10001) / 10000.0) - 0.1 * (hi - lo); // may be outside
      else x[d] = lo + (hi - lo) * ((rng() % 1000003) / 1000003.0);
    }
    int ok = w_searchcenters(&t, x.data(), c.data());
    uint32_t ok2 = ir_w_searchcenters((char*)&t, (char*)x.data(), (char*)c2.data());
    ncmp++; if ((uint32_t)ok != ok2) { nbad++; printf("MISMATCH searchcenters ok\n"); continue; }
    cmp("call", w_call(&t, x.data()), ir_w_call((char*)&t, (char*)x.data()));
    cmp("ev_call_f", w_ev_call_f(&t, x.data(), 0), ir_w_ev_call_f((char*)&t, (char*)x.data(), 0));
    if (!ok) continue;
    for (unsigned d = 0; d < nd; d++) { ncmp++; if (c[d] != c2[d]) { nbad++; printf("MISMATCH center\n"); } }
    int mask = rng() % (1u << nd);
    for (int m : {0, mask}) {
      cmp("eval_f", w_eval_f(&t, x.data(), c.data(), m), ir_w_eval_f((char*)&t, (char*)x.data(), (char*)c.data(), m));
      cmp("eval_d", w_eval_d(&t, x.data(), c.data(), m), ir_w_eval_d((char*)&t, (char*)x.data(), (char*)c.data(), m));
      cmp("ev_eval_f", w_ev_eval_f(&t, x.data(), c.data(), m), ir_w_ev_eval_f((char*)&t, (char*)x.data(), (char*)c.data(), m));
      cmp("ev_eval_d", w_ev_eval_d(&t, x.data(), c.data(), m), ir_w_ev_eval_d((char*)&t, (char*)x.data(), (char*)c.data(), m));
      cmp("ev_call_d", w_ev_call_d(&t, x.data(), m), ir_w_ev_call_d((char*)&t, (char*)x.data(), m));
    }
    for (unsigned d = 0; d < nd; d++) { dv[d] = rng() % (t.order[d] + 3); }
    cmp("deriv", w_deriv(&t, x.data(), c.data(), dv.data()), ir_w_deriv((char*)&t, (char*)x.data(), (char*)c.data(), (char*)dv.data()));
    cmp("ev_deriv_f", w_ev_deriv_f(&t, x.data(), c.data(), dv.data()), ir_w_ev_deriv_f((char*)&t, (char*)x.data(), (char*)c.data(), (char*)dv.data()));
    cmp("ev_deriv_d", w_ev_deriv_d(&t, x.data(), c.data(), dv.data()), ir_w_ev_deriv_d((char*)&t, (char*)x.data(), (char*)c.data(), (char*)dv.data()));
    if (nd + 1 <= PHOTOSPLINE_MAXDIM) {
      w_grad_f(&t, x.data(), c.data(), g.data()); ir_w_grad_f((char*)&t, (char*)x.data(), (char*)c.data(), (char*)g2.data());
      for (unsigned i = 0; i <= nd; i++) cmp("grad_f", g[i], bits(g2[i]));
      w_grad_d(&t, x.data(), c.data(), g.data()); ir_w_grad_d((char*)&t, (char*)x.data(), (char*)c.data(), (char*)g2.data());
      for (unsigned i = 0; i <= nd; i++) cmp("grad_d", g[i], bits(g2[i]));
      w_ev_grad_f(&t, x.data(), c.data(), g.data()); ir_w_ev_grad_f((char*)&t, (char*)x.data(), (char*)c.data(), (char*)g2.data());
      for (unsigned i = 0; i <= nd; i++) cmp("ev_grad_f", g[i], bits(g2[i]));
      w_ev_grad_d(&t, x.data(), c.data(), g.data()); ir_w_ev_grad_d((char*)&t, (char*)x.data(), (char*)c.data(), (char*)g2.data());
      for (unsigned i = 0; i <= nd; i++) cmp("ev_grad_d", g[i], bits(g2[i]));
    } else {
      // both must refuse
      bool threw = false; try { w_grad_f(&t, x.data(), c.data(), g.data()); } catch (std::exception&) { threw = true; }
      ir_w_grad_f((char*)&t, (char*)x.data(), (char*)c.data(), (char*)g2.data());
      ncmp++; if (!threw || !exc_pending) { nbad++; printf("MISMATCH refusal real=%d ir=%d\n", threw, exc_pending); }
      exc_pending = 0;
    }
  }
}
int main(int argc, char** argv){
  unsigned seed = argc > 1 ? atoi(argv[1]) : 1;
  std::mt19937_64 rng(seed);
  for (int i = 2; i < argc; i++) { ST t(argv[i]); exercise(t, rng, 200); }
  // synthetic tables: all orders 0..5, 1..3-D incl. minimum knot counts, plus the specialised patterns
  std::vector<std::vector<unsigned>> pats = {{0},{1},{2},{3},{4},{5},{2,2},{3,3},{0,3},{5,1},{2,2,2},{3,3,3},{1,2,3},{2,2,2,2},{3,3,3,3},
    {2,2,2,3,2,2},{2,2,2,5,2,2},{2,2,2,2,2},{1,1,1,1,1,1,1},{2,2,2,2,2,2,2,2},{1,1,1,1,1,1,1,1,1},{3,3,3,3,3,3},{2,1,2,1,2,1,2,1}};
  for (auto& o : pats) for (int extra : {0, 1, 3}) {
    std::vector<std::vector<double>> kn(o.size());
    uint64_t nc = 1;
    for (unsigned d = 0; d < o.size(); d++) {
      unsigned nk = 2 * o[d] + 2 + ((o.size() > 6) ? std::min(extra, 1) : extra);
      double v = -1.5 + 0.25 * d;
      for (unsigned i = 0; i < nk; i++) { kn[d].push_back(v); v += 0.1 + ((rng() % 7 == 0 && o[d] < 2) ? 0.0 : (rng() % 1000) / 500.0); }
      nc *= nk - o[d] - 1;
    }
    std::vector<float> cf(nc); for (auto& c : cf) c = ((int)(rng() % 2001) - 1000) / 100.f;
    ST t; mk_table(t, o, kn, cf, -7.5, 11.25);
    exercise(t, rng, o.size() > 6 ? 12 : 60);
  }
  printf("VALIDATION compared=%ld mismatches=%ld\n", ncmp, nbad);
  return nbad ? 1 : 0;
}
