// Replay of order-key counterexamples (C04/C05) against the real library.
// usage: replay_eval <spec>   spec lines: "mode search|battery", "nd N", "dim d order O nknots K", "knots d k0 k1 ..",
//        "pad d p0 p1 .." (order entries below then order entries above), "x k0 k1 ..", "mask M", "derivs a b .."
// keys are mapped to doubles monotonically (NaN key -> NaN); exit 0 = held, 3 = violation reproduced.
#include "mktable.hpp"
#include <cstdio>
#include <cmath>
#include <fstream>
#include <map>
static const uint64_t KNAN = 0x7ffffff0u;
static double k2d(uint64_t k){ return k == KNAN ? std::nan("") : ((double)k - 9.0) * 0.4375; }
int main(int argc, char** argv){
  if (argc < 2) return 2;
  std::ifstream in(argv[1]); std::string w, mode = "search";
  unsigned nd = 0; std::vector<unsigned> order; std::vector<uint64_t> nk; std::vector<std::vector<uint64_t>> kn, pad; std::vector<uint64_t> xk;
  int mask = 0; std::vector<unsigned> derivs;
  std::string line;
  while (std::getline(in, line)) {
    std::istringstream ls(line); if (!(ls >> w)) continue;
    if (w == "mode") ls >> mode;
    else if (w == "nd") { ls >> nd; order.resize(nd); nk.resize(nd); kn.resize(nd); pad.resize(nd); }
    else if (w == "dim") { unsigned d; std::string a; ls >> d >> a >> order[d] >> a >> nk[d]; }
    else if (w == "knots") { unsigned d; ls >> d; uint64_t k; while (ls >> k) kn[d].push_back(k); }
    else if (w == "pad") { unsigned d; ls >> d; uint64_t k; while (ls >> k) pad[d].push_back(k); }
    else if (w == "x") { uint64_t k; while (ls >> k) xk.push_back(k); }
    else if (w == "mask") ls >> mask;
    else if (w == "derivs") { unsigned k; while (ls >> k) derivs.push_back(k); }
  }
  std::vector<std::vector<double>> knd(nd); uint64_t nc = 1;
  for (unsigned d = 0; d < nd; d++) { for (auto k : kn[d]) knd[d].push_back(k2d(k)); nc *= nk[d] - order[d] - 1; }
  std::vector<float> cf(nc); for (uint64_t i = 0; i < nc; i++) cf[i] = 1.0f + 0.25f * (i % 7);
  ST t; mk_table(t, order, knd, cf);
  for (unsigned d = 0; d < nd; d++) for (unsigned i = 0; i < order[d] && 2 * order[d] <= pad[d].size(); i++) {
    t.knots[d][-(int)order[d] + (int)i] = k2d(pad[d][i]); t.knots[d][nk[d] + i] = k2d(pad[d][order[d] + i]);
  }
  std::vector<double> x(nd); for (unsigned d = 0; d < nd; d++) x[d] = k2d(xk[d]);
  std::vector<int> c(nd, -12345);
  bool ok = t.searchcenters(x.data(), c.data());
  int bad = 0;
  bool inside = true;
  for (unsigned d = 0; d < nd; d++) if (!(t.knots[d][0] < x[d] && x[d] <= t.knots[d][nk[d] - 1])) inside = false;
  if (ok != inside) { printf("searchcenters returned %d but point inside=(%d)\n", ok, inside); bad = 1; }
  if (ok) for (unsigned d = 0; d < nd; d++) {
    const double* k = t.knots[d]; long o = order[d], na = nk[d] - order[d] - 1;
    if (c[d] < o || c[d] > (long)nk[d] - o - 2) { printf("dim %u center %d outside [%ld,%ld]\n", d, c[d], o, (long)nk[d] - o - 2); bad = 1; continue; }
    if (k[o] <= x[d] && x[d] < k[na]) { if (!(k[c[d]] <= x[d] && x[d] < k[c[d] + 1])) { printf("dim %u center %d does not bracket x\n", d, c[d]); bad = 1; } }
    else if (x[d] >= k[na]) { if (c[d] != na - 1) { printf("dim %u upper margin center %d != %ld\n", d, c[d], na - 1); bad = 1; } }
    else if (c[d] != o) { printf("dim %u lower margin center %d != %ld\n", d, c[d], o); bad = 1; }
  }
  double v0 = t(x.data());
  if (!ok && !(v0 == 0.0)) { printf("call operator returned %g although lookup fails\n", v0); bad = 1; }
  if (mode == "battery" && ok && !bad) {
    // every entry point; memory errors are reported by the sanitizers this program is built with
    volatile double sink = 0;
    if (derivs.size() < nd) derivs.resize(nd, 0);
    sink += t.ndsplineeval<float>(x.data(), c.data(), mask); sink += t.ndsplineeval<double>(x.data(), c.data(), mask);
    sink += t.ndsplineeval_deriv(x.data(), c.data(), derivs.data());
    auto ef = t.get_evaluator<float>(); auto ed = t.get_evaluator<double>();
    sink += ef.ndsplineeval(x.data(), c.data(), mask); sink += ed.ndsplineeval(x.data(), c.data(), mask);
    sink += ef(x.data(), mask); sink += ed(x.data(), mask);
    sink += ef.ndsplineeval_deriv(x.data(), c.data(), derivs.data()); sink += ed.ndsplineeval_deriv(x.data(), c.data(), derivs.data());
    std::vector<double> g(nd + 1);
    bool refused = false;
    try { t.ndsplineeval_gradient<float>(x.data(), c.data(), g.data()); t.ndsplineeval_gradient<double>(x.data(), c.data(), g.data());
          ef.ndsplineeval_gradient(x.data(), c.data(), g.data()); ed.ndsplineeval_gradient(x.data(), c.data(), g.data()); }
    catch (std::exception&) { refused = true; }
    if ((nd + 1 > PHOTOSPLINE_MAXDIM) != refused) { printf("gradient refusal mismatch nd=%u refused=%d\n", nd, refused); bad = 1; }
  }
  printf(bad ? "REPRODUCED\n" : "HELD\n");
  return bad ? 3 : 0;
}
