/* C12 (E1): every schedule of walk_descents + evaluate_descent (translated from the IR in coroutine mode) at the
 * granularity of blocking pthread operations.  Instance parameters: NW workers (what OMP_NUM_THREADS says),
 * NF free coefficients (so 2..2+NF trial step lengths), K scheduler steps.  Float data are R-uf handles. */
#include "c12_common.h"
#ifndef NW
#define NW 1
#endif
#ifndef NF
#define NF 1
#endif
#ifndef MASK
#define MASK 1
#endif
#ifndef K
#define K 24
#endif
#define NVAR (NF + 1)
#define NFA (NF > 0 ? NF : 1)        /* array dimension when there is no free coefficient (NF == 0: the bare hand-shake) */
int nondet_int(void);
int sched[K]; int nsteps;

static cholmod_dense xc_desc[PS_MAXT]; static vr64 xc_data[PS_MAXT][NFA];
/* CHOLMOD dense objects: static per thread, registered with the race detector */
char* ir_cholmod_l_allocate_dense(uint64_t nrow, uint64_t ncol, uint64_t d, uint32_t xtype, char* c){ (void)xtype; (void)c;
  /* one descriptor per thread (see the pool allocator in pthread_seq.c) */
  cholmod_dense* D = &xc_desc[ps_cur]; vh_access((char*)D, sizeof *D, 1); D->nrow = nrow; D->ncol = ncol; D->d = d; D->nzmax = d * ncol; D->xtype = CHOLMOD_REAL; D->dtype = CHOLMOD_DOUBLE; D->z = 0;
  if (D->nzmax > NF) { __CPROVER_assert(0, "abstraction insufficient: trial vector longer than NF"); __CPROVER_assume(0); }
  D->x = xc_data[ps_cur]; ps_region((char*)D->x, D->nzmax * 8); return (char*)D; }
uint32_t ir_cholmod_l_free_dense(char* Dp, char* c){ (void)c; cholmod_dense** D = (cholmod_dense**)Dp; if (D && *D) { ps_unregion((char*)(*D)->x); *D = 0; } return 1; }
/* the residual of a trial is an uninterpreted function of the trial point (AtA_F, Atb_F are the same for every trial) */
vr64 ir_calc_residual(char* AtA, char* Atb, char* x_, char* c){ (void)AtA; (void)Atb; (void)c;
  cholmod_dense* x = (cholmod_dense*)x_; vr64 r = UF_MK(UF_SYM, 99);
  vh_access((char*)x, sizeof *x, 0);
  vr64* xx = (vr64*)x->x;
  for (uint64_t i = 0; i < x->nrow && i < NF; i++) { vh_access((char*)&xx[i], 8, 0); r = UF_MK(UF_OPQ, __CPROVER_uninterpreted_uf_rem(r, xx[i])); }
  return r; }
void ir___assert_fail(char* a, char* f, uint32_t l, char* fn){ (void)a; (void)f; (void)l; (void)fn; __CPROVER_assert(0, "C12 assert() inside the line search failed"); __CPROVER_assume(0); }

struct out { uint32_t ret; vr64 x[NVAR]; int64_t H1[NVAR]; int64_t nH1; vr64 residual; int32_t calcs; };
static cholmod_dense X, XF; static vr64 xv[NVAR], xfv[NFA]; static int64_t F[NFA], H1[NVAR], nF, nH1; static vr64 residual; static int32_t calcs;
static char dummyA[8], dummyB[8], dummyC[8];

static void setup(void){
  /* the structure of the line search is an instance parameter: coordinate i contributes a trial step length
   * alpha_i = x/(x - x_F) = (i+1)/(i+2) iff bit i of MASK is set (x_F[i] < 0), so there are 2 + popcount(MASK) trials;
   * the residuals that decide which trial wins stay uninterpreted */
  for (int i = 0; i < NVAR; i++) { xv[i] = uf_int(i + 1); H1[i] = -1; }
  for (int i = 0; i < NF; i++) { xfv[i] = ((MASK >> i) & 1) ? uf_int(-1) : uf_int(1); F[i] = i + 1; }
  X.nrow = NVAR; X.ncol = 1; X.d = NVAR; X.nzmax = NVAR; X.x = xv; XF.nrow = NF; XF.ncol = 1; XF.d = NF; XF.nzmax = NF; XF.x = xfv;
  nF = NF; nH1 = 0; residual = UF_MK(UF_SYM, 98); calcs = 0;
  ps_conf_nthreads = NW;
  ps_reset(&C0.h);
  for (int t = 1; t < PS_MAXT; t++) { ps_region((char*)&xc_desc[t], sizeof xc_desc[t]); ps_region((char*)xc_data[t], sizeof xc_data[t]); }
  ps_region((char*)xv, sizeof xv); ps_region((char*)xfv, sizeof xfv); ps_region((char*)F, sizeof F); ps_region((char*)H1, sizeof H1);
  ir_walk_descents__init(&C0, dummyA, dummyB, (char*)&X, (char*)&XF, (char*)F, (char*)&nF, (char*)H1, (char*)&nH1, (char*)&residual, (char*)&calcs, 0, dummyC);
}
static void collect(struct out* o){
  o->ret = C0.ret; o->nH1 = nH1; o->residual = residual; o->calcs = calcs;
  for (int i = 0; i < NVAR; i++) { o->x[i] = xv[i]; o->H1[i] = H1[i]; }
}

void harness(void){
  struct out A;
  setup();
  /* the coordinator is the only thread until it has created the workers: its first segment is not a scheduling choice
   * (and running it unconditionally keeps every program counter a constant for symex from here on) */
  sched[0] = 0; nsteps = 1; c12_first();
  for (int s = 1; s < K; s++) {
    if (ps_all_done()) break;
    int any = 0;
    for (int t = 0; t < PS_MAXT; t++) any |= ps_enabled(t);
    __CPROVER_assert(any, "C12 deadlock: unfinished threads and none can make progress (lost wake-up)");
    if (!any) __CPROVER_assume(0);
    int c12_pick = nondet_int();       /* the schedule: read back from the trace of a counterexample */
    __CPROVER_assume(c12_pick >= 0 && c12_pick < PS_MAXT && ps_enabled(c12_pick));
    sched[s] = c12_pick; nsteps = s + 1;
    c12_step(c12_pick);
  }
#ifdef WITNESS
  __CPROVER_assert(!ps_all_done(), "witness: a complete run is reachable");
#else
  __CPROVER_assert(ps_all_done(), "scheduler step bound K sufficient");
#endif
#ifdef PS_RACE
  __CPROVER_assert(!ps_race, "C12 data race: conflicting accesses of two threads that are not ordered by happens-before");
#endif
  collect(&A);
#ifdef DETERMINISM
  /* the same call under the canonical schedule (lowest enabled thread first) */
  struct out B;
  setup();
  c12_first();
  for (int s = 1; s < KB; s++) {
    if (ps_all_done()) break;
    int t = -1;
    for (int u = PS_MAXT - 1; u >= 0; u--) if (ps_enabled(u)) t = u;
    if (t < 0) __CPROVER_assume(0);
    c12_step(t);
  }
  __CPROVER_assert(ps_all_done(), "canonical schedule bound KB sufficient");
  collect(&B);
  __CPROVER_assert(A.ret == B.ret, "C12 schedule-dependent result: return value (feasible)");
  __CPROVER_assert(A.nH1 == B.nH1, "C12 schedule-dependent result: number of newly constrained coefficients");
  __CPROVER_assert(A.residual == B.residual, "C12 schedule-dependent result: residual");
  __CPROVER_assert(A.calcs == B.calcs, "C12 schedule-dependent result: residual_calcs");
  for (int i = 0; i < NVAR; i++) { __CPROVER_assert(A.x[i] == B.x[i], "C12 schedule-dependent result: coefficients"); __CPROVER_assert(A.H1[i] == B.H1[i], "C12 schedule-dependent result: constrained set"); }
#endif
}
