// E2 harness for C01/C02/C03: runs the IR-derived evaluation code natively in the exact-real / UF term
// domain and emits SMT obligations "result term == independent Cox-de Boor oracle term".
// input: a case file (see parse below); output: q_*.smt2 + manifest.jsonl in the out directory.
#include <cstdio>
#include <cstdlib>
#include <cstring>
#include <csetjmp>
#include <string>
#include <vector>
#include <sstream>
#include <fstream>
#include <map>
#define VR_SYM
extern "C" {
#include "ps_table.h"
extern jmp_buf vs_jmp; extern int vs_failed; extern char vs_errmsg[512];
uint32_t ir_w_searchcenters(char*, char*, char*); uint32_t ir_w_ev_searchcenters_f(char*, char*, char*);
vr64 ir_w_eval_f(char*, char*, char*, uint32_t); vr64 ir_w_eval_d(char*, char*, char*, uint32_t);
vr64 ir_w_call(char*, char*); vr64 ir_w_deriv(char*, char*, char*, char*);
void ir_w_grad_f(char*, char*, char*, char*); void ir_w_grad_d(char*, char*, char*, char*);
vr64 ir_w_ev_eval_f(char*, char*, char*, uint32_t); vr64 ir_w_ev_eval_d(char*, char*, char*, uint32_t);
vr64 ir_w_ev_call_f(char*, char*, uint32_t); vr64 ir_w_ev_call_d(char*, char*, uint32_t);
vr64 ir_w_ev_deriv_f(char*, char*, char*, char*); vr64 ir_w_ev_deriv_d(char*, char*, char*, char*);
void ir_w_ev_grad_f(char*, char*, char*, char*); void ir_w_ev_grad_d(char*, char*, char*, char*);
#ifdef WITH_CINTER
vr64 ir_c_ndsplineeval(char*, char*, char*, uint32_t); void ir_c_ndsplineeval_gradient(char*, char*, char*, char*);
vr64 ir_c_ndsplineeval_deriv(char*, char*, char*, char*); uint32_t ir_c_tablesearchcenters(char*, char*, char*);
#endif
extern int exc_pending;
}
struct Dim { unsigned order; std::vector<std::string> knots; };
static std::vector<Dim> dims; static bool symknots = false;
static unsigned ND;

struct Built { ps_table t; std::vector<std::vector<vr64>> kn; std::vector<vr64> coef; std::vector<uint64_t> naxes, strides; };
static Built* build(bool ones){
  Built* b = new Built(); ps_table& t = b->t; memset(&t, 0, sizeof t);
  t.ndim = ND; t.order = new uint32_t[ND]; t.nknots = new uint64_t[ND]; t.naxes = new uint64_t[ND]; t.strides = new uint64_t[ND];
  t.knots = new vr64*[ND]; t.extents = new vr64*[ND]; t.extents[0] = new vr64[2 * ND];
  b->kn.resize(ND);
  for (unsigned d = 0; d < ND; d++) {
    unsigned o = dims[d].order, nk = dims[d].knots.size();
    t.order[d] = o; t.nknots[d] = nk; t.naxes[d] = nk - o - 1;
    vr64* blk = new vr64[nk + 2 * o];
    for (unsigned i = 0; i < o; i++) { char nm[48]; snprintf(nm, sizeof nm, "padlo_%u_%u", d, i); blk[i] = vs_var_wild(nm); snprintf(nm, sizeof nm, "padhi_%u_%u", d, i); blk[o + nk + i] = vs_var_wild(nm); }
    std::map<std::string, vr64> seen; int rank = 0; std::string prev;
    for (unsigned i = 0; i < nk; i++) {
      vr64 h;
      if (!symknots) h = vs_qstr(dims[d].knots[i].c_str());
      else { // symbolic knots: equal spec strings denote the same variable (repeated knot)
        if (seen.count(dims[d].knots[i])) h = seen[dims[d].knots[i]];
        else { char nm[48]; snprintf(nm, sizeof nm, "t_%u_%u", d, i); rank += 2; h = vs_var_ranked(nm, rank + 1000 * (int)d); seen[dims[d].knots[i]] = h; }
      }
      blk[o + i] = h; b->kn[d].push_back(h);
    }
    t.knots[d] = blk + o; t.extents[d] = t.extents[0] + 2 * d; t.extents[d][0] = b->kn[d][o]; t.extents[d][1] = b->kn[d][nk - o - 1];
  }
  uint64_t sz = 1; for (int d = ND - 1; d >= 0; d--) { t.strides[d] = sz; sz *= t.naxes[d]; }
  t.coefficients = new vr32[sz]; b->coef.resize(sz);
  for (uint64_t i = 0; i < sz; i++) { char nm[32]; snprintf(nm, sizeof nm, "c%llu", (unsigned long long)i); b->coef[i] = ones ? vs_q(1, 1) : vs_var(nm); t.coefficients[i] = (vr32)b->coef[i]; }
  return b;
}
static bool same(vr64 a, vr64 b){ return a == b; }
// independent Cox-de Boor: value of B_{j,n} on the polynomial piece of interval m (t_m, t_{m+1}), at X
static vr64 cdb(const std::vector<vr64>& t, int j, int n, int m, vr64 X){
  if (n == 0) return vs_q(j == m ? 1 : 0, 1);
  if (m < j || m > j + n) return vs_q(0, 1);
  vr64 r = vs_q(0, 1);
  if (!same(t[j + n], t[j])) r = vs_add(r, vs_mul(vs_div(vs_sub(X, t[j]), vs_sub(t[j + n], t[j])), cdb(t, j, n - 1, m, X)));
  if (!same(t[j + n + 1], t[j + 1])) r = vs_add(r, vs_mul(vs_div(vs_sub(t[j + n + 1], X), vs_sub(t[j + n + 1], t[j + 1])), cdb(t, j + 1, n - 1, m, X)));
  return r;
}
struct Region { bool onknot; int k; };
// piece index for a region: right piece below the upper end of full support, left piece from there upwards
static int piece(const Built* b, unsigned d, const Region& r){
  const std::vector<vr64>& t = b->kn[d]; int nk = t.size(), o = dims[d].order, na = nk - o - 1;
  if (!r.onknot) return r.k;
  bool below = false;   // x == t_k < t_na ?
  { // compare t_k with t_na by index: knots are non-decreasing, so t_k < t_na iff k < na and handles differ somewhere between
    below = false; for (int i = r.k; i < na; i++) if (!same(t[i], t[i + 1])) { below = true; break; } }
  if (below) { int m = r.k; while (m + 1 < nk && same(t[m + 1], t[r.k])) m++; return m; }       // [t_m, t_{m+1}) with t_m == x
  int m = r.k; while (m > 0 && same(t[m - 1], t[r.k])) m--; return m - 1;                        // (t_{m}, t_{m+1}] with t_{m+1} == x
}
static vr64 oracle(const Built* b, const std::vector<int>& pc, const std::vector<vr64>& X){
  // sum over all stored coefficients of c_j prod_d B_{j_d}(X_d); only the (order+1)^ND block around the piece is non-zero
  std::vector<std::vector<std::pair<int, vr64>>> nz(ND);
  for (unsigned d = 0; d < ND; d++) { int o = dims[d].order, na = b->t.naxes[d];
    for (int j = std::max(0, pc[d] - o); j <= std::min(na - 1, pc[d]); j++) nz[d].push_back({j, cdb(b->kn[d], j, o, pc[d], X[d])}); }
  vr64 sum = vs_q(0, 1);
  std::vector<size_t> ix(ND, 0);
  for (unsigned d = 0; d < ND; d++) if (nz[d].empty()) return sum;
  while (true) {
    uint64_t pos = 0; vr64 prod = vs_q(1, 1);
    for (unsigned d = 0; d < ND; d++) { pos += nz[d][ix[d]].first * b->t.strides[d]; prod = vs_mul(prod, nz[d][ix[d]].second); }
    sum = vs_add(sum, vs_mul(b->coef[pos], prod));
    int d = ND - 1; while (d >= 0 && ++ix[d] == nz[d].size()) { ix[d] = 0; d--; }
    if (d < 0) break;
  }
  return sum;
}
static vr64 dn(vr64 t, vr64 var, unsigned n){ for (unsigned i = 0; i < n; i++) t = vs_diff(t, var); return t; }

static std::vector<std::string> split(const std::string& s, char c){ std::vector<std::string> o; std::stringstream ss(s); std::string x; while (std::getline(ss, x, c)) if (!x.empty()) o.push_back(x); return o; }

int main(int argc, char** argv){
  if (argc < 3) { fprintf(stderr, "usage: e2_eval <casefile> <outdir>\n"); return 2; }
  std::ifstream in(argv[1]); vs_open(argv[2]);
  std::string line; int ncase = 0, nerr = 0;
  while (std::getline(in, line)) {
    std::istringstream ls(line); std::string w; if (!(ls >> w)) continue;
    if (w == "table") { ls >> w >> ND; dims.assign(ND, Dim()); std::string s; symknots = false; while (ls >> s) if (s == "symknots") symknots = true; continue; }
    if (w == "dim") { unsigned d; std::string a; ls >> d >> a >> dims[d].order >> a; std::string k; dims[d].knots.clear(); while (ls >> k) dims[d].knots.push_back(k); continue; }
    if (w != "case") continue;
    // case <id> kind <value|deriv|grad|pair> entry <e> [entry2 <e2>] [mask M] [derivs a,b] [ones] [uf] region r0 r1 ...
    std::string id, kind, entry, entry2, tok; unsigned mask = 0; std::vector<unsigned> derivs; bool ones = false, uf = false; std::vector<Region> reg;
    ls >> id;
    while (ls >> tok) {
      if (tok == "kind") ls >> kind; else if (tok == "entry") ls >> entry; else if (tok == "entry2") ls >> entry2;
      else if (tok == "mask") ls >> mask; else if (tok == "ones") ones = true; else if (tok == "uf") uf = true;
      else if (tok == "derivs") { std::string s; ls >> s; for (auto& x : split(s, ',')) derivs.push_back(atoi(x.c_str())); }
      else if (tok == "region") { std::string r; while (ls >> r) reg.push_back(Region{r[0] == 'k', atoi(r.c_str() + 1)}); }
    }
    ncase++;
    vs_reset(uf ? 1 : 0); vs_note("case", id.c_str()); exc_pending = 0;
    if (setjmp(vs_jmp)) { nerr++; continue; }
    Built* b = build(ones);
    std::vector<vr64> x(ND), X(ND); std::vector<int> pc(ND);
    for (unsigned d = 0; d < ND; d++) {
      const std::vector<vr64>& t = b->kn[d]; char nm[16]; snprintf(nm, sizeof nm, "x%u", d);
      if (reg[d].onknot) x[d] = t[reg[d].k]; else x[d] = vs_var_between(nm, t[reg[d].k], t[reg[d].k + 1]);
      pc[d] = piece(b, d, reg[d]);
      // oracle variable: x itself inside an interval; a free variable (substituted afterwards) on a knot
      if (reg[d].onknot) { snprintf(nm, sizeof nm, "X%u", d); X[d] = uf ? x[d] : vs_var(nm); } else X[d] = x[d];
    }
    std::vector<int32_t> c(ND, -777), c2(ND, -777);
    uint32_t ok = ir_w_searchcenters((char*)&b->t, (char*)x.data(), (char*)c.data());
    if (!ok) vs_error("searchcenters failed on a region inside (first knot, last knot]");
    auto at_point = [&](vr64 term){ for (unsigned d = 0; d < ND; d++) if (reg[d].onknot && !uf) term = vs_subst(term, X[d], x[d]); return term; };
    auto scalar = [&](const std::string& e, unsigned m, const std::vector<unsigned>& dv)->vr64{
      char* T_ = (char*)&b->t; char* xp = (char*)x.data(); char* cp = (char*)c.data();
      if (e == "eval_f") return ir_w_eval_f(T_, xp, cp, m); if (e == "eval_d") return ir_w_eval_d(T_, xp, cp, m);
      if (e == "ev_eval_f") return ir_w_ev_eval_f(T_, xp, cp, m); if (e == "ev_eval_d") return ir_w_ev_eval_d(T_, xp, cp, m);
      if (e == "call") return ir_w_call(T_, xp); if (e == "ev_call_f") return ir_w_ev_call_f(T_, xp, m); if (e == "ev_call_d") return ir_w_ev_call_d(T_, xp, m);
      if (e == "deriv") return ir_w_deriv(T_, xp, cp, dv.empty() ? (char*)0 : (char*)dv.data());
      if (e == "ev_deriv_f") return ir_w_ev_deriv_f(T_, xp, cp, dv.empty() ? (char*)0 : (char*)dv.data());
      if (e == "ev_deriv_d") return ir_w_ev_deriv_d(T_, xp, cp, dv.empty() ? (char*)0 : (char*)dv.data());
#ifdef WITH_CINTER
      struct { char* data; } ch = { T_ };    // the C handle: struct splinetable { void* data; }
      if (e == "c_eval") return ir_c_ndsplineeval((char*)&ch, xp, cp, m);
      if (e == "c_deriv") return ir_c_ndsplineeval_deriv((char*)&ch, xp, cp, dv.empty() ? (char*)0 : (char*)dv.data());
#endif
      vs_error(("unknown scalar entry " + e).c_str()); return 0; };
    auto grad = [&](const std::string& e, std::vector<vr64>& out){
      out.assign(ND + 1, 0); char* T_ = (char*)&b->t; char* xp = (char*)x.data(); char* cp = (char*)c.data(); char* op = (char*)out.data();
      if (e == "grad_f") ir_w_grad_f(T_, xp, cp, op); else if (e == "grad_d") ir_w_grad_d(T_, xp, cp, op);
      else if (e == "ev_grad_f") ir_w_ev_grad_f(T_, xp, cp, op); else if (e == "ev_grad_d") ir_w_ev_grad_d(T_, xp, cp, op);
#ifdef WITH_CINTER
      else if (e == "c_grad") { struct { char* data; } ch = { T_ }; ir_c_ndsplineeval_gradient((char*)&ch, xp, cp, op); }
#endif
      else vs_error(("unknown gradient entry " + e).c_str()); };
    if (kind == "value") {             // C01 (mask 0) / C02 (bitmask derivatives)
      vr64 r = scalar(entry, mask, derivs);
      if (exc_pending) vs_error("unexpected exception");
      vr64 o = oracle(b, pc, X);
      for (unsigned d = 0; d < ND; d++) if (mask & (1u << d)) o = vs_diff(o, X[d]);
      o = at_point(o);
      vs_prove_eq(r, ones && mask == 0 ? vs_q(1, 1) : o, (id + " " + entry + " == oracle").c_str());
      if (ones && mask == 0) vs_prove_eq(o, vs_q(1, 1), (id + " oracle partition of unity").c_str());
      vs_prove_nonzero_divisors((id + " divisor").c_str());
    } else if (kind == "deriv") {      // C02 arbitrary-order derivative
      vr64 r = scalar(entry, 0, derivs);
      if (exc_pending) vs_error("unexpected exception");
      vr64 o = oracle(b, pc, X);
      for (unsigned d = 0; d < ND; d++) o = dn(o, X[d], d < derivs.size() ? derivs[d] : 0);
      o = at_point(o);
      vs_prove_eq(r, o, (id + " " + entry + " == d^n oracle").c_str());
      vs_prove_nonzero_divisors((id + " divisor").c_str());
    } else if (kind == "grad") {       // C02 value + gradient
      std::vector<vr64> out; grad(entry, out);
      if (exc_pending) vs_error("unexpected exception");
      vr64 o = oracle(b, pc, X);
      vs_prove_eq(out[0], at_point(o), (id + " " + entry + "[0] == value").c_str());
      for (unsigned d = 0; d < ND; d++) vs_prove_eq(out[1 + d], at_point(vs_diff(o, X[d])), (id + " " + entry + "[" + std::to_string(1 + d) + "] == d/dx" + std::to_string(d)).c_str());
      vs_prove_nonzero_divisors((id + " divisor").c_str());
    } else if (kind == "pair") {       // C03: two paths build the same term
      bool g1 = entry.find("grad") != std::string::npos, g2 = entry2.find("grad") != std::string::npos;
      if (g1 && g2) { std::vector<vr64> a, bb; grad(entry, a); bool e1 = exc_pending; exc_pending = 0; grad(entry2, bb); bool e2 = exc_pending; exc_pending = 0;
        if (e1 != e2) vs_error("one path throws, the other does not");
        if (e1) { vs_note("both-refused", id.c_str()); vs_prove_eq(vs_q(1, 1), vs_q(1, 1), (id + " both refuse").c_str()); }
        else for (unsigned i = 0; i <= ND; i++) vs_prove_eq(a[i], bb[i], (id + " " + entry + "[" + std::to_string(i) + "] == " + entry2).c_str()); }
      else if (g1) { std::vector<vr64> a; grad(entry, a); if (exc_pending) vs_error("unexpected exception");
        // lane 0 vs plain value, lane 1+d vs bitmask derivative d
        vs_prove_eq(a[0], scalar(entry2, 0, derivs), (id + " " + entry + "[0] == " + entry2).c_str());
        for (unsigned d = 0; d < ND; d++) vs_prove_eq(a[1 + d], scalar(entry2, 1u << d, derivs), (id + " " + entry + "[" + std::to_string(1 + d) + "] == " + entry2 + " mask").c_str()); }
      else { vr64 a = scalar(entry, mask, derivs); vr64 bb = scalar(entry2, mask, derivs); if (exc_pending) vs_error("unexpected exception");
        if (a != bb && getenv("VS_DEBUG")) { fprintf(stderr, "A: %s\n", vs_show(a)); fprintf(stderr, "B: %s\n", vs_show(bb)); }
        vs_prove_eq(a, bb, (id + " " + entry + " == " + entry2).c_str()); }
      uint32_t ok2 = ir_w_ev_searchcenters_f((char*)&b->t, (char*)x.data(), (char*)c2.data());
      if (ok2 != ok || c2 != c) vs_error("evaluator searchcenters disagrees with member searchcenters");
#ifdef WITH_CINTER
      { struct { char* data; } ch = { (char*)&b->t }; std::vector<int32_t> c3(ND, -777);
        uint32_t ok3 = ir_c_tablesearchcenters((char*)&ch, (char*)x.data(), (char*)c3.data());
        if ((ok3 != 0) != (ok != 0) || c3 != c) vs_error("C tablesearchcenters disagrees with member searchcenters"); }
#endif
    } else vs_error(("unknown case kind " + kind).c_str());
  }
  printf("E2 cases=%d errors=%d\n", ncase, nerr);
  return 0;
}
