// Replay for C19 on the real library with real cfitsio: writes the table of the spec, loads it into a table with a byte-counting
// allocator, convolves as declared and compares the peak with estimateMemory.  exit 3 = REPRODUCED (peak > estimate).
#include "mktable.hpp"
#include <cstdio>
#include <cstring>
#include <fstream>
#include <unistd.h>
static size_t cur = 0, peak = 0;
template<typename T> struct CountingAlloc { typedef T value_type; CountingAlloc() {} template<typename U> CountingAlloc(const CountingAlloc<U>&) {}
  T* allocate(size_t n){ cur += n * sizeof(T); if (cur > peak) peak = cur; return static_cast<T*>(malloc(n * sizeof(T) ? n * sizeof(T) : 1)); }
  void deallocate(T* p, size_t n){ cur -= n * sizeof(T); free(p); }
  template<typename U> struct rebind { typedef CountingAlloc<U> other; }; template<typename U> bool operator==(const CountingAlloc<U>&) const { return true; } template<typename U> bool operator!=(const CountingAlloc<U>&) const { return false; } };
template<> struct CountingAlloc<void> { typedef void value_type; CountingAlloc() {} template<typename U> CountingAlloc(const CountingAlloc<U>&) {} template<typename U> struct rebind { typedef CountingAlloc<U> other; }; };
typedef photospline::splinetable<CountingAlloc<void>> CT;
int main(int argc, char** argv){
  std::ifstream in(argv[1]); std::string line, w; unsigned nd = 0, nconv = 0, cdim = 0; std::vector<unsigned> ord; std::vector<uint64_t> nk; std::vector<std::pair<std::string, std::string>> aux;
  while (std::getline(in, line)) { std::istringstream ls(line); if (!(ls >> w)) continue;
    if (w == "cinter") { std::string id, tok; ls >> id; while (ls >> tok) { if (tok == "nd") { ls >> nd; ord.resize(nd); nk.resize(nd); } else if (tok == "nconv") ls >> nconv; else if (tok == "cdim") ls >> cdim; } }
    else if (w == "dim") { unsigned d; std::string a; ls >> d >> a >> ord[d] >> a >> nk[d]; }
    else if (w == "aux") { std::string kv; ls >> kv; size_t bar = kv.find('|'); std::string v = kv.substr(bar + 1); for (auto& c : v) if (c == '~') c = ' '; aux.push_back({kv.substr(0, bar), v}); } }
  std::vector<std::vector<double>> kn(nd); uint64_t nc = 1; for (unsigned d = 0; d < nd; d++) { for (uint64_t i = 0; i < nk[d]; i++) kn[d].push_back(d + (double)i); nc *= nk[d] - ord[d] - 1; }
  std::vector<float> cf(nc, 1.f); ST t; mk_table(t, ord, kn, cf, 0, 0); for (auto& a : aux) t.write_key(a.first.c_str(), a.second.c_str());
  char path[] = "/var/tmp/psreplay_XXXXXX"; int fd = mkstemp(path); close(fd); t.write_fits(path);
  size_t est = CT::estimateMemory(path, nconv ? nconv : 1, cdim);
  { CT c{std::string(path)}; size_t lp = peak; if (nconv) { std::vector<double> kk(nconv); for (unsigned i = 0; i < nconv; i++) kk[i] = 0.5 * i - 0.5; c.convolve(cdim, kk.data(), nconv); }
    printf("estimate=%zu load_peak=%zu peak=%zu\n", est, lp, peak); }
  unlink(path);
  int bad = peak > est; printf(bad ? "REPRODUCED\n" : "HELD\n"); return bad ? 3 : 0;
}
