// Build a real photospline::splinetable<> by hand (validation + replay programs).
#pragma once
#include <algorithm>
#include <cassert>
#include <memory>
#include <numeric>
#include <sstream>
#include <vector>
#include <string>
#include <cstdlib>
#include <iostream>
#include <random>
#include <chrono>
#include <stdexcept>
#define private public
#include "photospline/splinetable.h"
#undef private
typedef photospline::splinetable<> ST;

// knots[d] has nknots[d] entries; padding (order entries each side) filled with pad value
static inline void mk_table(ST& t, const std::vector<unsigned>& order, const std::vector<std::vector<double>>& knots,
                            const std::vector<float>& coeffs, double padlo = -1e300, double padhi = 1e300) {
  unsigned nd = order.size();
  t.ndim = nd;
  t.order = t.allocate<uint32_t>(nd);
  t.nknots = t.allocate<uint64_t>(nd);
  t.naxes = t.allocate<uint64_t>(nd);
  t.strides = t.allocate<uint64_t>(nd);
  t.knots = t.allocate<double*>(nd);
  t.extents = t.allocate<double*>(nd);
  t.extents[0] = t.allocate<double>(2 * nd);
  t.periods = NULL; t.naux = 0; t.aux = NULL;
  for (unsigned d = 0; d < nd; d++) {
    t.order[d] = order[d];
    t.nknots[d] = knots[d].size();
    t.naxes[d] = knots[d].size() - order[d] - 1;
    t.knots[d] = t.allocate<double>(knots[d].size() + 2 * order[d]) + order[d];
    for (unsigned i = 0; i < order[d]; i++) { t.knots[d][-(int)i - 1] = padlo; t.knots[d][knots[d].size() + i] = padhi; }
    std::copy(knots[d].begin(), knots[d].end(), t.knots[d]);
    t.extents[d] = t.extents[0] + 2 * d;
    t.extents[d][0] = knots[d][order[d]];
    t.extents[d][1] = knots[d][knots[d].size() - order[d] - 1];
  }
  uint64_t sz = 1;
  for (int d = nd - 1; d >= 0; d--) { t.strides[d] = sz; sz *= t.naxes[d]; }
  t.coefficients = t.allocate<float>(sz);
  for (uint64_t i = 0; i < sz; i++) t.coefficients[i] = i < coeffs.size() ? coeffs[i] : 0.f;
}
