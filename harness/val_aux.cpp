// Translator + stream-model validation for the auxiliary key functions: the same random operation sequence is applied to
// one table through the real library and to a second table through the generated C (R-ieee); return values, exceptions
// and the resulting key/value arrays must agree after every step.
#include "mktable.hpp"
#include <cstdio>
#include <cstring>
extern "C" {
char* ir_w_get_aux_value(char*, char*); uint32_t ir_w_write_key_str(char*, char*, char*); uint32_t ir_w_write_key_int(char*, char*, uint32_t);
uint32_t ir_w_write_key_double(char*, char*, uint64_t); uint32_t ir_w_read_key_int(char*, char*, char*); uint32_t ir_w_read_key_double(char*, char*, char*);
uint32_t ir_w_read_key_str(char*, char*, char*, uint64_t); uint32_t ir_w_reserved(char*);
extern int exc_pending;
uint64_t vm_format_double(uint64_t v, char* buf){ double d; memcpy(&d, &v, 8); return (uint64_t)snprintf(buf, 32, "%g", d); }
int vm_parse_double(const char* text, uint64_t n, uint64_t* out){ std::string s(text, n); std::istringstream ss(s); double d; ss >> d; if (ss.fail()) return 0; memcpy(out, &d, 8); return 1; }
}
static long ncmp = 0, nbad = 0;
static void chk(bool ok, const char* what, int step){ ncmp++; if (!ok) { if (nbad++ < 10) printf("MISMATCH step %d: %s\n", step, what); } }
static void same_store(ST& a, ST& b, int step){
  chk(a.naux == b.naux, "naux", step);
  for (unsigned i = 0; i < a.naux && i < b.naux; i++) { chk(!strcmp(a.aux[i][0], b.aux[i][0]), "key", step); chk(!strcmp(a.aux[i][1], b.aux[i][1]), "value", step); }
}
int main(int argc, char** argv){
  unsigned seed = argc > 1 ? atoi(argv[1]) : 1; std::mt19937_64 rng(seed);
  const char* keys[] = {"A", "AB1", "KEY", "LONGKEY8", "ORDER0", "NAXIS", "TYPE", "BITPIXX", "lower", "MiXed", "A=B", "A-B", "A_B", "VERYLONGKEYNAME", "HIERKEY.WITH.DOTS", "verylonglowercase", "LONG=KEY=NAME",
                        "", "PERIOD1", "EXTENDED", "COMMENTARY", "Z9", "SIMPLEX", "K", "X1234567", "X12345678"};
  const char* vals[] = {"", "v", "hello world", "it's", "''", "123", "-5", "  7", "1e3", "abc def ghi jkl mno pqr stu vwx yz0 123 456 789 abc def ghi jkl mno pqr", "12x", "2147483648", "+9", "0.5", "nan"};
  for (int rep = 0; rep < 30; rep++) {
    ST ta, tb; std::vector<std::vector<double>> kn{{0, 1, 2, 3}}; mk_table(ta, {1}, kn, {1, 2}); mk_table(tb, {1}, kn, {1, 2});
    for (int step = 0; step < 60; step++) {
      const char* k = keys[rng() % (sizeof keys / sizeof *keys)]; const char* v = vals[rng() % (sizeof vals / sizeof *vals)]; int op = rng() % 8;
      int ra = -1, rb = -1; bool ea = false, eb = false;
      if (op <= 2) { try { ra = ta.write_key(k, v); } catch (std::exception&) { ea = true; } rb = ir_w_write_key_str((char*)&tb, (char*)k, (char*)v); }
      else if (op == 3) { int iv = (int)(rng() % 2000001) - 1000000; try { ra = ta.write_key(k, iv); } catch (std::exception&) { ea = true; } rb = ir_w_write_key_int((char*)&tb, (char*)k, iv); }
      else if (op == 4) { double dv = ((int)(rng() % 20001) - 10000) / 8.0; uint64_t b; memcpy(&b, &dv, 8); try { ra = ta.write_key(k, dv); } catch (std::exception&) { ea = true; } rb = ir_w_write_key_double((char*)&tb, (char*)k, b); }
      else if (op == 5) { int x = -7, y = -7; ra = ta.read_key(k, x); rb = ir_w_read_key_int((char*)&tb, (char*)k, (char*)&y); chk(!ra || x == y, "read int value", step); }
      else if (op == 6) { const char* a = ta.get_aux_value(k); char* b = ir_w_get_aux_value((char*)&tb, (char*)k); chk((a == 0) == (b == 0) && (!a || !strcmp(a, b)), "get_aux_value", step); ra = rb = 0; }
      else { double x = -7, y = -7; ra = ta.read_key(k, x); rb = ir_w_read_key_double((char*)&tb, (char*)k, (char*)&y); chk(!ra || x == y, "read double value", step); }
      eb = exc_pending; exc_pending = 0;
      chk(ea == eb, "exception", step); if (!ea && !eb) chk((ra != 0) == (rb != 0), "return value", step);
      chk((photospline::reservedFitsKeyword(k) != 0) == (ir_w_reserved((char*)k) != 0), "reservedFitsKeyword", step);
      same_store(ta, tb, step);
    }
  }
  printf("VALIDATION compared=%ld mismatches=%ld\n", ncmp, nbad); return nbad ? 1 : 0;
}
