// Replay for C03 (path independence): searches for an input on which two evaluation paths of the REAL
// library return different bits.  spec: nd/dim lines as replay_value, "entry A", "entry2 B", "mask M", "derivs ..",
// "region r0 r1 .." (i<k> open interval, k<k> on knot), optional "seed S".  exit 0 = no difference found (HELD), 3 = REPRODUCED.
#include "mktable.hpp"
#include "photospline/cinter/splinetable.h"
#include <cstdio>
#include <cmath>
#include <fstream>
#include <cstring>
static double Qd(const std::string& s){ size_t p = s.find('/'); return p == std::string::npos ? atof(s.c_str()) : atof(s.substr(0, p).c_str()) / atof(s.substr(p + 1).c_str()); }
static uint64_t bits(double d){ uint64_t b; memcpy(&b, &d, 8); return b; }
struct Ctx { ST* t; std::vector<double> x; std::vector<int> c; int mask; std::vector<unsigned> dv; unsigned nd; };
// returns the vector of outputs of an entry (1 value, or nd+1 lanes for gradients); empty on exception
static std::vector<double> runent(const std::string& e, Ctx& k){
  ST& t = *k.t; const double* x = k.x.data(); const int* c = k.c.data(); std::vector<double> g(k.nd + 1);
  struct splinetable ch; ch.data = (void*)k.t;
  try {
    if (e == "eval_f") return {t.ndsplineeval<float>(x, c, k.mask)}; if (e == "eval_d") return {t.ndsplineeval<double>(x, c, k.mask)};
    if (e == "call") return {t(x)};
    if (e == "ev_eval_f") return {t.get_evaluator<float>().ndsplineeval(x, c, k.mask)}; if (e == "ev_eval_d") return {t.get_evaluator<double>().ndsplineeval(x, c, k.mask)};
    if (e == "ev_call_f") return {t.get_evaluator<float>()(x, k.mask)}; if (e == "ev_call_d") return {t.get_evaluator<double>()(x, k.mask)};
    if (e == "deriv") return {t.ndsplineeval_deriv(x, c, k.dv.data())};
    if (e == "ev_deriv_f") return {t.get_evaluator<float>().ndsplineeval_deriv(x, c, k.dv.data())};
    if (e == "ev_deriv_d") return {t.get_evaluator<double>().ndsplineeval_deriv(x, c, k.dv.data())};
    if (e == "c_eval") return {ndsplineeval(&ch, x, c, k.mask)}; if (e == "c_deriv") return {ndsplineeval_deriv(&ch, x, c, k.dv.data())};
    if (e == "grad_f") { t.ndsplineeval_gradient<float>(x, c, g.data()); return g; } if (e == "grad_d") { t.ndsplineeval_gradient<double>(x, c, g.data()); return g; }
    if (e == "ev_grad_f") { t.get_evaluator<float>().ndsplineeval_gradient(x, c, g.data()); return g; }
    if (e == "ev_grad_d") { t.get_evaluator<double>().ndsplineeval_gradient(x, c, g.data()); return g; }
    if (e == "c_grad") { ndsplineeval_gradient(&ch, x, c, g.data()); return g; }
  } catch (std::exception&) { return {}; }
  printf("unknown entry %s\n", e.c_str()); exit(2);
}
int main(int argc, char** argv){
  if (argc < 2) return 2;
  std::ifstream in(argv[1]); std::string line, w, e1, e2; unsigned nd = 0, seed = 1; std::vector<unsigned> order, derivs; std::vector<std::vector<double>> kn; int mask = 0; std::vector<std::string> reg;
  while (std::getline(in, line)) { std::istringstream ls(line); if (!(ls >> w)) continue;
    if (w == "nd") { ls >> nd; order.resize(nd); kn.resize(nd); }
    else if (w == "dim") { unsigned d; std::string a; ls >> d >> a >> order[d] >> a; std::string k; while (ls >> k) kn[d].push_back(Qd(k)); }
    else if (w == "entry") ls >> e1; else if (w == "entry2") ls >> e2; else if (w == "mask") ls >> mask; else if (w == "seed") ls >> seed;
    else if (w == "derivs") { std::string s; ls >> s; std::stringstream ss(s); std::string x; while (std::getline(ss, x, ',')) derivs.push_back(atoi(x.c_str())); }
    else if (w == "region") { std::string r; while (ls >> r) reg.push_back(r); } }
  uint64_t nc = 1; for (unsigned d = 0; d < nd; d++) nc *= kn[d].size() - order[d] - 1;
  std::mt19937_64 rng(seed); derivs.resize(nd, 0);
  bool g1 = e1.find("grad") != std::string::npos, g2 = e2.find("grad") != std::string::npos;
  for (int trial = 0; trial < 3000; trial++) {
    std::vector<float> cf(nc); int mag = trial % 4;
    for (auto& c : cf) { double u = ((int64_t)(rng() % 2000001) - 1000000) / 1000000.0; c = (float)(mag == 0 ? u : mag == 1 ? u * 1e6 : mag == 2 ? u * 1e-6 : std::ldexp(u, (int)(rng() % 40) - 20)); }
    ST t; mk_table(t, order, kn, cf);
    Ctx k{&t, std::vector<double>(nd), std::vector<int>(nd), mask, derivs, nd};
    for (unsigned d = 0; d < nd; d++) { int idx = atoi(reg[d].c_str() + 1);
      if (reg[d][0] == 'k') k.x[d] = kn[d][idx];
      else { double lo = kn[d][idx], hi = kn[d][idx + 1], u = (rng() % 1000003) / 1000003.0; k.x[d] = lo + (hi - lo) * u; if (!(k.x[d] > lo && k.x[d] < hi)) k.x[d] = 0.5 * (lo + hi); } }
    if (!t.searchcenters(k.x.data(), k.c.data())) continue;
    std::vector<double> a = runent(e1, k), b;
    if (g1 && !g2) { // gradient lanes against value / bitmask derivatives of the scalar entry
      b.resize(nd + 1); int keep = k.mask; k.mask = 0; b[0] = runent(e2, k)[0]; for (unsigned d = 0; d < nd; d++) { k.mask = 1 << d; b[1 + d] = runent(e2, k)[0]; } k.mask = keep;
    } else b = runent(e2, k);
    if (a.size() != b.size()) { printf("trial %d: one path throws, the other does not\nREPRODUCED\n", trial); return 3; }
    for (size_t i = 0; i < a.size(); i++) if (bits(a[i]) != bits(b[i]) && !(a[i] != a[i] && b[i] != b[i])) {
      printf("trial %d output %zu: %s=%a %s=%a\nREPRODUCED\n", trial, i, e1.c_str(), a[i], e2.c_str(), b[i]); return 3; }
  }
  printf("no bit difference in 3000 trials\nHELD\n"); return 0;
}
