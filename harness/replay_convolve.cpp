// Replay for C14 on the real library: convolves a table with pseudo-random coefficients and compares evaluation at the
// midpoint (and two more points) of every new knot interval with the oracle polynomials of the spec.  exit 3 = REPRODUCED.
#include "mktable.hpp"
#include <cstdio>
#include <cmath>
#include <fstream>
#include <map>
static double cdb(const std::vector<double>& t, int j, int n, double x){ if (n == 0) return (x >= t[j] && x < t[j + 1]) ? 1.0 : 0.0; double r = 0; if (t[j + n] != t[j]) r += (x - t[j]) / (t[j + n] - t[j]) * cdb(t, j, n - 1, x); if (t[j + n + 1] != t[j + 1]) r += (t[j + n + 1] - x) / (t[j + n + 1] - t[j + 1]) * cdb(t, j + 1, n - 1, x); return r; }
static double Qd(const std::string& s){ size_t p = s.find('/'); return p == std::string::npos ? atof(s.c_str()) : atof(s.substr(0, p).c_str()) / atof(s.substr(p + 1).c_str()); }
int main(int argc, char** argv){
  std::ifstream in(argv[1]); std::string line, w; unsigned nd = 0, cdim = 0; std::vector<unsigned> ord; std::vector<std::vector<double>> kn; std::vector<double> kern;
  std::map<std::pair<int,int>, std::vector<double>> poly;
  while (std::getline(in, line)) { std::istringstream ls(line); if (!(ls >> w)) continue;
    if (w == "table") { ls >> w >> nd; ord.resize(nd); kn.resize(nd); }
    else if (w == "dim") { unsigned d; std::string a; ls >> d >> a >> ord[d] >> a; std::string k; while (ls >> k) kn[d].push_back(Qd(k)); }
    else if (w == "conv") { std::string id, tok; ls >> id; while (ls >> tok) { if (tok == "dim") ls >> cdim; else if (tok == "kernel") { std::string k; while (ls >> k) kern.push_back(Qd(k)); } } }
    else if (w == "poly") { int r, i; ls >> r >> i; std::string c; while (ls >> c) poly[{r, i}].push_back(Qd(c)); } }
  uint64_t nc = 1; std::vector<uint64_t> nax(nd), str(nd); for (int d = nd - 1; d >= 0; d--) { nax[d] = kn[d].size() - ord[d] - 1; str[d] = nc; nc *= nax[d]; }
  std::vector<float> cf(nc); for (uint64_t i = 0; i < nc; i++) cf[i] = (float)(1 + (i * 7 % 5) - 0.5 * (i % 3));
  ST t; mk_table(t, ord, kn, cf);
  t.convolve(cdim, kern.data(), kern.size());
  int bad = 0; unsigned no = t.order[cdim];
  if (no != ord[cdim] + kern.size() - 1) { printf("order %u, expected %zu\n", no, ord[cdim] + kern.size() - 1); bad = 1; }
  std::vector<double> rho(t.knots[cdim], t.knots[cdim] + t.nknots[cdim]);
  // evaluate along cdim for the first slice of the other dimensions (their coordinate fixed inside the supported range)
  std::vector<double> x(nd); std::vector<int> c(nd);
  for (size_t r = 0; r + 1 < rho.size() && !bad; r++) { if (!(rho[r] < rho[r + 1])) continue;
    for (double f : {0.5, 0.1, 0.9}) {
      for (unsigned d = 0; d < nd; d++) x[d] = d == cdim ? rho[r] + f * (rho[r + 1] - rho[r]) : 0.5 * (kn[d][ord[d]] + kn[d][ord[d] + 1]);
      if (!t.searchcenters(x.data(), c.data())) continue;
      double real = t.ndsplineeval<double>(x.data(), c.data(), 0);
      // definition: sum over the other dimensions' basis (evaluated by the library on an un-convolved copy) is avoided: use 1-D tables or the first-slice structure
      // true value: sum over every coefficient of (independent Cox-de Boor basis of the other dimensions) x (oracle polynomial of the convolved one)
      double want = 0, mag = 0;
      for (uint64_t flat = 0; flat < nc; flat++) { uint64_t q = flat; double wgt = 1; int ic = 0; bool zero = false;
        for (unsigned d = 0; d < nd && !zero; d++) { uint64_t id = q / str[d]; q %= str[d]; if (d == cdim) ic = (int)id; else { double b = cdb(kn[d], (int)id, (int)ord[d], x[d]); if (b == 0) zero = true; wgt *= b; } }
        if (zero) continue; auto it = poly.find({(int)r, ic}); if (it == poly.end()) continue; double pv = 0, xp = 1; for (double a : it->second) { pv += a * xp; xp *= x[cdim]; } want += cf[flat] * wgt * pv; mag += std::fabs(cf[flat] * wgt * pv); }
      if (!(std::fabs(real - want) <= 1e-4 * (mag + 1e-6))) { printf("interval %zu x=%g: evaluates to %.9g, true convolution %.9g\n", r, x[cdim], real, want); bad = 1; break; } } }
  printf(bad ? "REPRODUCED\n" : "HELD\n"); return bad ? 3 : 0;
}
