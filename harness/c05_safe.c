/* C05: lookup and every evaluation entry point are memory-safe for every coordinate vector
 * (order keys incl. NaN; +-inf are the extreme keys).  Blocks are exactly sized, so CBMC's pointer
 * checks on the translated loads/stores are object-precise. */
#include "ps_build_ord.h"
uint32_t ir_w_searchcenters(char*, char*, char*);
vr64 ir_w_eval_f(char*, char*, char*, uint32_t); vr64 ir_w_eval_d(char*, char*, char*, uint32_t);
vr64 ir_w_call(char*, char*); vr64 ir_w_deriv(char*, char*, char*, char*);
void ir_w_grad_f(char*, char*, char*, char*); void ir_w_grad_d(char*, char*, char*, char*);
vr64 ir_w_ev_eval_f(char*, char*, char*, uint32_t); vr64 ir_w_ev_eval_d(char*, char*, char*, uint32_t);
vr64 ir_w_ev_call_f(char*, char*, uint32_t); vr64 ir_w_ev_call_d(char*, char*, uint32_t);
vr64 ir_w_ev_deriv_f(char*, char*, char*, char*); vr64 ir_w_ev_deriv_d(char*, char*, char*, char*);
void ir_w_ev_grad_f(char*, char*, char*, char*); void ir_w_ev_grad_d(char*, char*, char*, char*);
uint32_t in_mask, in_derivs[ND];

#ifdef CUT_BSPLINE_DERIV
/* assume-guarantee: in the DERIV groups photospline::bspline_deriv is replaced by its memory contract
 * (asserted here at every call site); the contract is proved on the real function by the E_UNIT_DERIV instances */
static struct ps_table* g_t;
vr64 ir_bspline_deriv(char* knots, vr64 x, uint32_t i, uint32_t n, uint32_t order){
  _Bool found = 0;
  for (unsigned d = 0; d < ND; d++) if (knots == (char*)g_t->knots[d]) {
    found = 1;
    assert(n == ORD[d]);
    assert((int32_t)i >= 0 && (int64_t)(int32_t)i + n + 1 <= (int64_t)NK[d] - 1);
  }
  assert(found);
  return VR_OPAQUE;
}
#endif
#ifdef E_UNIT_DERIV
vr64 ir_w_bspline_deriv(char* knots, vr64 x, uint32_t i, uint32_t n, uint32_t order);
vr64 ir_w_bspline(char* knots, vr64 x, uint32_t i, uint32_t n);
#endif

static void grad(void (*f)(char*, char*, char*, char*), struct ps_table* t, vr64* x, int32_t* c){
  vr64* out = xmalloc((ND + 1) * sizeof(vr64));            /* the caller's buffer: ndim+1 doubles */
  for (unsigned i = 0; i <= ND; i++) out[i] = 7;
  f((char*)t, (char*)x, (char*)c, (char*)out);
  if (ND + 1 > PS_MAXDIM) {                                 /* must be refused by exception, nothing written */
    assert(exc_pending);
    for (unsigned i = 0; i <= ND; i++) assert(out[i] == 7);
    exc_pending = 0;
  } else assert(!exc_pending);
}

void harness(void){
  struct ps_table t; build_table(&t);
#ifdef CUT_BSPLINE_DERIV
  g_t = &t;
#endif
#ifdef E_UNIT_DERIV
  { /* contract of bspline_deriv / bspline: for 0 <= i, i+n+1 <= nknots-1 every access stays inside knots[0..nknots-1] */
    vr64* kb = xmalloc(NK[0] * sizeof(vr64));              /* exactly the knot vector, no padding */
    for (unsigned j = 0; j < NK[0]; j++) kb[j] = t.knots[0][j];
    uint32_t i = nondet_u32(), dord = nondet_u32();
    __CPROVER_assume(i <= NK[0] && (uint64_t)i + ORD[0] + 1 <= NK[0] - 1); __CPROVER_assume(dord <= ORD[0] + 2);
    (void)ir_w_bspline_deriv((char*)kb, nondet_key_or_nan(0), i, ORD[0], dord);
    (void)ir_w_bspline((char*)kb, nondet_key_or_nan(0), i, ORD[0]);
    assert(!exc_pending);
  }
#endif
  vr64* x = xmalloc(ND * sizeof(vr64)); int32_t* c = xmalloc(ND * sizeof(int32_t));
  for (unsigned d = 0; d < ND; d++) { x[d] = nondet_key_or_nan(d); in_x[d] = x[d]; c[d] = nondet_int(); }
#ifdef E_CALL
  (void)ir_w_call((char*)&t, (char*)x);
  (void)ir_w_ev_call_f((char*)&t, (char*)x, 0);
  assert(!exc_pending);
#endif
  uint32_t ok = ir_w_searchcenters((char*)&t, (char*)x, (char*)c);
  if (ok) {
    uint32_t mask = nondet_u32(); __CPROVER_assume(mask < (1u << ND)); in_mask = mask;
    uint32_t* dv = xmalloc(ND * sizeof(uint32_t));
    for (unsigned d = 0; d < ND; d++) { dv[d] = nondet_u32(); __CPROVER_assume(dv[d] <= ORD[d] + 2); in_derivs[d] = dv[d]; }
#ifdef E_EVAL
    (void)ir_w_eval_f((char*)&t, (char*)x, (char*)c, mask);
    (void)ir_w_eval_d((char*)&t, (char*)x, (char*)c, mask);
#endif
#ifdef E_DERIV
    (void)ir_w_deriv((char*)&t, (char*)x, (char*)c, (char*)dv);
    (void)ir_w_deriv((char*)&t, (char*)x, (char*)c, (char*)0);
#endif
#ifdef E_GRAD
    grad(ir_w_grad_f, &t, x, c); grad(ir_w_grad_d, &t, x, c);
#endif
#ifdef E_EV_EVAL
    (void)ir_w_ev_eval_f((char*)&t, (char*)x, (char*)c, mask);
    (void)ir_w_ev_eval_d((char*)&t, (char*)x, (char*)c, mask);
    (void)ir_w_ev_call_d((char*)&t, (char*)x, mask);
#endif
#ifdef E_EV_DERIV
    (void)ir_w_ev_deriv_f((char*)&t, (char*)x, (char*)c, (char*)dv);
    (void)ir_w_ev_deriv_d((char*)&t, (char*)x, (char*)c, (char*)dv);
#endif
#ifdef E_EV_GRAD
    grad(ir_w_ev_grad_f, &t, x, c); grad(ir_w_ev_grad_d, &t, x, c);
#endif
    assert(!exc_pending);
  }
#ifdef WITNESS
  assert(0);
#endif
}
