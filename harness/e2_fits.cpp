// E2 harness for C06 / C08: the IR-derived FITS writer and reader run natively on the cfitsio container model with every
// float payload (coefficients, knots, extents, periods) an uninterpreted variable.  Obligations: documented layout seen by
// an independent reader, write->read identity, files from an independent writer (incl. legacy layouts) read correctly;
// with fault injection: success only if every call incl. close succeeded, no operation-prefix loads as a different table.
// case file: "fits <id> nd N periods P mem M [faults]" / "dim d order O nknots K" / "aux KEY|VALUE" (~ = blank) / "end"
#include <cstdio>
#include <cstdlib>
#include <cstring>
#include <csetjmp>
#include <string>
#include <vector>
#include <sstream>
#include <fstream>
#include <algorithm>
#define VR_SYM
extern "C" {
#include "ps_table.h"
#include "models.h"
#include "cfitsio_model.h"
extern jmp_buf vs_jmp; extern int vs_failed; extern char vs_errmsg[512]; extern int exc_pending;
void ir_w_write_fits(char* t, char* path); uint32_t ir_w_read_fits(char* t, char* path);
char* ir_w_write_fits_mem(char* t, char* size); uint32_t ir_w_read_fits_mem(char* t, char* buf, uint64_t n);
uint32_t ir_w_equal(char* a, char* b); void ir_w_destroy(char* t);
uint64_t vm_format_double(vr64 v, char* buf){ (void)v; buf[0] = '1'; return 1; }
int vm_parse_double(const char* t, uint64_t n, vr64* out){ (void)t; (void)n; *out = 0; return 0; }
}
struct Shape { unsigned nd; std::vector<unsigned> order; std::vector<uint64_t> nk; bool periods, mem, faults; std::vector<std::pair<std::string, std::string>> aux; };
static void eqi(const std::string& l, long a, long b){ vs_prove_eq(vs_q(a, 1), vs_q(b, 1), l.c_str()); }
static void eqh(const std::string& l, vr64 a, vr64 b){ vs_prove_eq(a, b, l.c_str()); }
static std::string rtrim(std::string s){ while (!s.empty() && s.back() == ' ') s.pop_back(); return s; }
template<class T> static T* blk(size_t n){ return (T*)vm_new(n * sizeof(T)); }
static char* dupstr(const std::string& s){ char* p = blk<char>(s.size() + 1); memcpy(p, s.c_str(), s.size() + 1); return p; }
static void build(ps_table& t, const Shape& s, const char* tag){
  memset(&t, 0, sizeof t); unsigned nd = s.nd; t.ndim = nd; t.order = blk<uint32_t>(nd); t.nknots = blk<uint64_t>(nd); t.naxes = blk<uint64_t>(nd); t.strides = blk<uint64_t>(nd); t.knots = blk<vr64*>(nd); t.extents = blk<vr64*>(nd); t.extents[0] = blk<vr64>(2 * nd);
  t.periods = s.periods ? blk<vr64>(nd) : 0; uint64_t nc = 1;
  for (int d = nd - 1; d >= 0; d--) { unsigned o = s.order[d]; t.order[d] = o; t.nknots[d] = s.nk[d]; t.naxes[d] = s.nk[d] - o - 1; t.strides[d] = nc; nc *= t.naxes[d];
    vr64* b = blk<vr64>(s.nk[d] + 2 * o); for (unsigned i = 0; i < s.nk[d] + 2 * o; i++) { char nm[40]; snprintf(nm, 40, "%sk%d_%u", tag, d, i); b[i] = (i >= o && i < o + s.nk[d]) ? vs_var_ranked(nm, (int)i) : vs_var(nm); }   /* the reader requires finite, sorted knots: ranked variables; padding stays arbitrary */ t.knots[d] = b + o; t.extents[d] = t.extents[0] + 2 * d;
    char nm[40]; snprintf(nm, 40, "%selo%d", tag, d); t.extents[d][0] = vs_var(nm); snprintf(nm, 40, "%sehi%d", tag, d); t.extents[d][1] = vs_var(nm); if (s.periods) { snprintf(nm, 40, "%sper%d", tag, d); t.periods[d] = vs_var(nm); } }
  t.coefficients = blk<vr32>(nc); for (uint64_t i = 0; i < nc; i++) { char nm[40]; snprintf(nm, 40, "%sc%llu", tag, (unsigned long long)i); t.coefficients[i] = (vr32)vs_var(nm); }
  t.naux = s.aux.size(); t.aux = t.naux ? blk<char**>(t.naux) : 0; for (unsigned i = 0; i < t.naux; i++) { t.aux[i] = blk<char*>(2); t.aux[i][0] = dupstr(s.aux[i].first); t.aux[i][1] = dupstr(s.aux[i].second); }
}
static uint64_t ncoef(const ps_table& t){ uint64_t n = 1; for (unsigned d = 0; d < t.ndim; d++) n *= t.naxes[d]; return n; }
// expected table (a) vs loaded table (b): every field; aux values equal up to trailing blanks
static void same(const std::string& id, const ps_table& a, const ps_table& b, bool check_extents, bool check_periods){
  eqi(id + " ndim", b.ndim, a.ndim); if (a.ndim != b.ndim) return;
  for (unsigned d = 0; d < a.ndim; d++) { eqi(id + " order", b.order[d], a.order[d]); eqi(id + " nknots", b.nknots[d], a.nknots[d]); eqi(id + " naxes", b.naxes[d], a.naxes[d]); eqi(id + " strides", b.strides[d], a.strides[d]);
    if (a.nknots[d] == b.nknots[d]) for (uint64_t i = 0; i < a.nknots[d]; i++) eqh(id + " knot", b.knots[d][i], a.knots[d][i]);
    if (check_extents) { eqh(id + " lower extent", b.extents[d][0], a.extents[d][0]); eqh(id + " upper extent", b.extents[d][1], a.extents[d][1]); }
    if (check_periods && a.periods) { eqi(id + " periods present", b.periods != 0, 1); if (b.periods) eqh(id + " period", b.periods[d], a.periods[d]); } }
  if (ncoef(a) == ncoef(b)) for (uint64_t i = 0; i < ncoef(a); i++) eqh(id + " coefficient", (vr64)b.coefficients[i], (vr64)a.coefficients[i]);
  eqi(id + " number of auxiliary keys", b.naux, a.naux);
  for (unsigned i = 0; i < a.naux && i < b.naux; i++) { eqi(id + " auxiliary key", !strcmp(a.aux[i][0], b.aux[i][0]), 1); eqi(id + " auxiliary value (up to trailing blanks) [" + std::string(a.aux[i][1]) + "] read as [" + b.aux[i][1] + "]", rtrim(a.aux[i][1]) == rtrim(b.aux[i][1]), 1); }
}
static cf_file* find_file(const char* name, void* mem){ for (int i = 0; i < CF_MAXFILES; i++) if (cf_files[i].used && ((name && !strcmp(cf_files[i].name, name)) || (mem && cf_files[i].membuf == mem))) return &cf_files[i]; return 0; }
static const cf_card* card(const cf_hdu& h, const std::string& k){ for (int i = 0; i < h.ncards; i++) if (h.cards[i].kind != 'C' && k == h.cards[i].key) return &h.cards[i]; return 0; }
static std::string unq(const cf_card* c){ std::string v = c->val; if (v.size() >= 2 && v[0] == '\'') v = v.substr(1, v.size() - 2); return rtrim(v); }
// independent reader: the documented layout
static void layout(const std::string& id, const cf_file* f, const ps_table& t){
  if (!f || !f->nhdu) { eqi(id + " file exists", 0, 1); return; } const cf_hdu& p = f->hdu[0]; unsigned nd = t.ndim;
  eqi(id + " primary BITPIX == -32 (float image)", p.bitpix, -32); eqi(id + " primary NAXIS == ndim", p.naxis, nd);
  for (unsigned k = 1; k <= nd && (int)k <= p.naxis; k++) eqi(id + " NAXISk == naxes[ndim-k] (reversed axis order)", p.naxes[k - 1], t.naxes[nd - k]);
  eqi(id + " pixel count", p.ndata, ncoef(t)); for (uint64_t i = 0; i < p.ndata && i < ncoef(t); i++) eqh(id + " pixel i == coefficient i (storage order)", p.data[i], (vr64)t.coefficients[i]);
  for (unsigned d = 0; d < nd; d++) { const cf_card* c = card(p, "ORDER" + std::to_string(d)); eqi(id + " ORDERn card present", c != 0, 1); if (c) eqi(id + " ORDERn value", atol(c->val), t.order[d]);
    if (t.periods) { const cf_card* q = card(p, "PERIOD" + std::to_string(d)); eqi(id + " PERIODn card present", q != 0 && q->kind == 'D', 1); if (q) eqh(id + " PERIODn value", q->dval, t.periods[d]); } }
  for (unsigned i = 0; i < t.naux; i++) { const cf_card* c = card(p, t.aux[i][0]); eqi(id + " auxiliary card present", c != 0 && c->kind == 'S', 1); }
  for (unsigned d = 0; d < nd; d++) { int found = -1; for (int h = 1; h < f->nhdu; h++) { const cf_card* c = card(f->hdu[h], "EXTNAME"); if (c && unq(c) == "KNOTS" + std::to_string(d)) found = h; }
    eqi(id + " KNOTSn extension present", found > 0, 1); if (found < 0) continue; const cf_hdu& h = f->hdu[found];
    eqi(id + " KNOTSn BITPIX == -64", h.bitpix, -64); eqi(id + " KNOTSn one axis of nknots", h.naxis == 1 && (uint64_t)h.naxes[0] == t.nknots[d], 1); for (uint64_t i = 0; i < h.ndata && i < t.nknots[d]; i++) eqh(id + " KNOTSn data == knots", h.data[i], t.knots[d][i]); }
  { int found = -1; for (int h = 1; h < f->nhdu; h++) { const cf_card* c = card(f->hdu[h], "EXTNAME"); if (c && unq(c) == "EXTENTS") found = h; } eqi(id + " EXTENTS extension present", found > 0, 1);
    if (found > 0) { const cf_hdu& h = f->hdu[found]; eqi(id + " EXTENTS is 2*ndim doubles", h.bitpix == -64 && h.naxis == 1 && (unsigned)h.naxes[0] == 2 * nd, 1); for (unsigned d = 0; d < nd && 2 * d + 1 < h.ndata; d++) { eqh(id + " EXTENTS lower", h.data[2 * d], t.extents[d][0]); eqh(id + " EXTENTS upper", h.data[2 * d + 1], t.extents[d][1]); } } }
}
// independent writer in the documented layout; legacy: 1 = single ORDER card, 2 = no EXTENTS, 4 = extensions in reverse order
static void indep_write(const char* name, const ps_table& t, int legacy){
  cf_file* f = cf_import_begin(name, 0); unsigned nd = t.ndim; std::vector<long> ax(nd); for (unsigned k = 0; k < nd; k++) ax[k] = t.naxes[nd - 1 - k];
  cf_hdu* p = cf_import_hdu(f, -32, nd, ax.data()); for (uint64_t i = 0; i < p->ndata; i++) p->data[i] = (vr64)t.coefficients[i];
  cf_import_card(p, "SIMPLE", "T", 'I', 0); cf_import_card(p, "BITPIX", "-32", 'I', 0); cf_import_card(p, "NAXIS", std::to_string(nd).c_str(), 'I', 0); for (unsigned k = 0; k < nd; k++) cf_import_card(p, ("NAXIS" + std::to_string(k + 1)).c_str(), std::to_string(ax[k]).c_str(), 'I', 0);
  cf_import_card(p, "EXTEND", "T", 'I', 0); cf_import_card(p, "TYPE", "'Spline Coefficient Table'", 'S', 0);
  if (legacy & 1) cf_import_card(p, "ORDER", std::to_string(t.order[0]).c_str(), 'I', 0); else for (unsigned d = 0; d < nd; d++) cf_import_card(p, ("ORDER" + std::to_string(d)).c_str(), std::to_string(t.order[d]).c_str(), 'I', 0);
  for (unsigned i = 0; i < t.naux; i++) { std::string v = t.aux[i][1]; while (v.size() < 8) v += ' '; cf_import_card(p, t.aux[i][0], ("'" + v + "'").c_str(), 'S', 0); }
  std::vector<int> ordr; for (unsigned d = 0; d < nd; d++) ordr.push_back(d); if (legacy & 4) std::reverse(ordr.begin(), ordr.end());
  auto ext = [&](const std::string& nm, uint64_t n, const vr64* data){ long a = n; cf_hdu* h = cf_import_hdu(f, -64, 1, &a); for (uint64_t i = 0; i < n; i++) h->data[i] = data[i];
    cf_import_card(h, "XTENSION", "'IMAGE   '", 'S', 0); cf_import_card(h, "BITPIX", "-64", 'I', 0); cf_import_card(h, "NAXIS", "1", 'I', 0); cf_import_card(h, "NAXIS1", std::to_string(n).c_str(), 'I', 0); std::string v = nm; while (v.size() < 8) v += ' '; cf_import_card(h, "EXTNAME", ("'" + v + "'").c_str(), 'S', 0); };
  if ((legacy & 4) && !(legacy & 2)) ext("EXTENTS", 2 * nd, t.extents[0]);
  for (int d : ordr) ext("KNOTS" + std::to_string(d), t.nknots[d], t.knots[d]);
  if (!(legacy & 4) && !(legacy & 2)) ext("EXTENTS", 2 * nd, t.extents[0]);
}
static void reset_files(){ for (int i = 0; i < CF_MAXFILES; i++) if (cf_files[i].used) { for (int h = 0; h < cf_files[i].nhdu; h++) free(cf_files[i].hdu[h].data); memset(&cf_files[i], 0, sizeof cf_files[i]); } cf_calls = 0; cf_fail_at = -1; cf_cut_at = -1; cf_open_handles = 0; cf_close_failures = 0; }

int main(int argc, char** argv){
  if (argc < 3) return 2;
  std::ifstream in(argv[1]); vs_open(argv[2]); std::vector<std::string> lines; std::string line; while (std::getline(in, line)) lines.push_back(line); int ncase = 0, nerr = 0;
  for (size_t li = 0; li < lines.size(); li++) { std::istringstream ls(lines[li]); std::string w; if (!(ls >> w) || w != "fits") continue;
    Shape s; std::string id, tok; s.periods = s.mem = s.faults = false; ls >> id; while (ls >> tok) { if (tok == "nd") ls >> s.nd; else if (tok == "periods") { int v; ls >> v; s.periods = v; } else if (tok == "mem") { int v; ls >> v; s.mem = v; } else if (tok == "faults") s.faults = true; }
    s.order.resize(s.nd); s.nk.resize(s.nd);
    for (li++; li < lines.size() && lines[li] != "end"; li++) { std::istringstream ds(lines[li]); std::string k; ds >> k; if (k == "dim") { unsigned d; std::string a; ds >> d >> a >> s.order[d] >> a >> s.nk[d]; }
      else if (k == "aux") { std::string kv; ds >> kv; size_t bar = kv.find('|'); std::string key = kv.substr(0, bar), val = kv.substr(bar + 1); for (auto& c : val) if (c == '~') c = ' '; s.aux.push_back({key, val}); } }
    ncase++; vs_reset(1); vs_note("case", id.c_str()); exc_pending = 0; reset_files();
    if (setjmp(vs_jmp)) { nerr++; continue; }
    ps_table t; build(t, s, "");
    char path[] = "out.fits"; char* membuf = 0; uint64_t memsize = 0;
    auto do_write = [&](){ if (s.mem) membuf = ir_w_write_fits_mem((char*)&t, (char*)&memsize); else ir_w_write_fits((char*)&t, path); };
    auto do_read = [&](ps_table& r)->uint32_t{ memset(&r, 0, sizeof r); return s.mem ? ir_w_read_fits_mem((char*)&r, membuf, memsize) : ir_w_read_fits((char*)&r, path); };
    if (!s.faults) {
      do_write(); if (exc_pending) vs_error("write threw without any injected fault");
      eqi(id + " every file handle closed after writing", cf_open_handles, 0);
      cf_file* f = s.mem ? find_file(0, membuf) : find_file(path, 0);
      layout(id + " layout:", f, t);
      ps_table r; uint32_t ok = do_read(r); if (exc_pending || !ok) vs_error("reading back the file just written failed");
      same(id + " round trip:", t, r, true, true);
      eqi(id + " original == loaded", ir_w_equal((char*)&t, (char*)&r), 1); eqi(id + " loaded == original", ir_w_equal((char*)&r, (char*)&t), 1);
      eqi(id + " every file handle closed after reading", cf_open_handles, 0);
      if (!s.mem) for (int legacy : {0, 2, 4, 6, (int)(s.nd == 1 ? 1 : 0)}) { if (legacy == 0 && false) continue; std::string nm = "indep" + std::to_string(legacy); indep_write(nm.c_str(), t, legacy);
        ps_table q; memset(&q, 0, sizeof q); uint32_t ok2 = ir_w_read_fits((char*)&q, (char*)nm.c_str()); if (exc_pending || !ok2) { exc_pending = 0; eqi(id + " file from an independent writer (layout variant " + std::to_string(legacy) + ") is readable", 0, 1); continue; }
        ps_table e = t; e.periods = 0; same(id + " independent writer variant " + std::to_string(legacy) + ":", e, q, !(legacy & 2), false);
        if (legacy & 2) for (unsigned d = 0; d < s.nd; d++) { eqh(id + " default lower extent == knots[order]", q.extents[d][0], t.knots[d][t.order[d]]); eqh(id + " default upper extent == knots[nknots-order-1]", q.extents[d][1], t.knots[d][t.nknots[d] - t.order[d] - 1]); } }
    } else {
      // C08: every single failing cfitsio call, and every operation-granularity prefix
      do_write(); if (exc_pending) vs_error("write threw without any injected fault"); int ncalls = cf_calls;
      for (int k = 0; k < ncalls; k++) { reset_files(); exc_pending = 0; cf_fail_at = k; do_write(); bool threw = exc_pending; exc_pending = 0; cf_fail_at = -1;
        std::string lab = id + " failing I/O call #" + std::to_string(k) + " of " + std::to_string(ncalls) + ":";
        eqi(lab + " the writer must not report success", threw, 1);
        eqi(lab + " file handle released", cf_open_handles, 0);
        if (!threw) { ps_table r; uint32_t ok = do_read(r); bool rthrew = exc_pending; exc_pending = 0; if (!rthrew && ok) same(lab + " reported success but file differs:", t, r, true, true); } }
      for (int k = 0; k < ncalls; k++) { reset_files(); exc_pending = 0; cf_cut_at = k; do_write(); exc_pending = 0; cf_cut_at = -1; int calls_w = cf_calls; (void)calls_w;
        std::string lab = id + " output cut after operation #" + std::to_string(k) + ":";
        ps_table r; uint32_t ok = do_read(r); bool rthrew = exc_pending; exc_pending = 0;
        if (!rthrew && ok) { // loaded: must not differ in orders, knots or coefficients
          eqi(lab + " partial file loads with the same ndim", r.ndim, t.ndim);
          if (r.ndim == t.ndim) { for (unsigned d = 0; d < t.ndim; d++) { eqi(lab + " same order", r.order[d], t.order[d]); eqi(lab + " same nknots", r.nknots[d], t.nknots[d]); if (r.nknots[d] == t.nknots[d]) for (uint64_t i = 0; i < t.nknots[d]; i++) eqh(lab + " same knots", r.knots[d][i], t.knots[d][i]); }
            if (ncoef(r) == ncoef(t)) for (uint64_t i = 0; i < ncoef(t); i++) eqh(lab + " same coefficients", (vr64)r.coefficients[i], (vr64)t.coefficients[i]); else eqi(lab + " same coefficient count", ncoef(r), ncoef(t)); } }
        else eqi(lab + " partial file rejected", 1, 1); }
    }
  }
  printf("E2 cases=%d errors=%d\n", ncase, nerr); return 0;
}
