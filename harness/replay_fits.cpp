// Replay for C06 / C08 on the real library with real cfitsio: builds the table of the case block with distinct payload
// values, writes it (disk or memory), reads it back and compares every field; for fault cases ("faults") the write goes to
// a file whose size limit (RLIMIT_FSIZE) is one FITS block, so the flush at close fails; it must not report success.  exit 3 = REPRODUCED.
#include "mktable.hpp"
#include <cstdio>
#include <fitsio.h>
#include <cstring>
#include <fstream>
#include <unistd.h>
#include <signal.h>
#include <sys/resource.h>
int main(int argc, char** argv){
  std::ifstream in(argv[1]); std::string line, w; unsigned nd = 0; bool periods = false, mem = false, faults = false; std::vector<unsigned> ord; std::vector<uint64_t> nk; std::vector<std::pair<std::string, std::string>> aux; std::string what;
  while (std::getline(in, line)) { std::istringstream ls(line); if (!(ls >> w)) continue;
    if (w == "fits") { std::string id, tok; ls >> id; while (ls >> tok) { if (tok == "nd") { ls >> nd; ord.resize(nd); nk.resize(nd); } else if (tok == "periods") { int v; ls >> v; periods = v; } else if (tok == "mem") { int v; ls >> v; mem = v; } else if (tok == "faults") faults = true; } }
    else if (w == "what") { std::getline(ls, what); }
    else if (w == "dim") { unsigned d; std::string a; ls >> d >> a >> ord[d] >> a >> nk[d]; }
    else if (w == "aux") { std::string kv; ls >> kv; size_t bar = kv.find('|'); std::string v = kv.substr(bar + 1); for (auto& c : v) if (c == '~') c = ' '; aux.push_back({kv.substr(0, bar), v}); } }
  std::vector<std::vector<double>> kn(nd); uint64_t nc = 1; for (unsigned d = 0; d < nd; d++) { for (uint64_t i = 0; i < nk[d]; i++) kn[d].push_back(10.0 * d + i * 0.5); nc *= nk[d] - ord[d] - 1; }
  std::vector<float> cf(nc); for (uint64_t i = 0; i < nc; i++) cf[i] = 100.f + i; if (nc > 2) { cf[1] = -0.f; cf[2] = 1e-42f; }
  ST t; mk_table(t, ord, kn, cf); for (unsigned d = 0; d < nd; d++) { t.extents[d][0] = -3.5 - d; t.extents[d][1] = 77.25 + d; }
  if (periods) { t.periods = t.allocate<double>(nd); for (unsigned d = 0; d < nd; d++) t.periods[d] = 360.0 + d; }
  for (auto& a : aux) t.write_key(a.first.c_str(), a.second.c_str());
  int bad = 0;
  if (!faults && what.find("default") != std::string::npos && what.find("extent") != std::string::npos) {
    // a file without an EXTENTS extension (legacy layout): the reader must make up [knots[order], knots[nknots-order-1]]
    char path[] = "/var/tmp/psreplay_XXXXXX"; int fd = mkstemp(path); close(fd); t.write_fits(path);
    { fitsfile* f; int st = 0, hd = 0; fits_open_file(&f, path, READWRITE, &st); fits_movnam_hdu(f, IMAGE_HDU, (char*)"EXTENTS", 0, &st); fits_delete_hdu(f, &hd, &st); fits_close_file(f, &st); if (st) printf("could not remove the EXTENTS extension (status %d)\n", st); }
    ST r; try { r.read_fits(path); } catch (std::exception& e) { printf("read threw: %s\n", e.what()); bad = 1; }
    for (unsigned d = 0; d < nd && !bad; d++) if (r.extents[d][0] != t.knots[d][ord[d]] || r.extents[d][1] != t.knots[d][nk[d] - ord[d] - 1]) { printf("dimension %u: default extents [%g, %g], expected [%g, %g] = [knots[order], knots[nknots-order-1]]\n", d, r.extents[d][0], r.extents[d][1], t.knots[d][ord[d]], t.knots[d][nk[d] - ord[d] - 1]); bad = 1; }
    unlink(path);
  } else if (faults && what.find("output cut") != std::string::npos) {
    // byte-granularity prefixes of the real file: a prefix must be rejected or load with equal orders / knots / coefficients
    char path[] = "/var/tmp/psreplay_XXXXXX"; int fd = mkstemp(path); close(fd); t.write_fits(path);
    std::ifstream f(path, std::ios::binary); std::vector<char> bytes((std::istreambuf_iterator<char>(f)), std::istreambuf_iterator<char>()); f.close();
    for (size_t len = 0; len < bytes.size() && !bad; len += (len % 2880 == 0 ? 1 : (len % 2880 == 1 ? 1438 : (len % 2880 == 1439 ? 1440 : 1)))) {
      FILE* o = fopen(path, "wb"); fwrite(bytes.data(), 1, len, o); fclose(o); ST r; bool ok = false; try { ok = r.read_fits(path); } catch (std::exception&) { ok = false; }
      if (!ok) continue; bool diff = r.ndim != t.ndim; for (unsigned d = 0; d < nd && !diff; d++) diff = r.order[d] != t.order[d] || r.nknots[d] != t.nknots[d] || memcmp(r.knots[d], t.knots[d], 8 * t.nknots[d]); if (!diff) diff = r.get_ncoeffs() != t.get_ncoeffs() || memcmp(r.coefficients, t.coefficients, 4 * nc);
      if (diff) { printf("prefix of %zu bytes (of %zu) loads as a different table\n", len, bytes.size()); bad = 1; } }
    unlink(path);
  } else if (faults) {
    // a file-size limit makes the operating system refuse the data cfitsio flushes (at the latest when the file is closed)
    char path[] = "/var/tmp/psreplay_XXXXXX"; int fd = mkstemp(path); close(fd);
    signal(SIGXFSZ, SIG_IGN); struct rlimit rl, old; getrlimit(RLIMIT_FSIZE, &old); rl = old; rl.rlim_cur = 2880; setrlimit(RLIMIT_FSIZE, &rl);
    bool threw = false; try { t.write_fits(path); } catch (std::exception& e) { threw = true; }
    setrlimit(RLIMIT_FSIZE, &old);
    if (!threw) { ST r; bool ok = false; try { ok = r.read_fits(path); } catch (std::exception&) {} bool same = ok && r == t;
      if (!same) { printf("write_fits returned normally under a 2880-byte file size limit, but the file on disk %s\n", ok ? "holds a different table" : "cannot be read back"); bad = 1; } }
    unlink(path); }
  else { ST r; char path[] = "/var/tmp/psreplay_XXXXXX"; int fd = mkstemp(path); close(fd); std::pair<void*, size_t> mb{nullptr, 0};
    try { if (mem) { mb = t.write_fits_mem(); r.read_fits_mem(mb.first, mb.second); } else { t.write_fits(path); r.read_fits(path); } } catch (std::exception& e) { printf("round trip threw: %s\n", e.what()); bad = 1; }
    unlink(path);
    if (!bad) { if (!(t == r) || !(r == t)) { printf("operator== says the loaded table differs\n"); bad = 1; }
      for (unsigned d = 0; d < nd && !bad; d++) { if (r.order[d] != t.order[d] || r.nknots[d] != t.nknots[d] || r.naxes[d] != t.naxes[d] || r.strides[d] != t.strides[d] || memcmp(r.knots[d], t.knots[d], 8 * t.nknots[d]) || memcmp(r.extents[d], t.extents[d], 16)) { printf("dimension %u differs after the round trip\n", d); bad = 1; }
        if (periods && (!r.periods || r.periods[d] != t.periods[d])) { printf("period %u differs\n", d); bad = 1; } }
      if (!bad && memcmp(r.coefficients, t.coefficients, 4 * nc)) { printf("coefficients differ bitwise\n"); bad = 1; }
      if (!bad && r.naux != t.naux) { printf("naux %u != %u\n", r.naux, t.naux); bad = 1; }
      for (unsigned i = 0; i < t.naux && !bad; i++) { std::string a = t.aux[i][1], b = r.aux[i][1]; while (!a.empty() && a.back() == ' ') a.pop_back(); while (!b.empty() && b.back() == ' ') b.pop_back(); if (strcmp(t.aux[i][0], r.aux[i][0]) || a != b) { printf("aux entry %u: [%s]=[%s] read back as [%s]=[%s]\n", i, t.aux[i][0], t.aux[i][1], r.aux[i][0], r.aux[i][1]); bad = 1; } } } }
  printf(bad ? "REPRODUCED\n" : "HELD\n"); return bad ? 3 : 0;
}
