// E2 harness for C09 / C10 / C17: the IR-derived fit / grideval run natively in the exact-real domain on the semantic
// CHOLMOD model.  Data values, weights and smoothing strengths are symbolic; shapes, knots and abscissae concrete.
// The linear system that reaches CHOLMOD's solve (or the non-negative solver) is captured and proved equal, entry by
// entry, to the normal equations of the stated objective built by an independent oracle.
// case file lines:  "fit <id> nd N monodim M smoothing <per|one> porder <per|one> [skip a,b] [zero a,b] [rev]"
//                   "dim d order O porder P lam <0|v> knots k.. | coords c.."
//                   "grid <id> nd N [zeros a,b]" + dim lines (knots | coords)      "end"
#include <cstdio>
#include <cstdlib>
#include <cstring>
#include <csetjmp>
#include <string>
#include <vector>
#include <set>
#include <sstream>
#include <fstream>
#include <algorithm>
#define VR_SYM
extern "C" {
#include "ps_table.h"
#include "models.h"
#include <cholmod.h>
extern jmp_buf vs_jmp; extern int vs_failed; extern char vs_errmsg[512]; extern int exc_pending; extern int cm_live_objects;
void ir_w_fit(char* t, char* data, char* w, uint64_t nw, char* coords, char* ncoords, uint64_t ncv, char* orders, uint64_t no, char* knots, char* nknots, uint64_t nkv, char* sm, uint64_t nsm, char* po, uint64_t npo, uint32_t monodim);
char* ir_w_grideval(char* t, char* coords, char* ncoords, uint64_t ncv);
void ir_w_ndsparse_delete(char* nd);
}
struct ndsp { size_t rows, ndim; vr64* x; unsigned** i; unsigned* ranges; };     // mirror of struct ndsparse
static std::vector<vr64> capA, capb, sol; static uint64_t capn; static int ncap; static bool nonneg_solver;
extern "C" void vm_solve(uint64_t n, const vr64* A, const vr64* b, vr64* x){
  capn = n; capA.assign(A, A + n * n); capb.assign(b, b + n); sol.resize(n); ncap++;
  for (uint64_t j = 0; j < n; j++) { char nm[24]; snprintf(nm, 24, "s%llu", (unsigned long long)j); sol[j] = nonneg_solver ? vs_var_ge0(nm) : vs_var(nm); x[j] = sol[j]; }
}
// the non-negative solver is cut to its contract: it receives the normal equations and returns some s >= 0 (C11 is the claim about it)
extern "C" char* ir_nnls_normal_block3(char* AtA_, char* Atb_, uint32_t verbose, char* c){
  cholmod_sparse* A = (cholmod_sparse*)AtA_; cholmod_dense* B = (cholmod_dense*)Atb_; uint64_t n = A->nrow;
  std::vector<vr64> M(n * n, 0); long* Ap = (long*)A->p; long* Ai = (long*)A->i; vr64* Ax = (vr64*)A->x;
  for (uint64_t j = 0; j < n; j++) for (long k = Ap[j]; k < Ap[j + 1]; k++) { uint64_t i = Ai[k]; if (i <= j) { M[j * n + i] = Ax[k]; M[i * n + j] = Ax[k]; } }   // symmetric, upper triangle authoritative
  cholmod_dense* X = (cholmod_dense*)calloc(1, sizeof *X); X->nrow = n; X->ncol = 1; X->d = n; X->nzmax = n; X->x = calloc(n, 8); X->xtype = CHOLMOD_REAL; cm_live_objects++;
  nonneg_solver = true; vm_solve(n, M.data(), (vr64*)B->x, (vr64*)X->x); return (char*)X;
}
struct Dim { unsigned order = 0, porder = 0; bool lam = false; std::vector<std::string> knots, coords; };
static vr64 cdbh(const std::vector<vr64>& t, int j, int n, vr64 x){   // half-open Cox-de Boor at a concrete point (constants only)
  if (n == 0) return vs_q((vs_cmp_const(x, t[j]) >= 0 && vs_cmp_const(x, t[j + 1]) < 0) ? 1 : 0, 1);
  vr64 r = vs_q(0, 1);
  if (vs_cmp_const(t[j + n], t[j]) != 0) r = vs_add(r, vs_mul(vs_div(vs_sub(x, t[j]), vs_sub(t[j + n], t[j])), cdbh(t, j, n - 1, x)));
  if (vs_cmp_const(t[j + n + 1], t[j + 1]) != 0) r = vs_add(r, vs_mul(vs_div(vs_sub(t[j + n + 1], x), vs_sub(t[j + n + 1], t[j + 1])), cdbh(t, j + 1, n - 1, x)));
  return r;
}
typedef std::vector<std::vector<vr64>> Mat;
// coefficients of the p-th derivative of sum_j c_j B_{j,n}: iterated c'_i = (n-m+1)(c_{i+1}-c_i)/(t_{i+n+1}-t_{i+m})
static Mat deriv_matrix(const std::vector<vr64>& t, int n, int N, int p){
  Mat D(N, std::vector<vr64>(N, vs_q(0, 1))); for (int i = 0; i < N; i++) D[i][i] = vs_q(1, 1); int rows = N;
  for (int m = 1; m <= p; m++) { Mat E(rows - 1, std::vector<vr64>(N, vs_q(0, 1)));
    for (int i = 0; i < rows - 1; i++) { vr64 f = vs_div(vs_q(n - m + 1, 1), vs_sub(t[i + n + 1], t[i + m])); for (int c = 0; c < N; c++) E[i][c] = vs_mul(f, vs_sub(D[i + 1][c], D[i][c])); }
    D = E; rows--; }
  D.resize(rows); return D;
}
static void eqi(const std::string& l, long a, long b){ vs_prove_eq(vs_q(a, 1), vs_q(b, 1), l.c_str()); }
static std::vector<int> ilist(const std::string& s){ std::vector<int> o; std::stringstream ss(s); std::string x; while (std::getline(ss, x, ',')) if (!x.empty()) o.push_back(atoi(x.c_str())); return o; }

int main(int argc, char** argv){
  if (argc < 3) return 2;
  std::ifstream in(argv[1]); vs_open(argv[2]); std::vector<std::string> lines; std::string line; while (std::getline(in, line)) lines.push_back(line);
  int ncase = 0, nerr = 0;
  for (size_t li = 0; li < lines.size(); li++) {
    std::istringstream ls(lines[li]); std::string kind; if (!(ls >> kind) || (kind != "fit" && kind != "grid")) continue;
    std::string id, tok; unsigned ND = 0; int monodim = -1; bool one_sm = false, one_po = false, rev = false; std::vector<int> skip, zero, zeros;
    ls >> id; while (ls >> tok) { if (tok == "nd") ls >> ND; else if (tok == "monodim") ls >> monodim; else if (tok == "smoothing") { std::string v; ls >> v; one_sm = v == "one"; } else if (tok == "porder") { std::string v; ls >> v; one_po = v == "one"; }
      else if (tok == "skip") { std::string v; ls >> v; skip = ilist(v); } else if (tok == "zero") { std::string v; ls >> v; zero = ilist(v); } else if (tok == "zeros") { std::string v; ls >> v; zeros = ilist(v); } else if (tok == "rev") rev = true; }
    std::vector<Dim> dims(ND);
    for (li++; li < lines.size() && lines[li] != "end"; li++) { std::istringstream ds(lines[li]); std::string w; ds >> w; if (w != "dim") continue; unsigned d; ds >> d; std::string t; bool inco = false;
      while (ds >> t) { if (t == "order") ds >> dims[d].order; else if (t == "porder") ds >> dims[d].porder; else if (t == "lam") { std::string v; ds >> v; dims[d].lam = v != "0"; } else if (t == "knots") inco = false; else if (t == "|") {} else if (t == "coords") inco = true; else (inco ? dims[d].coords : dims[d].knots).push_back(t); } }
    ncase++; vs_reset(0); vs_note("case", id.c_str()); exc_pending = 0; ncap = 0; nonneg_solver = false; int cm0 = cm_live_objects;
    if (setjmp(vs_jmp)) { nerr++; continue; }
    std::vector<std::vector<vr64>> kn(ND), co(ND); std::vector<uint64_t> nax(ND), str(ND);
    for (unsigned d = 0; d < ND; d++) { for (auto& k : dims[d].knots) kn[d].push_back(vs_qstr(k.c_str())); for (auto& c : dims[d].coords) co[d].push_back(vs_qstr(c.c_str())); nax[d] = kn[d].size() - dims[d].order - 1; }
    uint64_t N = 1; for (int d = ND - 1; d >= 0; d--) { str[d] = N; N *= nax[d]; }
    // per-dimension collocation matrices B_d[point][spline] from the independent Cox-de Boor
    std::vector<Mat> B(ND); for (unsigned d = 0; d < ND; d++) { B[d].assign(co[d].size(), std::vector<vr64>(nax[d])); for (size_t r = 0; r < co[d].size(); r++) for (uint64_t j = 0; j < nax[d]; j++) B[d][r][j] = cdbh(kn[d], j, dims[d].order, co[d][r]); }
    ps_table t; memset(&t, 0, sizeof t);
    if (kind == "fit") {
      // data rows: the full grid minus skipped cells, optionally listed in reverse order
      std::vector<std::vector<unsigned>> rowsidx; { std::vector<unsigned> ix(ND, 0); int cell = 0; while (true) { if (std::find(skip.begin(), skip.end(), cell) == skip.end()) rowsidx.push_back(ix); cell++; int d = ND - 1; while (d >= 0 && ++ix[d] == co[d].size()) { ix[d] = 0; d--; } if (d < 0) break; } }
      if (rev) std::reverse(rowsidx.begin(), rowsidx.end());
      size_t R = rowsidx.size(); ndsp data; data.rows = R; data.ndim = ND; data.x = new vr64[R]; data.i = new unsigned*[ND]; data.ranges = new unsigned[ND]; std::vector<vr64> y(R), w(R);
      for (unsigned d = 0; d < ND; d++) { data.i[d] = new unsigned[R]; data.ranges[d] = co[d].size(); for (size_t r = 0; r < R; r++) data.i[d][r] = rowsidx[r][d]; }
      for (size_t r = 0; r < R; r++) { char nm[24]; snprintf(nm, 24, "y%zu", r); y[r] = vs_var(nm); data.x[r] = y[r]; snprintf(nm, 24, "w%zu", r); w[r] = std::find(zero.begin(), zero.end(), (int)r) != zero.end() ? vs_q(0, 1) : vs_var_between(nm, vs_q(0, 1), VS_NOBOUND); }
      std::vector<vr64> lam(ND); vr64 shared = vs_var_between("lam", vs_q(0, 1), VS_NOBOUND);
      for (unsigned d = 0; d < ND; d++) { char nm[24]; snprintf(nm, 24, "lam%u", d); lam[d] = one_sm ? (dims[0].lam ? shared : vs_q(0, 1)) : (dims[d].lam ? vs_var_between(nm, vs_q(0, 1), VS_NOBOUND) : vs_q(0, 1)); }
      std::vector<uint32_t> ord(ND), po(ND); std::vector<vr64*> cp(ND), kp(ND); std::vector<size_t> cn(ND), knn(ND);
      for (unsigned d = 0; d < ND; d++) { ord[d] = dims[d].order; po[d] = one_po ? dims[0].porder : dims[d].porder; cp[d] = co[d].data(); cn[d] = co[d].size(); kp[d] = kn[d].data(); knn[d] = kn[d].size(); }
      std::vector<vr64> smv = one_sm ? std::vector<vr64>{lam[0]} : lam; std::vector<uint32_t> pov = one_po ? std::vector<uint32_t>{po[0]} : po;
      ir_w_fit((char*)&t, (char*)&data, (char*)w.data(), R, (char*)cp.data(), (char*)cn.data(), ND, (char*)ord.data(), ND, (char*)kp.data(), (char*)knn.data(), ND, (char*)smv.data(), smv.size(), (char*)pov.data(), pov.size(), monodim < 0 ? 0xffffffffu : (uint32_t)monodim);
      if (exc_pending) vs_error("fit threw on a well-posed problem");
      if (getenv("VS_DEBUG")) for (uint64_t a = 0; a < capn; a++) for (uint64_t b = 0; b < capn; b++) fprintf(stderr, "A[%llu][%llu] = %.60s\n", (unsigned long long)a, (unsigned long long)b, vs_show(capA[b * capn + a]));
      eqi(id + " exactly one linear system reaches the solver", ncap, 1); eqi(id + " system size == number of coefficients", capn, N);
      eqi(id + " CHOLMOD objects balanced", cm_live_objects, cm0);
      // T-spline transformation in the monotonic dimension: B <- B L, D <- D L (L lower-triangular ones)
      std::vector<Mat> Bt = B; std::vector<Mat> Dm(ND);
      for (unsigned d = 0; d < ND; d++) { Dm[d] = deriv_matrix(kn[d], dims[d].order, nax[d], po[d]);
        if ((int)d == monodim) { for (auto& row : Bt[d]) { std::vector<vr64> nr(nax[d]); vr64 acc = vs_q(0, 1); for (int j = nax[d] - 1; j >= 0; j--) { acc = vs_add(acc, row[j]); nr[j] = acc; } row = nr; }
                                 for (auto& row : Dm[d]) { std::vector<vr64> nr(nax[d]); vr64 acc = vs_q(0, 1); for (int j = nax[d] - 1; j >= 0; j--) { acc = vs_add(acc, row[j]); nr[j] = acc; } row = nr; } } }
      std::vector<Mat> P(ND); for (unsigned d = 0; d < ND; d++) { P[d].assign(nax[d], std::vector<vr64>(nax[d], vs_q(0, 1))); for (auto& row : Dm[d]) for (uint64_t a = 0; a < nax[d]; a++) for (uint64_t b = 0; b < nax[d]; b++) P[d][a][b] = vs_add(P[d][a][b], vs_mul(row[a], row[b])); }
      auto multi = [&](uint64_t f){ std::vector<uint64_t> m(ND); for (unsigned d = 0; d < ND; d++) { m[d] = f / str[d]; f %= str[d]; } return m; };
      for (uint64_t a = 0; a < N; a++) { auto ma = multi(a);
        vr64 bref = vs_q(0, 1); for (size_t r = 0; r < R; r++) { vr64 pa = vs_q(1, 1); for (unsigned d = 0; d < ND; d++) pa = vs_mul(pa, Bt[d][rowsidx[r][d]][ma[d]]); bref = vs_add(bref, vs_mul(vs_mul(w[r], y[r]), pa)); }
        vs_prove_eq(capb[a], bref, (id + " right-hand side == B^T W y").c_str());
        for (uint64_t b = a; b < N; b++) { auto mb = multi(b);
          vr64 aref = vs_q(0, 1);
          for (size_t r = 0; r < R; r++) { vr64 pa = vs_q(1, 1); bool z = false; for (unsigned d = 0; d < ND && !z; d++) { vr64 f = vs_mul(Bt[d][rowsidx[r][d]][ma[d]], Bt[d][rowsidx[r][d]][mb[d]]); if (vs_is_zero(f)) z = true; pa = vs_mul(pa, f); } if (!z) aref = vs_add(aref, vs_mul(w[r], pa)); }
          for (unsigned d = 0; d < ND; d++) { bool same = true; for (unsigned e = 0; e < ND; e++) if (e != d && ma[e] != mb[e]) same = false; if (same) aref = vs_add(aref, vs_mul(lam[d], P[d][ma[d]][mb[d]])); }
          vs_prove_eq(capA[b * N + a], aref, (id + " matrix == B^T W B + sum lambda_d D_d^T D_d").c_str()); } }
      // output table: coefficients are the solver's answer (cumulative sums along the monotonic dimension), metadata as specified
      for (uint64_t a = 0; a < N; a++) { auto ma = multi(a); vr64 expect = sol[a];
        if (monodim >= 0) { expect = vs_q(0, 1); for (uint64_t j = 0; j <= ma[monodim]; j++) { uint64_t f = a - (ma[monodim] - j) * str[monodim]; expect = vs_add(expect, sol[f]); } }
        vs_prove_eq((vr64)t.coefficients[a], expect, (id + (monodim >= 0 ? " coefficient == cumulative sum of the non-negative solution" : " coefficient == solution of the linear system")).c_str());
        if (monodim >= 0 && ma[monodim] > 0) vs_prove_nonneg(vs_sub((vr64)t.coefficients[a], (vr64)t.coefficients[a - str[monodim]]), (id + " coefficients non-decreasing along the monotonic dimension").c_str()); }
      eqi(id + " ndim", t.ndim, ND);
      for (unsigned d = 0; d < ND; d++) { eqi(id + " order", t.order[d], dims[d].order); eqi(id + " nknots", t.nknots[d], kn[d].size()); eqi(id + " naxes", t.naxes[d], nax[d]); eqi(id + " strides", t.strides[d], str[d]);
        for (size_t i = 0; i < kn[d].size(); i++) vs_prove_eq(t.knots[d][i], kn[d][i], (id + " knots copied").c_str());
        vs_prove_eq(t.extents[d][0], kn[d][dims[d].order], (id + " lower extent").c_str()); vs_prove_eq(t.extents[d][1], kn[d][kn[d].size() - dims[d].order - 1], (id + " upper extent").c_str()); }
    } else {
      // grid evaluation of a table with symbolic (non-zero) and exactly-zero coefficients
      t.ndim = ND; t.order = new uint32_t[ND]; t.nknots = new uint64_t[ND]; t.naxes = new uint64_t[ND]; t.strides = new uint64_t[ND]; t.knots = new vr64*[ND];
      for (unsigned d = 0; d < ND; d++) { t.order[d] = dims[d].order; t.nknots[d] = kn[d].size(); t.naxes[d] = nax[d]; t.strides[d] = str[d]; t.knots[d] = kn[d].data(); }
      t.coefficients = new vr32[N]; std::vector<vr64> c(N);
      for (uint64_t a = 0; a < N; a++) { char nm[24]; snprintf(nm, 24, "c%llu", (unsigned long long)a); c[a] = std::find(zeros.begin(), zeros.end(), (int)a) != zeros.end() ? vs_q(0, 1) : vs_var_nonzero(nm); t.coefficients[a] = (vr32)c[a]; }
      std::vector<vr64*> cp(ND); std::vector<size_t> cn(ND); for (unsigned d = 0; d < ND; d++) { cp[d] = co[d].data(); cn[d] = co[d].size(); }
      ndsp* nd = (ndsp*)ir_w_grideval((char*)&t, (char*)cp.data(), (char*)cn.data(), ND);
      if (exc_pending || !nd) vs_error("grideval threw");
      eqi(id + " result has the table's dimension count", nd->ndim, ND);
      for (unsigned d = 0; d < ND; d++) eqi(id + " index range == grid length", nd->ranges[d], co[d].size());
      uint64_t G = 1; std::vector<uint64_t> gs(ND); for (int d = ND - 1; d >= 0; d--) { gs[d] = G; G *= co[d].size(); }
      std::vector<vr64> acc(G, vs_q(0, 1)); std::vector<bool> listed(G, false);
      for (size_t r = 0; r < nd->rows; r++) { uint64_t f = 0; bool ok = true; for (unsigned d = 0; d < ND; d++) { if (nd->i[d][r] >= co[d].size()) ok = false; f += nd->i[d][r] * gs[d]; }
        if (!ok) { eqi(id + " listed index below its range", 0, 1); continue; } acc[f] = vs_add(acc[f], nd->x[r]); listed[f] = true; }
      for (uint64_t f = 0; f < G; f++) { std::vector<uint64_t> g(ND); uint64_t q = f; bool inside = true; for (unsigned d = 0; d < ND; d++) { g[d] = q / gs[d]; q %= gs[d]; if (!(vs_cmp_const(co[d][g[d]], kn[d].front()) > 0 && vs_cmp_const(co[d][g[d]], kn[d].back()) < 0)) inside = false; }
        vr64 ref = vs_q(0, 1); for (uint64_t a = 0; a < N; a++) { vr64 p = c[a]; uint64_t qa = a; for (unsigned d = 0; d < ND; d++) { p = vs_mul(p, B[d][g[d]][qa / str[d]]); qa %= str[d]; } ref = vs_add(ref, p); }
        if (inside) vs_prove_eq(acc[f], ref, (id + (listed[f] ? " listed grid value == pointwise definition" : " unlisted grid point has value zero")).c_str());
        else if (listed[f]) vs_prove_eq(acc[f], ref, (id + " listed value outside the knot range == half-open definition").c_str()); }
      ir_w_ndsparse_delete((char*)nd);
      eqi(id + " CHOLMOD objects balanced", cm_live_objects, cm0);
    }
    vs_prove_nonzero_divisors((id + " divisor").c_str());
  }
  printf("E2 cases=%d errors=%d\n", ncase, nerr); return 0;
}
