/* C mirror of photospline::splinetable<std::allocator<void>> for the CBMC harnesses; offsets are
 * checked against ps_layout.h, generated from the real class on every run. */
#ifndef PS_TABLE_H
#define PS_TABLE_H
#include "vrt.h"
#include "ps_layout.h"
#ifdef __cplusplus
#define _Static_assert static_assert
#endif
struct ps_table {
  uint32_t ndim; uint32_t* order; vr64** knots; uint64_t* nknots; vr64** extents; vr64* periods;
  vr32* coefficients; uint64_t* naxes; uint64_t* strides; uint32_t naux; char*** aux; char allocator;
};
#define PS_CHK(m) _Static_assert(offsetof(struct ps_table, m) == PS_OFF_##m, "layout of splinetable::" #m " changed")
PS_CHK(ndim); PS_CHK(order); PS_CHK(knots); PS_CHK(nknots); PS_CHK(extents); PS_CHK(periods); PS_CHK(coefficients);
PS_CHK(naxes); PS_CHK(strides); PS_CHK(naux); PS_CHK(aux); PS_CHK(allocator);
_Static_assert(sizeof(struct ps_table) == PS_SIZEOF_TABLE, "sizeof splinetable changed");
#endif
