// Replay for C16: exhaustive concrete run of the failing operation class on the real library (all strings of the given
// lengths over the check's alphabet for the operation, fixed store) against an ordered-map model.  exit 3 = REPRODUCED.
#include "mktable.hpp"
#include <cstdio>
#include <cstring>
#include <fstream>
#include <functional>
static const char A[9] = {'A', 'O', 'Z', '7', 'a', '-', '=', '\'', ' '};
static bool reserved(const std::string& k){ for (const char* p : {"BITPIX", "SIMPLE", "TYPE", "ORDER", "NAXIS", "PERIOD", "EXTEND", "COMMENT"}) if (k.compare(0, strlen(p), p) == 0) return true; return false; }
int main(int argc, char** argv){
  std::ifstream in(argv[1]); std::string w, op; unsigned naux = 0, kl = 0, vl = 0, digits = 1; in >> w >> op >> w >> naux >> w >> kl >> w >> vl >> w >> digits; std::string rest; std::getline(in, rest);
  int match = -1; char first = 'N'; size_t p = rest.find("MATCH="); if (p != std::string::npos) match = atoi(rest.c_str() + p + 6); p = rest.find("FIRST="); if (p != std::string::npos) first = (char)atoi(rest.c_str() + p + 6);
  int bad = 0; long tried = 0;
  std::function<void(std::string, unsigned, std::function<void(const std::string&)>)> all = [&](std::string pre, unsigned n, std::function<void(const std::string&)> f){ if (pre.size() == n) { f(pre); return; } for (char c : A) all(pre + c, n, f); };
  std::vector<std::pair<std::string, std::string>> store0; for (unsigned i = 0; i < naux; i++) store0.push_back({std::string(1, 'K' + i) + "A7", "7" + std::string(i, '1')});
  auto run_one = [&](const std::string& key, const std::string& val){ tried++;
    ST t; std::vector<std::vector<double>> kn{{0, 1, 2, 3}}; mk_table(t, {1}, kn, {1, 2});
    t.naux = naux; t.aux = naux ? t.allocate<char**>(naux) : nullptr; for (unsigned i = 0; i < naux; i++) { t.aux[i] = t.allocate<char*>(2); t.aux[i][0] = t.allocate<char>(store0[i].first.size() + 1); strcpy(t.aux[i][0], store0[i].first.c_str()); t.aux[i][1] = t.allocate<char>(store0[i].second.size() + 1); strcpy(t.aux[i][1], store0[i].second.c_str()); }
    auto model = store0; bool threw = false; int idx = -1; for (unsigned i = 0; i < model.size(); i++) if (model[i].first == key) { idx = i; break; }
    if (op == "OP_GET") { const char* v = t.get_aux_value(key.c_str()); if ((idx < 0) != (v == nullptr) || (v && model[idx].second != v)) { printf("get_aux_value(%s) wrong\n", key.c_str()); bad = 1; } return; }
    if (op == "OP_READ_INT") { int out = 0; bool ok = t.read_key(key.c_str(), out); if (idx >= 0) { const std::string& s = model[idx].second; bool dig = !s.empty() && s.find_first_not_of("0123456789") == std::string::npos; if (dig && (!ok || out != atoi(s.c_str()))) { printf("read_key<int>(%s) of [%s] gives ok=%d %d\n", key.c_str(), s.c_str(), ok, out); bad = 1; } } else if (ok) { printf("read_key<int> of an absent key succeeded\n"); bad = 1; } return; }
    try { if (op == "OP_WRITE_INT") t.write_key(key.c_str(), (int)atoi(val.c_str())); else t.write_key(key.c_str(), val.c_str()); } catch (std::exception&) { threw = true; }
    bool lower = false, eq = false, badshort = false; for (char c : key) { if (c >= 'a' && c <= 'z') lower = true; if (c == '=') eq = true; if (!((c >= 'A' && c <= 'Z') || (c >= '0' && c <= '9'))) badshort = true; }
    size_t maxdata = key.size() <= 8 ? 68 : 80 - (13 + key.size());
    bool must_reject = reserved(key) || lower || eq || (op == "OP_WRITE_STR" && val.size() > maxdata), must_accept = !reserved(key) && key.size() >= 1 && key.size() <= 8 && !badshort && val.size() <= maxdata;
    if ((must_reject && !threw) || (must_accept && threw)) { printf("write_key(%s,%s): threw=%d must_reject=%d must_accept=%d\n", key.c_str(), val.c_str(), threw, must_reject, must_accept); bad = 1; }
    if (!threw) { if (idx >= 0) model[idx].second = val; else model.push_back({key, val}); }
    if (t.naux != model.size()) { printf("write_key(%s,%s): store has %u entries, model %zu\n", key.c_str(), val.c_str(), t.naux, model.size()); bad = 1; return; }
    for (unsigned i = 0; i < t.naux; i++) if (model[i].first != t.aux[i][0] || model[i].second != t.aux[i][1]) { printf("write_key(%s,%s): entry %u is [%s]=[%s], model [%s]=[%s]\n", key.c_str(), val.c_str(), i, t.aux[i][0], t.aux[i][1], model[i].first.c_str(), model[i].second.c_str()); bad = 1; }
  };
  std::vector<std::string> keys; if (match >= 0 && match < (int)naux) keys.push_back(store0[match].first); else { unsigned n = std::min(kl, 4u); all(kl ? std::string(1, first) : std::string(), n, [&](const std::string& k){ keys.push_back(k + std::string(kl - n, 'B')); }); }
  std::vector<std::string> vals; if (op == "OP_WRITE_INT") { std::string d = std::string(1, '1') + std::string(digits - 1, '0'); vals = {d, "-" + d, std::string(digits, '9').substr(0, 9)}; } else { unsigned n = std::min(vl, 3u); all("", n, [&](const std::string& v){ vals.push_back(v + std::string(vl - n, 'x')); }); }
  for (auto& k : keys) for (auto& v : vals) { if (bad) break; run_one(k, v); }
  printf("%ld concrete operations\n%s\n", tried, bad ? "REPRODUCED" : "HELD"); return bad ? 3 : 0;
}
