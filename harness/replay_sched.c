/* C12 replay: run the REAL walk_descents / evaluate_descent (cholesky_solve.c of /repo, real pthreads, real CHOLMOD)
 * under the schedule a counterexample prescribes.
 *
 *   replay_sched <spec>      spec: lines "nw N", "nf N", "mask M", "sched t0 t1 t2 ...", optional "data D"
 *
 * The schedule is a sequence of thread indices (0 = coordinator, k = k-th created worker); the i-th occurrence of t means
 * "t performs its pending blocking call (start / mutex_lock / return from cond_wait / join) and runs up to its next one",
 * exactly the step of the sequentialised model.  pthread_create, pthread_mutex_lock, pthread_cond_wait and pthread_join of
 * cholesky_solve.o are linked through --wrap: a thread arriving at one of these calls ends its segment and waits for its
 * next turn before calling the real primitive (after a real cond_wait returns, the mutex is released, the turn awaited
 * and the mutex re-taken: a legal, merely slow, wake-up).  When the prescribed schedule is exhausted every thread runs
 * freely on the real primitives and a watchdog decides: walk_descents returned -> exit 0; still blocked after the grace
 * period -> "HANG" and exit 1.  With -DREPLAY_RESULT the outputs are printed (determinism replays compare two runs). */
#define _GNU_SOURCE
#include <pthread.h>
#include <stdio.h>
#include <stdlib.h>
#include <string.h>
#include <unistd.h>
#include <time.h>
#include <stdatomic.h>
#include <cholmod.h>

int walk_descents(cholmod_sparse *AtA_F, cholmod_dense *Atb_F, cholmod_dense *x, cholmod_dense *x_F, long *F, long *nF_, long *H1, long *nH1_,
    double *residual, int *residual_calcs, int verbose, cholmod_common *c);

#define MAXS 256
#define MAXT 8
static int sched[MAXS], nsched;
static atomic_int pos;                 /* number of completed segments */
static atomic_int freerun;             /* schedule exhausted or abandoned */
static atomic_int returned;
static atomic_int ncreated;
static __thread int me = 0;            /* model thread index of the calling thread */
static __thread int occ = 0;           /* how many of my occurrences have been consumed */
static int in_segment[MAXT];

int __real_pthread_mutex_lock(pthread_mutex_t*);
int __real_pthread_cond_wait(pthread_cond_t*, pthread_mutex_t*);
int __real_pthread_create(pthread_t*, const pthread_attr_t*, void* (*)(void*), void*);
int __real_pthread_join(pthread_t, void**);

static double now(void){ struct timespec ts; clock_gettime(CLOCK_MONOTONIC, &ts); return ts.tv_sec + 1e-9 * ts.tv_nsec; }
static int my_next_index(void){
  int seen = 0;
  for (int i = 0; i < nsched; i++) if (sched[i] == me) { if (seen == occ) return i; seen++; }
  return -1;
}
static void end_segment(void){ if (in_segment[me]) { in_segment[me] = 0; atomic_fetch_add(&pos, 1); } }
static void await_turn(const char* what){
  end_segment();
  if (atomic_load(&freerun)) return;
  int idx = my_next_index();
  double t0 = now();
  while (!atomic_load(&freerun)) {
    int p = atomic_load(&pos);
    if (p >= nsched) { atomic_store(&freerun, 1); break; }             /* schedule exhausted: everyone runs freely */
    if (idx >= 0 && p == idx) { occ++; in_segment[me] = 1; return; }
    if (now() - t0 > 3.0) { fprintf(stderr, "replay: thread %d waited 3 s for its turn at %s (position %d of %d): the real run diverged from the schedule, running freely\n", me, what, p, nsched); atomic_store(&freerun, 1); break; }
    usleep(100);
  }
}
int __wrap_pthread_mutex_lock(pthread_mutex_t* m){ await_turn("mutex_lock"); return __real_pthread_mutex_lock(m); }
int __wrap_pthread_cond_wait(pthread_cond_t* cv, pthread_mutex_t* m){
  end_segment();
  if (atomic_load(&pos) >= nsched) atomic_store(&freerun, 1);
  int r = __real_pthread_cond_wait(cv, m);
  if (!atomic_load(&freerun)) { pthread_mutex_unlock(m); await_turn("cond_wait wake-up"); __real_pthread_mutex_lock(m); }
  return r;
}
int __wrap_pthread_join(pthread_t t, void** rv){ await_turn("join"); return __real_pthread_join(t, rv); }
struct tramp { void* (*fn)(void*); void* arg; int idx; };
static void* trampoline(void* p){ struct tramp t = *(struct tramp*)p; free(p); me = t.idx; occ = 0; await_turn("thread start"); return t.fn(t.arg); }
int __wrap_pthread_create(pthread_t* tid, const pthread_attr_t* a, void* (*fn)(void*), void* arg){
  struct tramp* t = malloc(sizeof *t); t->fn = fn; t->arg = arg; t->idx = atomic_fetch_add(&ncreated, 1) + 1;
  return __real_pthread_create(tid, a, trampoline, t);
}

static void* watchdog(void* p){ (void)p;
  double t0 = now(); double quiet = 0;
  for (;;) {
    usleep(20000);
    if (atomic_load(&returned)) return 0;
    if (atomic_load(&freerun)) { if (quiet == 0) quiet = now(); if (now() - quiet > 3.0) break; }
    if (now() - t0 > 30.0) break;
  }
  printf("HANG: walk_descents has not returned %.1f s after the prescribed schedule was exhausted (%d of %d segments); every thread is blocked in a real pthread primitive\n",
         now() - (quiet ? quiet : t0), atomic_load(&pos), nsched);
  fflush(stdout); _exit(1);
}

int main(int argc, char** argv){
  if (argc < 2) { fprintf(stderr, "usage: %s spec\n", argv[0]); return 2; }
  FILE* f = fopen(argv[1], "r"); if (!f) { perror(argv[1]); return 2; }
  int nw = 1, nf = 1, mask = 0, data = 0; char line[4096];
  while (fgets(line, sizeof line, f)) {
    if (sscanf(line, "nw %d", &nw) == 1 || sscanf(line, "nf %d", &nf) == 1 || sscanf(line, "mask %d", &mask) == 1 || sscanf(line, "data %d", &data) == 1) continue;
    if (!strncmp(line, "sched", 5)) { char* p = line + 5; int v, n; while (sscanf(p, "%d%n", &v, &n) == 1 && nsched < MAXS) { sched[nsched++] = v; p += n; } }
  }
  fclose(f);
  char env[16]; snprintf(env, sizeof env, "%d", nw); setenv("OMP_NUM_THREADS", env, 1); unsetenv("GOTO_NUM_THREADS");
  cholmod_common c; cholmod_l_start(&c);
  int nvar = nf + 1;
  cholmod_dense* x = cholmod_l_zeros(nvar, 1, CHOLMOD_REAL, &c); cholmod_dense* xF = cholmod_l_zeros(nf, 1, CHOLMOD_REAL, &c);
  cholmod_dense* Atb = cholmod_l_zeros(nf, 1, CHOLMOD_REAL, &c);
  long* F = malloc(nf * sizeof(long)); long* H1 = calloc(nvar, sizeof(long)); long nF = nf, nH1 = 0;
  for (int i = 0; i < nvar; i++) ((double*)x->x)[i] = i + 1;
  for (int i = 0; i < nf; i++) { ((double*)xF->x)[i] = ((mask >> i) & 1) ? -1.0 : 1.0; F[i] = i + 1; }
  /* AtA_F = identity; data 0: A'b = x_F (the unconstrained minimum is x_F: every step towards it reduces the residual);
   * data 1: A'b = x[F] (the current point is the minimum: no trial reduces the residual until the last one is taken) */
  cholmod_sparse* AtA = cholmod_l_speye(nf, nf, CHOLMOD_REAL, &c); AtA->stype = 1;
  for (int i = 0; i < nf; i++) ((double*)Atb->x)[i] = data == 0 ? ((double*)xF->x)[i] : ((double*)x->x)[F[i]];
  double residual = 0; int calcs = 0;
  pthread_t wd; __real_pthread_create(&wd, 0, watchdog, 0);
  me = 0; occ = 0;
  await_turn("coordinator start");
  int feasible = walk_descents(AtA, Atb, x, xF, F, &nF, H1, &nH1, &residual, &calcs, 0, &c);
  atomic_store(&returned, 1);
  printf("RETURNED feasible=%d nH1=%ld residual=%.17g calcs=%d x=", feasible, nH1, residual, calcs);
  for (int i = 0; i < nvar; i++) printf("%.17g ", ((double*)x->x)[i]);
  printf("H1="); for (long i = 0; i < nH1; i++) printf("%ld ", H1[i]);
  printf("segments=%d/%d%s\n", atomic_load(&pos), nsched, atomic_load(&freerun) ? " (free run at the end)" : "");
  return 0;
}
