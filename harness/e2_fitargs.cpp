// E2 harness for C13: fit() with one argument perturbed, run natively in the exact-real domain on the semantic CHOLMOD model
// with the generated code, the models and this harness compiled with AddressSanitizer: every load/store the translated
// fit / glam / splineutil code performs is checked against the real block sizes while data values, weights and smoothing
// are symbolic.  One case per process (a memory error aborts it; the driver reports that as the violation).
// case file: "fitargs <id> nd N mut <name>" / "dim d order O porder P knots k.. | coords c.." / "end"
#include <cstdio>
#include <cstdlib>
#include <cstring>
#include <csetjmp>
#include <string>
#include <vector>
#include <sstream>
#include <fstream>
#include <algorithm>
#ifndef VR_SYM
#define VR_SYM
#endif
extern "C" {
#include "ps_table.h"
#include "models.h"
#include <cholmod.h>
extern jmp_buf vs_jmp; extern int exc_pending, exc_type; extern int cm_live_objects;
void ir_w_fit(char* t, char* data, char* w, uint64_t nw, char* coords, char* ncoords, uint64_t ncv, char* orders, uint64_t no, char* knots, char* nknots, uint64_t nkv, char* sm, uint64_t nsm, char* po, uint64_t npo, uint32_t monodim);
void ir_w_destroy(char* t);
}
struct ndsp { size_t rows, ndim; vr64* x; unsigned** i; unsigned* ranges; };
extern "C" void vm_solve(uint64_t n, const vr64* A, const vr64* b, vr64* x){ (void)A; (void)b; for (uint64_t j = 0; j < n; j++) { char nm[24]; snprintf(nm, 24, "s%llu", (unsigned long long)j); x[j] = vs_var(nm); } }
extern "C" char* ir_nnls_normal_block3(char* AtA_, char* Atb_, uint32_t verbose, char* c){ (void)Atb_; (void)verbose; (void)c;
  cholmod_sparse* A = (cholmod_sparse*)AtA_; uint64_t n = A->nrow; cholmod_dense* X = (cholmod_dense*)calloc(1, sizeof *X); X->nrow = n; X->ncol = 1; X->d = n; X->nzmax = n; X->x = calloc(n ? n : 1, 8); X->xtype = CHOLMOD_REAL; cm_live_objects++;
  for (uint64_t j = 0; j < n; j++) { char nm[24]; snprintf(nm, 24, "n%llu", (unsigned long long)j); ((vr64*)X->x)[j] = vs_var_ge0(nm); } return (char*)X; }
struct Dim { unsigned order = 0, porder = 0; std::vector<std::string> knots, coords; };
static void eqi(const std::string& l, long a, long b){ vs_prove_eq(vs_q(a, 1), vs_q(b, 1), l.c_str()); }
// exactly sized heap copies: the sanitizer sees the true container lengths
template<class T> static T* exact(const std::vector<T>& v){ T* p = (T*)malloc(v.size() * sizeof(T) + (v.empty() ? 1 : 0)); if (!v.empty()) memcpy(p, v.data(), v.size() * sizeof(T)); return p; }

int main(int argc, char** argv){
  if (argc < 3) return 2;
  std::ifstream in(argv[1]); vs_open(argv[2]); std::vector<std::string> lines; std::string line; while (std::getline(in, line)) lines.push_back(line);
  for (size_t li = 0; li < lines.size(); li++) { std::istringstream ls(lines[li]); std::string kind; if (!(ls >> kind) || kind != "fitargs") continue;
    std::string id, tok, mut; unsigned ND = 0; ls >> id; while (ls >> tok) { if (tok == "nd") ls >> ND; else if (tok == "mut") ls >> mut; }
    std::vector<Dim> dims(ND);
    for (li++; li < lines.size() && lines[li] != "end"; li++) { std::istringstream ds(lines[li]); std::string w; ds >> w; if (w != "dim") continue; unsigned d; ds >> d; std::string t; bool inco = false;
      while (ds >> t) { if (t == "order") ds >> dims[d].order; else if (t == "porder") ds >> dims[d].porder; else if (t == "knots") inco = false; else if (t == "|") {} else if (t == "coords") inco = true; else (inco ? dims[d].coords : dims[d].knots).push_back(t); } }
    vs_reset(0); vs_note("case", id.c_str()); exc_pending = 0;
    if (setjmp(vs_jmp)) { printf("E2 aborted\n"); return 0; }
    std::vector<std::vector<vr64>> kn(ND), co(ND);
    for (unsigned d = 0; d < ND; d++) { for (auto& k : dims[d].knots) kn[d].push_back(vs_qstr(k.c_str())); for (auto& c : dims[d].coords) co[d].push_back(vs_qstr(c.c_str())); }
    // the full data grid
    std::vector<std::vector<unsigned>> rowsidx; { std::vector<unsigned> ix(ND, 0); while (ND) { rowsidx.push_back(ix); int d = ND - 1; while (d >= 0 && ++ix[d] == co[d].size()) { ix[d] = 0; d--; } if (d < 0) break; } }
    size_t R = rowsidx.size(); std::vector<vr64> y(R), w(R); std::vector<std::vector<unsigned>> idx(ND, std::vector<unsigned>(R)); std::vector<unsigned> ranges(ND);
    for (unsigned d = 0; d < ND; d++) { ranges[d] = co[d].size(); for (size_t r = 0; r < R; r++) idx[d][r] = rowsidx[r][d]; }
    for (size_t r = 0; r < R; r++) { char nm[24]; snprintf(nm, 24, "y%zu", r); y[r] = vs_var(nm); snprintf(nm, 24, "w%zu", r); w[r] = vs_var_between(nm, vs_q(0, 1), VS_NOBOUND); }
    std::vector<vr64> sm(ND); for (unsigned d = 0; d < ND; d++) { char nm[24]; snprintf(nm, 24, "lam%u", d); sm[d] = vs_var_between(nm, vs_q(0, 1), VS_NOBOUND); }
    std::vector<uint32_t> ord(ND), po(ND); for (unsigned d = 0; d < ND; d++) { ord[d] = dims[d].order; po[d] = dims[d].porder; }
    uint32_t monodim = 0xffffffffu; size_t ndim_arg = ND, rows_arg = R; bool consistent = true, may_either = false, populated = false;
    // ---- the perturbation
    if (mut == "valid") {}
    else if (mut == "w_short") { w.pop_back(); consistent = false; } else if (mut == "w_long") { w.push_back(vs_q(1, 1)); consistent = false; }
    else if (mut == "cv_short") { co.pop_back(); consistent = false; } else if (mut == "cv_long") { co.push_back(co[0]); consistent = false; }
    else if (mut == "ord_short") { ord.pop_back(); consistent = false; } else if (mut == "ord_long") { ord.push_back(1); consistent = false; }
    else if (mut == "kv_short") { kn.pop_back(); consistent = false; } else if (mut == "kv_long") { kn.push_back(kn[0]); consistent = false; }
    else if (mut == "sm_zero") { sm.clear(); consistent = false; } else if (mut == "sm_one") { sm.resize(1); } else if (mut == "sm_long") { sm.push_back(vs_q(1, 1)); if (ND == 1) sm.push_back(vs_q(1, 1)); consistent = false; }
    else if (mut == "po_zero") { po.clear(); consistent = false; } else if (mut == "po_one") { po.resize(1); may_either = true; }   /* the shared penalty order may exceed the order of another dimension */ else if (mut == "po_long") { po.push_back(1); if (ND == 1) po.push_back(1); consistent = false; }
    else if (mut == "monodim_last") { monodim = ND - 1; } else if (mut == "monodim_eq") { monodim = ND; consistent = false; } else if (mut == "monodim_big") { monodim = 7; consistent = false; }
    else if (mut == "idx_eq_range") { idx[0][R - 1] = ranges[0]; consistent = false; } else if (mut == "range_gt_coords") { ranges[0] += 3; consistent = false; }   /* declared index range larger than the coordinate vector although every index used is inside it */ else if (mut == "range_gt_coords_last") { ranges[ND - 1] += 1; consistent = false; } else if (mut == "idx_huge") { idx[ND - 1][0] = 0xffffffffu; consistent = false; }
    else if (mut == "coords_short") { co[0].pop_back(); consistent = false; }                                   // coordinate vector shorter than the declared index range
    else if (mut == "coords_empty") { co[ND - 1].clear(); consistent = false; }
    else if (mut == "knots_unsorted") { std::swap(kn[0][1], kn[0][2]); consistent = false; }
    else if (mut == "knots_few") { kn[0].resize(ord[0] + 1); consistent = false; } else if (mut == "knots_min_minus1") { kn[0].resize(2 * ord[0] + 1); may_either = true; }
    else if (mut == "knots_one") { kn[0].resize(1); consistent = false; } else if (mut == "knots_zero") { kn[0].clear(); consistent = false; }
    else if (mut == "order_huge") { ord[0] = 0x80000000u; consistent = false; }
    else if (mut == "porder_p1") { po[0] = ord[0] + 1; may_either = true; } else if (mut == "porder_p2") { po[0] = ord[0] + 2; may_either = true; } else if (mut == "porder_p3") { po[ND - 1] = ord[ND - 1] + 3; may_either = true; }
    else if (mut == "rows_zero") { rows_arg = 0; w.clear(); consistent = false; } else if (mut == "ndim_zero") { ndim_arg = 0; co.clear(); kn.clear(); ord.clear(); consistent = false; }
    else if (mut == "populated") { populated = true; }
    else { printf("unknown mutation\n"); return 2; }
    // exactly sized argument blocks
    ndsp data; data.rows = rows_arg; data.ndim = ndim_arg; { std::vector<vr64> yy(y.begin(), y.begin() + std::min(rows_arg, R)); data.x = exact(yy); }
    std::vector<unsigned*> ip(ND); for (unsigned d = 0; d < ND; d++) { std::vector<unsigned> col(idx[d].begin(), idx[d].begin() + std::min(rows_arg, R)); ip[d] = exact(col); }
    { std::vector<unsigned*> ipp(ip.begin(), ip.begin() + std::min<size_t>(ndim_arg, ND)); data.i = exact(ipp); std::vector<unsigned> rr(ranges.begin(), ranges.begin() + std::min<size_t>(ndim_arg, ND)); data.ranges = exact(rr); }
    std::vector<vr64*> cp, kp; std::vector<size_t> cn, knn; for (auto& v : co) { cp.push_back(exact(v)); cn.push_back(v.size()); } for (auto& v : kn) { kp.push_back(exact(v)); knn.push_back(v.size()); }
    vr64* wp = exact(w); vr64** cpp = exact(cp); size_t* cnp = exact(cn); vr64** kpp = exact(kp); size_t* knp = exact(knn); uint32_t* op = exact(ord); vr64* sp = exact(sm); uint32_t* pp = exact(po);
    ps_table t; memset(&t, 0, sizeof t); int base = vm_live_blocks();
    if (populated) { ir_w_fit((char*)&t, (char*)&data, (char*)wp, w.size(), (char*)cpp, (char*)cnp, cp.size(), (char*)op, ord.size(), (char*)kpp, (char*)knp, kp.size(), (char*)sp, sm.size(), (char*)pp, po.size(), monodim); if (exc_pending) vs_error("first fit threw"); }
    ps_table before = t; int live_before = vm_live_blocks();
    ir_w_fit((char*)&t, (char*)&data, (char*)wp, w.size(), (char*)cpp, (char*)cnp, cp.size(), (char*)op, ord.size(), (char*)kpp, (char*)knp, kp.size(), (char*)sp, sm.size(), (char*)pp, po.size(), monodim);
    bool thr = exc_pending; exc_pending = 0;
    std::string lab = id + " fit(" + mut + "):";
    if (populated) {
      // a fit into a populated table either refuses (unchanged) or replaces it after releasing the old storage
      if (thr) eqi(lab + " refused fit leaves the populated table unchanged", memcmp(&before, &t, sizeof t) == 0, 1);
      else { ir_w_destroy((char*)&t); eqi(lab + " storage of the replaced table is released (no block lost)", vm_live_blocks(), base); }
    } else {
      if (!consistent && !may_either) eqi(lab + " inconsistent arguments are rejected by an exception", thr, 1);
      if (consistent && !may_either) eqi(lab + " consistent arguments are accepted", thr, 0);
      if (thr) { eqi(lab + " a rejected fit leaves the table unchanged", memcmp(&before, &t, sizeof t) == 0, 1); eqi(lab + " a rejected fit releases what it allocated", vm_live_blocks(), live_before); }
      else { eqi(lab + " fitted table has the requested dimension", t.ndim, ND); ir_w_destroy((char*)&t); eqi(lab + " table storage balanced after destruction", vm_live_blocks(), base); }
    }
    eqi(lab + " no double / foreign delete", vm_errors, 0);
    printf("E2 done thrown=%d\n", (int)thr);
    return 0;
  }
  return 0;
}
