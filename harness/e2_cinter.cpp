// E2 harness for C18: the IR-derived C interface (src/cinter/splinetable.cpp) runs natively next to its C++ twins on the
// cfitsio container model and the operator new/delete ledger; float payloads are uninterpreted variables.  Obligations:
// every wrapper returns what its twin returns (term identity / equal integers), every failure of the twin (exception,
// false) is a non-zero / NULL return, no exception leaves an extern "C" function, and after splinetable_free / free /
// every block the sequence allocated is released exactly once (ledger balance, no ledger error).
// case file: "cinter <id> scen <name> nd N" / "dim d order O nknots K" / "aux KEY|VALUE" / "end"
#include "e2_table_common.hpp"
#include <csignal>
static sigjmp_buf crash_env; static volatile int crash_armed;
static void on_crash(int sig){ if (crash_armed) { crash_armed = 0; siglongjmp(crash_env, sig); } signal(sig, SIG_DFL); raise(sig); }
template<class F> static int guarded(F f){ int s = sigsetjmp(crash_env, 1); if (s) return s; crash_armed = 1; f(); crash_armed = 0; return 0; }
static void accessors(const std::string& id, chandle& h, const ps_table& t){
  char* H = (char*)&h;
  eqi(id + " splinetable_ndim", ir_splinetable_ndim(H), t.ndim); eqi(id + " splinetable_total_ncoeffs", ir_splinetable_total_ncoeffs(H), ncoef(t));
  for (unsigned d = 0; d < t.ndim; d++) { eqi(id + " splinetable_order", ir_splinetable_order(H, d), t.order[d]); eqi(id + " splinetable_nknots", ir_splinetable_nknots(H, d), t.nknots[d]);
    eqi(id + " splinetable_ncoeffs", ir_splinetable_ncoeffs(H, d), t.naxes[d]); eqi(id + " splinetable_stride", ir_splinetable_stride(H, d), t.strides[d]);
    eqh(id + " splinetable_lower_extent", ir_splinetable_lower_extent(H, d), t.extents[d][0]); eqh(id + " splinetable_upper_extent", ir_splinetable_upper_extent(H, d), t.extents[d][1]);
    vr64* kn = (vr64*)ir_splinetable_knots(H, d);
    for (uint64_t i = 0; i < t.nknots[d]; i++) { eqh(id + " splinetable_knot", ir_splinetable_knot(H, d, i), t.knots[d][i]); eqh(id + " splinetable_knots[]", kn[i], t.knots[d][i]); } }
  vr32* co = (vr32*)ir_splinetable_coefficients(H); for (uint64_t i = 0; i < ncoef(t); i++) eqh(id + " splinetable_coefficients[]", (vr64)co[i], (vr64)t.coefficients[i]);
  for (unsigned i = 0; i < t.naux; i++) { char* v = ir_splinetable_get_key(H, t.aux[i][0]); char* w = ir_t_get_aux_value((char*)&t, t.aux[i][0]); eqi(id + " splinetable_get_key finds what get_aux_value finds", v && w && rtrim(v) == rtrim(w), 1); }
  char missing[] = "NOSUCHKEY"; eqi(id + " splinetable_get_key of a missing key is NULL", ir_splinetable_get_key(H, missing) == 0, 1);
}

int main(int argc, char** argv){
  if (argc < 3) return 2;
  signal(SIGSEGV, on_crash); signal(SIGBUS, on_crash); signal(SIGABRT, on_crash);
  std::ifstream in(argv[1]); vs_open(argv[2]); std::vector<std::string> lines; std::string line; while (std::getline(in, line)) lines.push_back(line); int ncase = 0, nerr = 0;
  for (size_t li = 0; li < lines.size(); li++) { std::istringstream ls(lines[li]); std::string w; if (!(ls >> w) || w != "cinter") continue;
    Shape s; std::string id, tok; ls >> id; while (ls >> tok) { if (tok == "nd") ls >> s.nd; else if (tok == "scen") ls >> s.scen; else if (tok == "nconv") ls >> s.nconv; else if (tok == "cdim") ls >> s.cdim; }
    s.order.resize(s.nd); s.nk.resize(s.nd);
    for (li++; li < lines.size() && lines[li] != "end"; li++) { std::istringstream ds(lines[li]); std::string k; ds >> k; if (k == "dim") { unsigned d; std::string a; ds >> d >> a >> s.order[d] >> a >> s.nk[d]; }
      else if (k == "aux") { std::string kv; ds >> kv; size_t bar = kv.find('|'); std::string key = kv.substr(0, bar), val = kv.substr(bar + 1); for (auto& c : val) if (c == '~') c = ' '; s.aux.push_back({key, val}); } }
    bool realmode = s.scen == "ops" || s.scen == "opsfail" || s.scen == "estimate" || s.scen == "fitgrid";      // convolution sorts computed knots: exact reals, concrete rational knots
    ncase++; vs_reset(realmode ? 0 : 1); vs_note("case", id.c_str()); exc_pending = 0; reset_files(); vm_fail_at = -1;
    if (setjmp(vs_jmp)) { nerr++; continue; }
    ps_table t; build(t, s, "", realmode);
    int base_live = vm_live_blocks(), base_err = vm_errors;
    auto balanced = [&](const std::string& lab){ eqi(lab + ": every block allocated through the C interface is released exactly once", vm_live_blocks(), base_live); eqi(lab + ": no double / foreign delete", vm_errors, base_err); eqi(lab + ": every FITS handle closed", cf_open_handles, 0); };
    const std::string& sc = s.scen;
    if (sc == "mem" || sc == "memfail") {
      // init -> read from memory -> accessors -> write to memory -> read into the occupied handle (must be refused) -> free
      uint64_t n = 0; char* buf = ir_t_write_fits_mem((char*)&t, (char*)&n); if (exc_pending) vs_error("twin write_fits_mem threw");
      int nalloc_before = vm_alloc_count;
      auto seq = [&](int fail_at, const std::string& lab)->int{
        chandle h = {0}; cbuffer in_ = {buf, n}, out_ = {0, 0}; vm_fail_at = -1;
        if (fail_at == 0) vm_fail_at = vm_alloc_count;                      // the allocation of splinetable_init itself
        uint32_t rc = ir_splinetable_init((char*)&h); escaped(lab + " splinetable_init"); if (fail_at == 0) eqi(lab + " splinetable_init reports the failed allocation", rc != 0, 1); vm_fail_at = -1;
        int a0 = 0;
        if (rc == 0) { rc = ir_readsplinefitstable_mem((char*)&in_, (char*)&h); escaped(lab + " readsplinefitstable_mem");
          // allocation failures inside the reader are C20's subject (the object it leaves behind); here: everything after the read
          a0 = vm_alloc_count; if (fail_at > 0) vm_fail_at = a0 + fail_at - 1;
          if (rc == 0) { if (fail_at < 0) { same(lab + " table read through the C interface:", t, *TT(h)); accessors(lab, h, t); }
            uint32_t wrc = ir_writesplinefitstable_mem((char*)&out_, (char*)&h); escaped(lab + " writesplinefitstable_mem");
            if (wrc == 0) { ps_table r; memset(&r, 0, sizeof r); int keep = vm_fail_at; vm_fail_at = -1; uint32_t ok = ir_t_read_fits_mem((char*)&r, out_.data, out_.size); bool thr = exc_pending; exc_pending = 0;
              eqi(lab + " buffer written through the C interface is a readable table", ok && !thr, 1); if (ok && !thr) { same(lab + " buffer written through the C interface:", t, r); ir_t_destroy((char*)&r); } vm_fail_at = keep; }
            else eqi(lab + " a failed writesplinefitstable_mem leaves the buffer empty", out_.data == 0, 1);
            if (fail_at < 0) { uint32_t again = ir_readsplinefitstable_mem((char*)&in_, (char*)&h); escaped(lab + " second readsplinefitstable_mem"); eqi(lab + " reading into an occupied handle is refused like read_fits_mem on a populated table", again != 0, 1); same(lab + " refused read leaves the table unchanged:", t, *TT(h)); } } }
        drop_file(out_.data);
        ir_splinetable_free((char*)&h); escaped(lab + " splinetable_free"); eqi(lab + " splinetable_free clears the handle", h.data == 0, 1);
        int used = vm_alloc_count - a0 + 1; vm_fail_at = -1; return used; };
      int nalloc = seq(-1, id); balanced(id); (void)nalloc_before;
      if (sc == "memfail") for (int k = 0; k < nalloc; k++) { std::string lab = id + " allocation #" + std::to_string(k) + " fails:"; seq(k, lab); balanced(lab); }
    } else if (sc == "disk") {
      int sgall = guarded([&]{
      char path[] = "t.fits", missing[] = "missing.fits"; ir_t_write_fits((char*)&t, path); if (exc_pending) vs_error("twin write_fits threw");
      chandle h = {0}; eqi(id + " splinetable_init", ir_splinetable_init((char*)&h), 0); escaped(id + " splinetable_init");
      uint32_t rc = ir_readsplinefitstable(missing, (char*)&h); escaped(id + " readsplinefitstable(missing)"); eqi(id + " reading a missing file fails like the constructor throws", rc != 0, 1);
      rc = ir_readsplinefitstable(path, (char*)&h); escaped(id + " readsplinefitstable"); eqi(id + " readsplinefitstable succeeds", rc, 0);
      if (rc == 0) { same(id + " table read through the C interface:", t, *TT(h)); accessors(id, h, t);
        rc = ir_readsplinefitstable(path, (char*)&h); escaped(id + " readsplinefitstable into an occupied handle"); eqi(id + " reading into an occupied handle replaces the table", rc, 0); if (rc == 0) same(id + " replaced table:", t, *TT(h));
        char out[] = "o.fits"; rc = ir_writesplinefitstable(out, (char*)&h); escaped(id + " writesplinefitstable"); eqi(id + " writesplinefitstable succeeds", rc, 0);
        ps_table r; ir_t_construct_path((char*)&r, out); bool thr = exc_pending; exc_pending = 0; eqi(id + " file written through the C interface is readable", !thr, 1); if (!thr) { same(id + " file written through the C interface:", t, r); ir_t_destroy((char*)&r); }
        // every failing cfitsio call of the write: non-zero return, nothing escapes, handle closed
        reset_files(); ir_writesplinefitstable(out, (char*)&h); int ncalls = cf_calls; exc_pending = 0;
        for (int k = 0; k < ncalls; k++) { reset_files(); cf_fail_at = k; rc = ir_writesplinefitstable(out, (char*)&h); std::string lab = id + " failing I/O call #" + std::to_string(k) + ":"; escaped(lab + " writesplinefitstable"); eqi(lab + " reported as a non-zero return", rc != 0, 1); eqi(lab + " file handle released", cf_open_handles, 0); cf_fail_at = -1; } }
      // a failing read into the occupied handle, then free: the handle must never keep a pointer to a destroyed table
      { int berr = vm_errors; int sg = guarded([&]{ uint32_t r2 = ir_readsplinefitstable(missing, (char*)&h); (void)r2; exc_pending = 0; ir_splinetable_free((char*)&h); ir_splinetable_free((char*)&h); });
        eqi(id + " a failing read into an occupied handle followed by splinetable_free does not crash", sg, 0); eqi(id + " a failing read into an occupied handle followed by splinetable_free deletes nothing twice", vm_errors, berr); exc_pending = 0; if (sg) h.data = 0; }
      balanced(id);
      });
      eqi(id + " the call sequence does not crash (double free / use of a destroyed table)", sgall, 0); exc_pending = 0;
    } else if (sc == "keys") {
      uint64_t n = 0; char* buf = ir_t_write_fits_mem((char*)&t, (char*)&n); chandle h = {0}; cbuffer in_ = {buf, n}; ir_splinetable_init((char*)&h); ir_readsplinefitstable_mem((char*)&in_, (char*)&h); if (exc_pending) vs_error("setup failed");
      ps_table u; memset(&u, 0, sizeof u); ir_t_read_fits_mem((char*)&u, buf, n);     // the twin object
      char kint[] = "NUMBER", kmiss[] = "ABSENT", kres[] = "NAXIS", klow[] = "lower"; uint32_t v = 1234, got = 0, tgot = 0;
      uint32_t rc = ir_splinetable_write_key((char*)&h, 0, kint, (char*)&v); escaped(id + " splinetable_write_key"); ir_t_write_key_int((char*)&u, kint, v); bool thr = exc_pending; exc_pending = 0;
      eqi(id + " splinetable_write_key(int) fails iff write_key throws", rc != 0, thr); same(id + " store after write_key:", u, *TT(h));
      rc = ir_splinetable_read_key((char*)&h, 0, kint, (char*)&got); escaped(id + " splinetable_read_key"); uint32_t tr = ir_t_read_key_int((char*)&u, kint, (char*)&tgot);
      eqi(id + " splinetable_read_key(int) of a present key fails iff read_key returns false", rc != 0, !tr); eqi(id + " splinetable_read_key(int) value", got, tgot);
      got = 77; rc = ir_splinetable_read_key((char*)&h, 0, kmiss, (char*)&got); escaped(id + " splinetable_read_key(missing)"); tr = ir_t_read_key_int((char*)&u, kmiss, (char*)&tgot);
      eqi(id + " splinetable_read_key of a missing key fails iff read_key returns false", rc != 0, !tr);
      { vr64 dgot = 0; rc = ir_splinetable_read_key((char*)&h, 1, kmiss, (char*)&dgot); escaped(id + " splinetable_read_key(double, missing)"); eqi(id + " splinetable_read_key(double) of a missing key fails like read_key returns false", rc != 0, 1); }
      for (char* bad : {kres, klow}) { rc = ir_splinetable_write_key((char*)&h, 0, bad, (char*)&v); escaped(id + " splinetable_write_key(rejected key)"); ir_t_write_key_int((char*)&u, bad, v); thr = exc_pending; exc_pending = 0;
        eqi(id + " splinetable_write_key of a rejected key fails iff write_key throws", rc != 0, thr); same(id + " store after rejected write_key:", u, *TT(h)); }
      ir_t_destroy((char*)&u); ir_splinetable_free((char*)&h); balanced(id);
    } else if (sc == "ops" || sc == "opsfail") {
      // permutation and convolution: same result as the twin on success; every failure (bad permutation, allocation) is a return code
      uint64_t n = 0; char* buf = ir_t_write_fits_mem((char*)&t, (char*)&n); if (exc_pending) vs_error("setup failed");
      auto fresh = [&](chandle& h, ps_table& u){ cbuffer in_ = {buf, n}; h.data = 0; ir_splinetable_init((char*)&h); ir_readsplinefitstable_mem((char*)&in_, (char*)&h); memset(&u, 0, sizeof u); ir_t_read_fits_mem((char*)&u, buf, n); if (exc_pending) vs_error("setup failed"); };
      unsigned nd = s.nd; std::vector<uint64_t> perm(nd), bad(nd); for (unsigned d = 0; d < nd; d++) { perm[d] = nd - 1 - d; bad[d] = 0; }
      { chandle h; ps_table u; fresh(h, u); uint32_t rc = ir_splinetable_permute((char*)&h, (char*)perm.data()); escaped(id + " splinetable_permute"); ir_t_permute((char*)&u, (char*)perm.data(), nd); bool thr = exc_pending; exc_pending = 0;
        eqi(id + " splinetable_permute fails iff permuteDimensions throws", rc != 0, thr); same(id + " after splinetable_permute:", u, *TT(h));
        if (nd > 1) { rc = ir_splinetable_permute((char*)&h, (char*)bad.data()); escaped(id + " splinetable_permute(invalid)"); ir_t_permute((char*)&u, (char*)bad.data(), nd); thr = exc_pending; exc_pending = 0;
          eqi(id + " invalid permutation fails iff permuteDimensions throws", rc != 0, thr); same(id + " after the rejected permutation:", u, *TT(h)); }
        ir_t_destroy((char*)&u); ir_splinetable_free((char*)&h); }
      vr64 kk[3]; for (int i = 0; i < 3; i++) kk[i] = vs_q(i - 1, 1);
      for (unsigned dim = 0; dim < nd; dim++) { chandle h; ps_table u; fresh(h, u); int a0 = vm_alloc_count;
        uint32_t rc = ir_splinetable_convolve((char*)&h, dim, (char*)kk, 3); escaped(id + " splinetable_convolve"); int used = vm_alloc_count - a0; ir_t_convolve((char*)&u, dim, (char*)kk, 3); bool thr = exc_pending; exc_pending = 0;
        eqi(id + " splinetable_convolve fails iff convolve throws", rc != 0, thr); same(id + " after splinetable_convolve:", u, *TT(h)); ir_t_destroy((char*)&u); ir_splinetable_free((char*)&h);
        if (sc == "opsfail") for (int k = 0; k < used; k++) { chandle g; ps_table w2; fresh(g, w2); vm_fail_at = vm_alloc_count + k; std::string lab = id + " convolve dim " + std::to_string(dim) + ", allocation #" + std::to_string(k) + " fails:";
          rc = ir_splinetable_convolve((char*)&g, dim, (char*)kk, 3); vm_fail_at = -1; bool esc = escaped(lab + " splinetable_convolve"); if (!esc) eqi(lab + " reported as a non-zero return", rc != 0, 1);
          // convolve releases the old storage before it allocates the new one: the table a failed convolution leaves behind is
          // C20's subject and is not destroyed here
          ir_t_destroy((char*)&w2); base_live = vm_live_blocks(); } }
      if (sc != "opsfail") balanced(id);
    } else if (sc == "eval") {
      // evaluation wrappers on a table of any dimension: the twin's failures (gradient beyond 6 dimensions throws) must not escape
      std::vector<vr64> x(s.nd), grad(s.nd + 1), tgrad(s.nd + 1); std::vector<uint32_t> cen(s.nd), tcen(s.nd);
      for (unsigned d = 0; d < s.nd; d++) { x[d] = t.knots[d][t.order[d]]; cen[d] = tcen[d] = t.order[d]; }
      chandle h = {(char*)&t};
      ir_t_gradient((char*)&t, (char*)x.data(), (char*)tcen.data(), (char*)tgrad.data()); bool thr = exc_pending; exc_pending = 0;
      ir_ndsplineeval_gradient((char*)&h, (char*)x.data(), (char*)cen.data(), (char*)grad.data()); bool esc = escaped(id + " ndsplineeval_gradient (" + std::to_string(s.nd) + "-D table" + (thr ? ", the member function throws" : "") + ")");
      if (!thr && !esc) for (unsigned d = 0; d <= s.nd; d++) eqh(id + " ndsplineeval_gradient lane", grad[d], tgrad[d]);
    } else if (sc == "estimate") {
      // C19: bytes simultaneously requested from the table's allocator while loading (and convolving as declared) vs estimateMemory
      char path[] = "t.fits"; ir_t_write_fits((char*)&t, path); if (exc_pending) vs_error("twin write_fits threw");
      uint64_t est = ir_e_estimate(path, s.nconv ? s.nconv : 1, s.cdim); if (exc_pending) vs_error("estimateMemory threw");
      tab_cur = tab_peak = tab_errors = 0; tab_live = 0; memset(tab_blk, 0, sizeof tab_blk);
      ps_table ct; memset(&ct, 0, sizeof ct); ir_e_construct((char*)&ct, path); if (exc_pending) vs_error("construction from the file threw");
      uint64_t load_peak = tab_peak;
      if (s.nconv) { std::vector<vr64> kk(s.nconv); for (unsigned i = 0; i < s.nconv; i++) kk[i] = vs_q((long)i - 1, 2); ir_e_convolve((char*)&ct, s.cdim, (char*)kk.data(), s.nconv); if (exc_pending) vs_error("convolve threw"); }
      char note[200]; snprintf(note, sizeof note, "estimate=%llu load_peak=%llu peak=%llu final=%llu object=%llu", (unsigned long long)est, (unsigned long long)load_peak, (unsigned long long)tab_peak, (unsigned long long)tab_cur, (unsigned long long)ir_e_sizeof()); vs_note("memory", note);
      eqi(id + " bytes requested while loading <= estimateMemory (" + note + ")", load_peak <= est, 1);
      eqi(id + " bytes requested while loading and convolving <= estimateMemory (" + note + ")", tab_peak <= est, 1);
      ir_e_destroy((char*)&ct); /* deallocate() sizes that differ from the requested ones (auxiliary values read with quotes) are C20's subject */ eqi(id + " allocator balance after destruction", tab_cur, 0); eqi(id + " no block left", tab_live, 0);
    } else if (sc == "fitgrid") {
      // splinetable_glamfit / splinetable_grideval / ndsparse_destroy next to fit() / grideval(): concrete knots (from the shape) and
      // abscissae, symbolic data values, weights and smoothing; the solution of the linear system is a vector of fresh variables
      unsigned ND = s.nd; std::vector<std::vector<vr64>> kn(ND), co(ND); std::vector<uint32_t> ord(ND), po(ND);
      for (unsigned d = 0; d < ND; d++) { ord[d] = s.order[d]; po[d] = s.order[d] ? 1 : 0; for (uint64_t i = 0; i < s.nk[d]; i++) kn[d].push_back(vs_q((long)i, 1)); unsigned ncd = 2 + d; vr64 lo = kn[d][ord[d]], hi = kn[d][s.nk[d] - ord[d] - 1];
        for (unsigned i = 0; i < ncd; i++) co[d].push_back(vs_add(lo, vs_mul(vs_sub(hi, lo), vs_q(2 * i + 1, 2 * ncd)))); }
      std::vector<std::vector<unsigned>> rowsidx; { std::vector<unsigned> ix(ND, 0); while (true) { rowsidx.push_back(ix); int d = ND - 1; while (d >= 0 && ++ix[d] == co[d].size()) { ix[d] = 0; d--; } if (d < 0) break; } }
      size_t R = rowsidx.size(); struct ndsp { size_t rows, ndim; vr64* x; unsigned** i; unsigned* ranges; } data; data.rows = R; data.ndim = ND; std::vector<vr64> y(R), w(R), sm(ND); std::vector<std::vector<unsigned>> idx(ND, std::vector<unsigned>(R)); std::vector<unsigned*> ip(ND); std::vector<unsigned> ranges(ND);
      for (unsigned d = 0; d < ND; d++) { ranges[d] = co[d].size(); for (size_t r = 0; r < R; r++) idx[d][r] = rowsidx[r][d]; ip[d] = idx[d].data(); char nm[24]; snprintf(nm, 24, "lam%u", d); sm[d] = vs_var_between(nm, vs_q(0, 1), VS_NOBOUND); }
      for (size_t r = 0; r < R; r++) { char nm[24]; snprintf(nm, 24, "y%zu", r); y[r] = vs_var(nm); snprintf(nm, 24, "w%zu", r); w[r] = vs_var_between(nm, vs_q(0, 1), VS_NOBOUND); }
      data.x = y.data(); data.i = ip.data(); data.ranges = ranges.data();
      std::vector<vr64*> cp(ND), kp(ND); std::vector<uint64_t> cn(ND), knn(ND); std::vector<uint32_t> cn32(ND); for (unsigned d = 0; d < ND; d++) { cp[d] = co[d].data(); cn[d] = co[d].size(); cn32[d] = co[d].size(); kp[d] = kn[d].data(); knn[d] = kn[d].size(); }
      int cm0 = cm_live_objects;
      for (uint32_t monodim : {0xffffffffu, ND}) { bool bad = monodim != 0xffffffffu; std::string lab = id + (bad ? " (monotonic dimension out of range)" : "");
        chandle h = {0}; ir_splinetable_init((char*)&h); ps_table u; ir_t_default_construct((char*)&u);
        uint32_t rc = ir_splinetable_glamfit((char*)&h, (char*)&data, (char*)w.data(), (char*)cp.data(), (char*)ord.data(), (char*)kp.data(), (char*)knn.data(), (char*)sm.data(), (char*)po.data(), monodim, 0); escaped(lab + " splinetable_glamfit");
        ir_w_fit((char*)&u, (char*)&data, (char*)w.data(), R, (char*)cp.data(), (char*)cn.data(), ND, (char*)ord.data(), ND, (char*)kp.data(), (char*)knn.data(), ND, (char*)sm.data(), ND, (char*)po.data(), ND, monodim); bool thr = exc_pending; exc_pending = 0;
        eqi(lab + " splinetable_glamfit fails iff fit throws", rc != 0, thr); same(lab + " table after splinetable_glamfit:", u, *TT(h));
        if (!thr && rc == 0) { // grid evaluation: ownership of the result passes to the caller
          char* res = (char*)1; uint32_t grc = ir_splinetable_grideval((char*)&h, (char*)cp.data(), (char*)cn32.data(), (char*)&res); escaped(lab + " splinetable_grideval");
          ndsp* tw = (ndsp*)ir_w_grideval((char*)&u, (char*)cp.data(), (char*)cn.data(), ND); bool gthr = exc_pending; exc_pending = 0;
          eqi(lab + " splinetable_grideval fails iff grideval throws", grc != 0, gthr); eqi(lab + " result pointer set exactly on success", (res != 0), grc == 0);
          if (grc == 0 && res && tw) { ndsp* g = (ndsp*)res; eqi(lab + " grid result rows", g->rows, tw->rows); eqi(lab + " grid result ndim", g->ndim, tw->ndim);
            if (g->rows == tw->rows && g->ndim == tw->ndim) { for (size_t r = 0; r < g->rows; r++) { eqh(lab + " grid result value", g->x[r], tw->x[r]); for (unsigned d = 0; d < g->ndim; d++) eqi(lab + " grid result index", g->i[d][r], tw->i[d][r]); } for (unsigned d = 0; d < g->ndim; d++) eqi(lab + " grid result range", g->ranges[d], tw->ranges[d]); }
            int sg = guarded([&]{ ir_ndsparse_destroy(res); }); eqi(lab + " ndsparse_destroy releases the result without a crash", sg, 0); escaped(lab + " ndsparse_destroy"); }
          if (tw) ir_w_ndsparse_delete((char*)tw);
          // a failing allocation inside grideval: non-zero return, result NULL, nothing escapes
          int a0 = vm_alloc_count; { char* r2 = 0; ir_splinetable_grideval((char*)&h, (char*)cp.data(), (char*)cn32.data(), (char*)&r2); exc_pending = 0; if (r2) ir_ndsparse_destroy(r2); } int used = vm_alloc_count - a0;
          for (int k = 0; k < used; k++) { char* r2 = (char*)1; vm_fail_at = vm_alloc_count + k; uint32_t frc = ir_splinetable_grideval((char*)&h, (char*)cp.data(), (char*)cn32.data(), (char*)&r2); vm_fail_at = -1; std::string fl = lab + " grideval allocation #" + std::to_string(k) + " fails:";
            bool esc = escaped(fl + " splinetable_grideval"); if (!esc) { eqi(fl + " reported as a non-zero return", frc != 0, 1); eqi(fl + " result is NULL", r2 == 0, 1); } if (frc == 0 && r2 && r2 != (char*)1) ir_ndsparse_destroy(r2); } }
        ir_t_destroy((char*)&u); ir_splinetable_free((char*)&h); }
      eqi(id + " CHOLMOD objects balanced", cm_live_objects, cm0); balanced(id);
    } else vs_error("unknown scenario");
  }
  printf("E2 cases=%d errors=%d\n", ncase, nerr); return 0;
}
