/* C04: center lookup accepts exactly (first knot, last knot] and brackets the point.
 * Order-key domain: the verdict covers every IEEE double assignment with the same order type. */
#include "ps_build_ord.h"
uint32_t ir_w_searchcenters(char* t, char* x, char* centers);
uint32_t ir_w_ev_searchcenters_f(char* t, char* x, char* centers);
vr64 ir_w_call(char* t, char* x);
vr64 ir_w_ev_call_f(char* t, char* x, uint32_t d);
vr64 ir_w_ev_call_d(char* t, char* x, uint32_t d);
#ifndef ENTRY
#define ENTRY ir_w_searchcenters
#endif

#ifdef CALLOP
#define STUBVAL 0x7ffffffbu
static int32_t expect_centers[ND]; static char* expect_x; static char* expect_t; static int stub_calls;
static vr64 eval_stub(char* t, char* x, char* centers, uint32_t derivs){
  stub_calls++;
  assert(x == expect_x && derivs == 0);
  for (unsigned d = 0; d < ND; d++) assert(((int32_t*)centers)[d] == expect_centers[d]);
  return STUBVAL;
}
vr64 ir_member_eval_f(char* t, char* x, char* c, uint32_t d){ assert(t == expect_t); return eval_stub(t, x, c, d); }
vr64 ir_evaluator_eval_f(char* e, char* x, char* c, uint32_t d){ assert(*(char**)e == expect_t); return eval_stub(e, x, c, d); }
vr64 ir_evaluator_eval_d(char* e, char* x, char* c, uint32_t d){ assert(*(char**)e == expect_t); return eval_stub(e, x, c, d); }
#endif

void harness(void){
  struct ps_table t; build_table(&t);
  vr64 x[ND]; int32_t c[ND];
  for (unsigned d = 0; d < ND; d++) { x[d] = nondet_key(d); in_x[d] = x[d]; c[d] = nondet_int(); }
  uint32_t ok = ENTRY((char*)&t, (char*)x, (char*)c);
  _Bool inside = 1;
  for (unsigned d = 0; d < ND; d++) if (!(t.knots[d][0] < x[d] && x[d] <= t.knots[d][NK[d] - 1])) inside = 0;
  assert((ok != 0) == inside);                       /* accepts exactly (first, last] */
  if (ok) for (unsigned d = 0; d < ND; d++) {
    vr64* k = t.knots[d]; int64_t o = ORD[d], na = NK[d] - ORD[d] - 1;
    assert(c[d] >= o && c[d] <= (int64_t)NK[d] - o - 2);       /* nearest fully supported interval */
    if (k[o] <= x[d] && x[d] < k[na]) assert(k[c[d]] <= x[d] && x[d] < k[c[d] + 1]);   /* brackets */
    else if (x[d] >= k[na]) assert(c[d] == na - 1);             /* right end / upper margin */
    else assert(c[d] == o);                                     /* lower margin */
  }
#ifdef CALLOP
  /* the convenience call operators: constant 0 when lookup fails, otherwise exactly what the evaluation
   * routine returns for the centers found by the lookup (the evaluation itself is cut to a stub here;
   * its memory safety is C05's subject, its value C01's) */
  for (unsigned d = 0; d < ND; d++) expect_centers[d] = c[d];
  expect_x = (char*)x; expect_t = (char*)&t; stub_calls = 0;
  vr64 v = ir_w_call((char*)&t, (char*)x);
  assert(inside ? (v == STUBVAL && stub_calls == 1) : (v == 0 && stub_calls == 0));
  stub_calls = 0;
  vr64 vf = ir_w_ev_call_f((char*)&t, (char*)x, 0);
  assert(inside ? (vf == STUBVAL && stub_calls == 1) : (vf == 0 && stub_calls == 0));
  stub_calls = 0;
  vr64 vd = ir_w_ev_call_d((char*)&t, (char*)x, 0);
  assert(inside ? (vd == STUBVAL && stub_calls == 1) : (vd == 0 && stub_calls == 0));
#endif
#ifdef WITNESS
  assert(0);
#endif
}
