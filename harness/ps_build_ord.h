/* CBMC table builder in the order-key domain.  Concrete sizes from macros:
 *   -DND=<n> -DORDS=<o0,o1,..> -DNKS=<k0,k1,..>
 * Contents symbolic: knot keys (even, non-decreasing, repeated allowed), padding (any key or NaN),
 * coefficients (any handle).  Every block has exactly the size the library allocates. */
#ifndef PS_BUILD_ORD_H
#define PS_BUILD_ORD_H
#include "ps_table.h"
#include <assert.h>
uint64_t nondet_u64(void); uint32_t nondet_u32(void); int nondet_int(void); unsigned nondet_uint(void); _Bool nondet_bool(void);
static const uint32_t ORD[ND] = {ORDS};
static const uint64_t NK[ND] = {NKS};
#define KEYHI(d) (2 * NK[d] + 3)
#ifndef MAXNK
#define MAXNK 24
#endif
/* inputs recorded for counterexample extraction */
uint64_t in_knots[ND][MAXNK], in_pad[ND][16], in_x[ND];

static vr64 nondet_key_or_nan(unsigned d){
  uint64_t k = nondet_u64();
  __CPROVER_assume((k >= 1 && k <= KEYHI(d)) || k == VR_NAN);
  return k;
}
static vr64 nondet_key(unsigned d){
  uint64_t k = nondet_u64();
  __CPROVER_assume(k >= 1 && k <= KEYHI(d));
  return k;
}
static void* xmalloc(size_t n){ void* p = malloc(n); __CPROVER_assume(p != 0); return p; }

static void build_table(struct ps_table* t){
  t->ndim = ND;
  t->order = xmalloc(ND * sizeof(uint32_t));
  t->nknots = xmalloc(ND * sizeof(uint64_t));
  t->naxes = xmalloc(ND * sizeof(uint64_t));
  t->strides = xmalloc(ND * sizeof(uint64_t));
  t->knots = xmalloc(ND * sizeof(vr64*));
  t->extents = xmalloc(ND * sizeof(vr64*));
  t->extents[0] = xmalloc(2 * ND * sizeof(vr64));
  t->periods = 0; t->naux = 0; t->aux = 0; t->allocator = 0;
  for (unsigned d = 0; d < ND; d++) {
    t->order[d] = ORD[d]; t->nknots[d] = NK[d]; t->naxes[d] = NK[d] - ORD[d] - 1;
    vr64* blk = xmalloc((NK[d] + 2 * ORD[d]) * sizeof(vr64));
    for (unsigned i = 0; i < NK[d] + 2 * ORD[d]; i++) blk[i] = nondet_key_or_nan(d);
    for (unsigned i = 0; i < ORD[d]; i++) { in_pad[d][i] = blk[i]; in_pad[d][ORD[d] + i] = blk[ORD[d] + NK[d] + i]; }
    t->knots[d] = blk + ORD[d];
    uint64_t prev = 2;
    for (unsigned i = 0; i < NK[d]; i++) {
      uint64_t k = nondet_u64();
      __CPROVER_assume(k >= prev && k <= 2 * NK[d] + 2 && (k & 1) == 0);
      t->knots[d][i] = k; in_knots[d][i] = k; prev = k;
    }
    t->extents[d] = t->extents[0] + 2 * d;
    t->extents[d][0] = nondet_key(d); t->extents[d][1] = nondet_key(d);
  }
  uint64_t sz = 1;
  for (int d = ND - 1; d >= 0; d--) { t->strides[d] = sz; sz *= t->naxes[d]; }
  t->coefficients = xmalloc(sz * sizeof(vr32));   /* contents left unconstrained: CBMC treats fresh heap memory as nondeterministic */
}
#endif
