// Replay for C20 / C07 on the real library (real cfitsio, real heap): the scenario of the spec runs in forked children so that a
// crash (SIGSEGV, glibc's double-free abort) is observed; a child reports 3 when the object is neither unchanged nor empty
// after a failed operation, when a returned table is malformed, or when blocks are lost.  exit 3 = REPRODUCED.
#include "mktable.hpp"
#include <cstdio>
#include <cstring>
#include <fstream>
#include <new>
#include <cmath>
#include <unistd.h>
#include <sys/wait.h>
#include <fitsio.h>
static long live_blocks = 0, alloc_count = 0, fail_at = -1;
void* operator new(size_t n){ if (alloc_count++ == fail_at) throw std::bad_alloc(); void* p = malloc(n ? n : 1); if (!p) throw std::bad_alloc(); live_blocks++; return p; }
void* operator new[](size_t n){ return operator new(n); }
void operator delete(void* p) noexcept { if (p) { live_blocks--; free(p); } }
void operator delete[](void* p) noexcept { operator delete(p); }
void operator delete(void* p, size_t) noexcept { operator delete(p); }
void operator delete[](void* p, size_t) noexcept { operator delete(p); }
static std::string scen, what; static unsigned nd = 0, cdim = 0; static std::vector<unsigned> ord; static std::vector<uint64_t> nk; static std::vector<std::pair<std::string, std::string>> aux;
static std::vector<std::vector<double>> kn; static std::vector<float> cf;
static void table(ST& t){ mk_table(t, ord, kn, cf, 0, 0); for (unsigned d = 0; d < nd; d++) for (unsigned i = 0; i < ord[d]; i++) { t.knots[d][-(int)i - 1] = kn[d][0] - 1 - i; t.knots[d][nk[d] + i] = kn[d].back() + 1 + i; } for (auto& a : aux) t.write_key(a.first.c_str(), a.second.c_str()); }
static bool same(const ST& a, const ST& b){ if (a.ndim != b.ndim || a.naux != b.naux) return false; for (unsigned d = 0; d < a.ndim; d++) { if (a.order[d] != b.order[d] || a.nknots[d] != b.nknots[d] || a.naxes[d] != b.naxes[d]) return false; if (memcmp(a.knots[d], b.knots[d], 8 * a.nknots[d])) return false; } for (unsigned i = 0; i < a.naux; i++) if (strcmp(a.aux[i][0], b.aux[i][0])) return false; return memcmp(a.coefficients, b.coefficients, 4 * a.get_ncoeffs()) == 0; }
// returns 0 fine, 3 predicate violated, >= 128 crashed
static int in_child(int (*fn)(int), int arg){ fflush(stdout); pid_t p = fork(); if (p == 0) { int r = fn(arg); fflush(stdout); _exit(r); } int st = 0; waitpid(p, &st, 0); if (WIFSIGNALED(st)) return 128 + WTERMSIG(st); if (WEXITSTATUS(st) == 77) return 128 + 6; return WEXITSTATUS(st); }
static char path[] = "/var/tmp/psreplay_state.fits";
static bool wellformed(const ST& r){ for (unsigned d = 0; d < r.ndim; d++) { if ((long)r.naxes[d] != (long)r.nknots[d] - (long)r.order[d] - 1 || r.naxes[d] < r.order[d] + 1) { printf("returned table: dimension %u has order %u, %llu knots, %llu coefficients\n", d, r.order[d], (unsigned long long)r.nknots[d], (unsigned long long)r.naxes[d]); return false; }
    for (uint64_t i = 0; i < r.nknots[d]; i++) if (!std::isfinite(r.knots[d][i]) || (i && r.knots[d][i] < r.knots[d][i - 1])) { printf("returned table: knots of dimension %u are not finite and non-decreasing\n", d); return false; } } return true; }
static int corrupt_child(int){
  ST r; bool ok = false; try { ok = r.read_fits(path); } catch (std::exception& e) { printf("read failed: %s\n", e.what()); ok = false; }
  if (!ok) { if (r.ndim != 0 || r.naux != 0 || r.aux != nullptr || r.coefficients != nullptr) { printf("failed read left ndim = %u, naux = %u, aux %s\n", r.ndim, r.naux, r.aux ? "non-null" : "null"); return 3; } if (r.get_aux_value("A") != nullptr) { printf("key lookup on the table a failed read left behind found something\n"); return 3; } return 0; }   // destructor runs at return: a crash there is seen by the parent
  if (!wellformed(r)) return 3;
  return 0;
}
// ---- I/O faults on the real cfitsio: the reader's pixel / size / HDU calls are interposed (the executable's definition wins over
// the shared library's); call #io_fail_at reports a read error instead of doing its work
#include <dlfcn.h>
static long io_count = 0, io_fail_at = -1;
static bool io_hit(int* st){ if (io_fail_at >= 0 && io_count++ == io_fail_at) { *st = 108; return true; } return false; }
extern "C" int ffgpxv(fitsfile* f, int dt, long* fp, LONGLONG n, void* nul, void* arr, int* any, int* st){ typedef int (*F)(fitsfile*, int, long*, LONGLONG, void*, void*, int*, int*); static F real = (F)dlsym(RTLD_NEXT, "ffgpxv"); if (io_hit(st)) return *st; return real(f, dt, fp, n, nul, arr, any, st); }
extern "C" int ffgisz(fitsfile* f, int nl, long* nax, int* st){ typedef int (*F)(fitsfile*, int, long*, int*); static F real = (F)dlsym(RTLD_NEXT, "ffgisz"); if (io_hit(st)) return *st; return real(f, nl, nax, st); }
extern "C" int ffmnhd(fitsfile* f, int t, char* nm, int v, int* st){ typedef int (*F)(fitsfile*, int, char*, int, int*); static F real = (F)dlsym(RTLD_NEXT, "ffmnhd"); if (io_hit(st)) return *st; return real(f, t, nm, v, st); }
static int iofail_child(int k){
  { ST w; table(w); w.write_fits(path); }
  long base = live_blocks; bool thr = false, ok = false; long used = 0;
  { ST r; io_count = 0; io_fail_at = k; try { ok = r.read_fits(path); } catch (std::exception& e) { thr = true; } used = io_count; io_fail_at = -1;
    if (used <= k) return 9;                      // the read makes fewer than k interposed calls: the sweep is complete
    if (thr || !ok) { if (r.ndim != 0 || r.naux != 0 || r.aux != nullptr || r.coefficients != nullptr) { printf("I/O call #%d failing: the failed read left ndim = %u, naux = %u\n", k, r.ndim, r.naux); return 3; } } }
  if (live_blocks != base) { printf("I/O call #%d failing (%s): %ld block(s) obtained during the read were never released\n", k, thr || !ok ? "read failed" : "read fell back to defaults", live_blocks - base); return 3; }
  return 0;
}
static int allocfail_child(int k){
  ST t; table(t); { ST w; table(w); w.write_fits(path); }
  ST r; ST pre; pre.read_fits(path); if (scen != "readfaults" && scen != "fitfaults") r.read_fits(path);
  long before = live_blocks; double kk[3] = {-1, 0, 1}; std::vector<size_t> perm(nd); for (unsigned d = 0; d < nd; d++) perm[d] = nd - 1 - d; bool thr = false;
  ::ndsparse fdata; std::vector<std::vector<double>> fco(nd); std::vector<std::vector<unsigned>> fidx(nd); std::vector<unsigned*> fip(nd); std::vector<unsigned> franges(nd); std::vector<double> fy, fw; std::vector<double> fsm(nd, 0.5); std::vector<uint32_t> fpo(nd);
  if (scen == "fitfaults") { size_t R = 1; for (unsigned d = 0; d < nd; d++) { unsigned ncd = 2 + d; double lo = kn[d][ord[d]], hi = kn[d][nk[d] - ord[d] - 1]; for (unsigned i = 0; i < ncd; i++) fco[d].push_back(lo + (hi - lo) * (2 * i + 1) / (2.0 * ncd)); R *= ncd; franges[d] = ncd; fpo[d] = ord[d] ? 1 : 0; }
    std::vector<unsigned> ix(nd, 0); for (size_t r2 = 0; r2 < R; r2++) { for (unsigned d = 0; d < nd; d++) fidx[d].push_back(ix[d]); fy.push_back(1.0 + 0.25 * r2); fw.push_back(1.0); int d = nd - 1; while (d >= 0 && ++ix[d] == fco[d].size()) { ix[d] = 0; d--; } }
    for (unsigned d = 0; d < nd; d++) fip[d] = fidx[d].data(); memset(&fdata, 0, sizeof fdata); fdata.rows = R; fdata.ndim = nd; fdata.x = fy.data(); fdata.i = fip.data(); fdata.ranges = franges.data(); }
  bool known_scen = scen == "fitfaults" || scen == "readfaults" || scen == "convolve" || scen == "permute" || scen == "keys";
  if (!known_scen) { printf("no real-build replay for scenario %s\n", scen.c_str()); return 9; }
  try { if (scen == "fitfaults") { std::vector<std::vector<double>> kv(kn); std::vector<uint32_t> ov(ord.begin(), ord.end()); fail_at = alloc_count + k; r.fit(fdata, fw, fco, ov, kv, fsm, fpo); }
    else if (scen == "readfaults") { fail_at = alloc_count + k; r.read_fits(path); } else if (scen == "convolve") { fail_at = alloc_count + k; r.convolve(cdim, kk, 3); } else if (scen == "permute") { fail_at = alloc_count + k; r.permuteDimensions(perm); }
    else if (scen == "keys") { bool overwrite = what.find("write_key(") != std::string::npos; fail_at = alloc_count + k; if (overwrite) r.write_key(aux.empty() ? "FRESHKEY" : aux.front().first.c_str(), "value"); else if (aux.empty()) r.write_key("FRESHKEY", "value"); else r.remove_key(aux.back().first.c_str()); } }
  catch (std::exception& e) { thr = true; }
  fail_at = -1;
  if (!thr) return 9;                            // the operation needs fewer than k allocations: the sweep is complete
  if (scen == "readfaults" || scen == "fitfaults") { if (r.ndim == 0 && (r.naux != 0 || r.aux != nullptr || r.coefficients != nullptr || r.get_aux_value("A") != nullptr)) { printf("allocation #%d failing: the failed operation left ndim = 0 but naux = %u / stale pointers\n", k, r.naux); return 3; } if (r.ndim != 0) { printf("allocation #%d failing: failed %s left ndim = %u\n", k, scen == "fitfaults" ? "fit" : "read", r.ndim); return 3; } return 0; }
  printf("allocation #%d failing: ", k);
  if (r.ndim != 0 && !same(pre, r)) { printf("the failed operation left a table that is neither the old one nor empty\n"); return 3; }
  return 0;                                      // destructors run now: double free aborts, seen by the parent
}
int main(int argc, char** argv){
  std::ifstream in(argv[1]); std::string line, w; if (!in) { printf("cannot open spec %s\n", argv[1]); return 2; }
  while (std::getline(in, line)) { std::istringstream ls(line); if (!(ls >> w)) continue;
    if (w == "state") { std::string id, tok; ls >> id; while (ls >> tok) { if (tok == "nd") { ls >> nd; ord.resize(nd); nk.resize(nd); } else if (tok == "scen") ls >> scen; else if (tok == "cdim") ls >> cdim; } }
    else if (w == "what") std::getline(ls, what);
    else if (w == "dim") { unsigned d; std::string a; ls >> d >> a >> ord[d] >> a >> nk[d]; }
    else if (w == "aux") { std::string kv; ls >> kv; size_t bar = kv.find('|'); std::string v = kv.substr(bar + 1); for (auto& c : v) if (c == '~') c = ' '; aux.push_back({kv.substr(0, bar), v}); } }
  kn.resize(nd); uint64_t nc = 1; for (unsigned d = 0; d < nd; d++) { for (uint64_t i = 0; i < nk[d]; i++) kn[d].push_back(d + (double)i); nc *= nk[d] - ord[d] - 1; } cf.resize(nc); for (uint64_t i = 0; i < nc; i++) cf[i] = 1.f + i;
  int bad = 0;
  if (scen.rfind("corrupt", 0) == 0) {
    std::string v = scen.substr(scen.find(':') + 1); { ST t; table(t); t.write_fits(path); }
    fitsfile* f; int st = 0; fits_open_file(&f, path, READWRITE, &st); int hd = 0;
    auto to_ext = [&](const std::string& nm){ st = 0; fits_movnam_hdu(f, IMAGE_HDU, (char*)nm.c_str(), 0, &st); };
    if (v == "order_big") { int o = (int)nk[0]; fits_update_key(f, TINT, "ORDER0", &o, 0, &st); }
    else if (v == "order_plus1") { int o = (int)ord[0] + 1; fits_update_key(f, TINT, "ORDER0", &o, 0, &st); }
    else if (v == "order_missing") fits_delete_key(f, "ORDER0", &st);
    else if (v == "naxis_small" || v == "naxis_large") { std::vector<long> ax(nd); for (unsigned k = 0; k < nd; k++) ax[k] = nk[nd - 1 - k] - ord[nd - 1 - k] - 1; ax[nd - 1] += v == "naxis_small" ? -1 : 2; fits_resize_img(f, FLOAT_IMG, nd, ax.data(), &st); }
    else if (v == "knots_missing") { to_ext("KNOTS" + std::to_string(nd - 1)); fits_delete_hdu(f, &hd, &st); }
    else if (v == "knots_short" || v == "knots_long") { to_ext("KNOTS0"); long n = (long)nk[0] + (v == "knots_short" ? -1 : 2); fits_resize_img(f, DOUBLE_IMG, 1, &n, &st); }
    else if (v == "knots_unsorted") { to_ext("KNOTS0"); std::vector<double> k2 = kn[0]; std::swap(k2.front(), k2.back()); long fp = 1; fits_write_pix(f, TDOUBLE, &fp, k2.size(), k2.data(), &st); }
    else if (v == "knots_nan_first" || v == "knots_ninf_first") { to_ext("KNOTS0"); std::vector<double> k2 = kn[0]; k2[0] = v == "knots_nan_first" ? NAN : -INFINITY; long fp = 1; fits_write_pix(f, TDOUBLE, &fp, k2.size(), k2.data(), &st); }
    else if (v == "knots_pinf_last") { to_ext("KNOTS" + std::to_string(nd - 1)); std::vector<double> k2 = kn[nd - 1]; k2.back() = INFINITY; long fp = 1; fits_write_pix(f, TDOUBLE, &fp, k2.size(), k2.data(), &st); }
    else if (v == "knots_nan") { to_ext("KNOTS0"); std::vector<double> k2 = kn[0]; k2[1] = NAN; long fp = 1; fits_write_pix(f, TDOUBLE, &fp, k2.size(), k2.data(), &st); }
    else if (v == "extents_short") { to_ext("EXTENTS"); long n = 1; fits_resize_img(f, DOUBLE_IMG, 1, &n, &st); }
    else if (v == "extents_long") { to_ext("EXTENTS"); long n = 2 * (long)nd + 100; fits_resize_img(f, DOUBLE_IMG, 1, &n, &st); }
    else if (v == "foreign") { for (unsigned d = 0; d < nd; d++) { st = 0; fits_delete_key(f, ("ORDER" + std::to_string(d)).c_str(), &st); } st = 0; fits_delete_key(f, "TYPE", &st); int n = 0; st = 0; fits_get_num_hdus(f, &n, &st); while (n > 1) { fits_movabs_hdu(f, n, &hd, &st); fits_delete_hdu(f, &hd, &st); n--; } }
    st = 0; fits_close_file(f, &st);
    int r = in_child(corrupt_child, 0); if (r == 3) bad = 1; else if (r >= 128) { printf("the process crashed (signal %d) reading the file or destroying the table\n", r - 128); bad = 1; }
  } else if (scen == "occupied") {
    auto child = [](int)->int { ST t; table(t); t.write_fits(path); ST r; r.read_fits(path); bool refused = false; try { r.read_fits(path); } catch (std::exception&) { refused = true; }
      if (!refused || !same(t, r)) { printf("read into a populated table was not refused, or changed it\n"); return 3; }
      ST a(std::move(r)); if (r.ndim != 0 || r.naux != 0 || r.aux != nullptr || r.coefficients != nullptr) { printf("moved-from table is not empty: ndim = %u, naux = %u\n", r.ndim, r.naux); return 3; }
      if (r.get_aux_value("A") != nullptr) { printf("key lookup on the moved-from table found something\n"); return 3; }
      ST b; b = std::move(a); if (a.ndim != 0 || a.naux != 0) { printf("table moved from by assignment to an empty one is not empty\n"); return 3; } if (!same(t, b)) { printf("move-assigned table differs\n"); return 3; } return 0; };
    int r = in_child(child, 0); if (r == 3) bad = 1; else if (r >= 128) { printf("the process crashed (signal %d)\n", r - 128); bad = 1; }
  } else if (scen == "keylimits") {
    for (unsigned kl : {1u, 8u, 9u, 10u, 21u, 30u}) for (int delta : {0, 1}) { unsigned lim = kl <= 8 ? 68 : 80 - (13 + kl); std::string key(kl, 'K'), val(lim + delta, 'v'); key[0] = 'Q';
      ST t; table(t); bool thr = false; try { t.write_key(key.c_str(), val.c_str()); } catch (std::exception&) { thr = true; }
      if (thr != (delta > 0)) { printf("write_key with a key of %u characters %s a value of %u characters (card limit %u)\n", kl, thr ? "rejected" : "accepted", lim + delta, lim); bad = 1; }
      if (!thr) { t.write_fits(path); ST r; r.read_fits(path); const char* got = r.get_aux_value(key.c_str()); std::string g = got ? got : "<missing>"; while (!g.empty() && g.back() == ' ') g.pop_back();
        if (g != val) { printf("key of %u characters: accepted value of %zu characters came back from the file with %zu characters\n", kl, val.size(), g.size()); bad = 1; } } }
  } else {
    if (scen == "readfaults" && what.find("I/O call") != std::string::npos) for (int k = 0; k < 200 && !bad; k++) { int r = in_child(iofail_child, k); if (r == 9) break; if (r == 3) bad = 1; else if (r >= 128) { printf("I/O call #%d failing: the process crashed (signal %d)\n", k, r - 128); bad = 1; } }
    for (int k = 0; k < 5000 && !bad; k++) { int r = in_child(allocfail_child, k); if (r == 9) break; if (r == 3) bad = 1; else if (r >= 128) { printf("allocation #%d failing: the process crashed (signal %d) in the operation or when the objects were destroyed\n", k, r - 128); bad = 1; } }
  }
  unlink(path);
  printf(bad ? "REPRODUCED\n" : "HELD\n"); return bad ? 3 : 0;
}
