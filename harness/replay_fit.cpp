// Replay for C09 / C10 / C17 on the real library (real CHOLMOD): the case block of the E2 harness is run with concrete
// pseudo-random data/weights; the result is compared with an independent dense solution of the normal equations
// (C09), checked for monotonicity (C10), or with pointwise half-open evaluation (C17).  exit 3 = REPRODUCED.
#include "mktable.hpp"
#include <cstdio>
#include <cmath>
#include <fstream>
static long double Qd(const std::string& s){ size_t p = s.find('/'); return p == std::string::npos ? strtold(s.c_str(), 0) : strtold(s.substr(0, p).c_str(), 0) / strtold(s.substr(p + 1).c_str(), 0); }
typedef std::vector<long double> LV;
static long double cdb(const LV& t, int j, int n, long double x){ if (n == 0) return (x >= t[j] && x < t[j + 1]) ? 1 : 0; long double r = 0;
  if (t[j + n] != t[j]) r += (x - t[j]) / (t[j + n] - t[j]) * cdb(t, j, n - 1, x); if (t[j + n + 1] != t[j + 1]) r += (t[j + n + 1] - x) / (t[j + n + 1] - t[j + 1]) * cdb(t, j + 1, n - 1, x); return r; }
static std::vector<int> ilist(const std::string& s){ std::vector<int> o; std::stringstream ss(s); std::string x; while (std::getline(ss, x, ',')) if (!x.empty()) o.push_back(atoi(x.c_str())); return o; }
struct Dim { unsigned order = 0, porder = 0; bool lam = false; LV knots, coords; };
int main(int argc, char** argv){
  std::ifstream in(argv[1]); std::vector<std::string> lines; std::string line; while (std::getline(in, line)) lines.push_back(line); int bad = 0;
  for (size_t li = 0; li < lines.size(); li++) { std::istringstream ls(lines[li]); std::string kind; if (!(ls >> kind) || (kind != "fit" && kind != "grid")) continue;
    std::string id, tok; unsigned ND = 0; int monodim = -1; bool one_sm = false, one_po = false, rev = false; std::vector<int> skip, zero, zeros; ls >> id;
    while (ls >> tok) { if (tok == "nd") ls >> ND; else if (tok == "monodim") ls >> monodim; else if (tok == "smoothing") { std::string v; ls >> v; one_sm = v == "one"; } else if (tok == "porder") { std::string v; ls >> v; one_po = v == "one"; }
      else if (tok == "skip") { std::string v; ls >> v; skip = ilist(v); } else if (tok == "zero") { std::string v; ls >> v; zero = ilist(v); } else if (tok == "zeros") { std::string v; ls >> v; zeros = ilist(v); } else if (tok == "rev") rev = true; }
    std::vector<Dim> dims(ND);
    for (li++; li < lines.size() && lines[li] != "end"; li++) { std::istringstream ds(lines[li]); std::string w; ds >> w; if (w != "dim") continue; unsigned d; ds >> d; std::string t; bool inco = false;
      while (ds >> t) { if (t == "order") ds >> dims[d].order; else if (t == "porder") ds >> dims[d].porder; else if (t == "lam") { std::string v; ds >> v; dims[d].lam = v != "0"; } else if (t == "knots") inco = false; else if (t == "|") {} else if (t == "coords") inco = true; else (inco ? dims[d].coords : dims[d].knots).push_back(Qd(t)); } }
    std::vector<uint64_t> nax(ND), str(ND); uint64_t N = 1; for (int d = ND - 1; d >= 0; d--) { nax[d] = dims[d].knots.size() - dims[d].order - 1; str[d] = N; N *= nax[d]; }
    std::vector<std::vector<double>> kn(ND), co(ND); for (unsigned d = 0; d < ND; d++) { for (auto k : dims[d].knots) kn[d].push_back((double)k); for (auto c : dims[d].coords) co[d].push_back((double)c); }
    if (kind == "fit") {
      std::vector<std::vector<unsigned>> rows; { std::vector<unsigned> ix(ND, 0); int cell = 0; while (true) { if (std::find(skip.begin(), skip.end(), cell) == skip.end()) rows.push_back(ix); cell++; int d = ND - 1; while (d >= 0 && ++ix[d] == co[d].size()) { ix[d] = 0; d--; } if (d < 0) break; } }
      if (rev) std::reverse(rows.begin(), rows.end());
      size_t R = rows.size(); photospline::ndsparse data(R, ND); std::vector<double> w(R), y(R);
      for (size_t r = 0; r < R; r++) { y[r] = 1 + std::sin(1.7 * r) + 0.3 * (r % 5); data.insertEntry(y[r], rows[r].data()); w[r] = std::find(zero.begin(), zero.end(), (int)r) != zero.end() ? 0.0 : 0.5 + (r * 7 % 11) / 5.0; }
      for (unsigned d = 0; d < ND; d++) data.ranges[d] = co[d].size();
      std::vector<uint32_t> ord(ND), po(ND); std::vector<double> lam(ND);
      for (unsigned d = 0; d < ND; d++) { ord[d] = dims[d].order; po[d] = one_po ? dims[0].porder : dims[d].porder; lam[d] = (one_sm ? dims[0].lam : dims[d].lam) ? (one_sm ? 0.75 : 0.75 + d) : 0.0; }
      std::vector<double> smv = one_sm ? std::vector<double>{lam[0]} : lam; std::vector<uint32_t> pov = one_po ? std::vector<uint32_t>{po[0]} : po;
      ST t; try { t.fit(data, w, co, ord, kn, smv, pov, monodim < 0 ? ST::no_monodim : (uint32_t)monodim, false); } catch (std::exception& e) { printf("%s: fit threw: %s\n", id.c_str(), e.what()); bad = 1; continue; }
      if (monodim >= 0) { for (uint64_t a = 0; a < N; a++) { uint64_t m = a / str[monodim] % nax[monodim]; if (m > 0 && t.coefficients[a] < t.coefficients[a - str[monodim]] - 1e-6f * std::fabs(t.coefficients[a])) { printf("%s: coefficient %llu decreases along the monotonic dimension\n", id.c_str(), (unsigned long long)a); bad = 1; break; } } continue; }
      // reference normal equations
      std::vector<long double> A(N * N, 0), b(N, 0);
      std::vector<std::vector<LV>> B(ND); for (unsigned d = 0; d < ND; d++) { B[d].assign(co[d].size(), LV(nax[d])); for (size_t r = 0; r < co[d].size(); r++) for (uint64_t j = 0; j < nax[d]; j++) B[d][r][j] = cdb(dims[d].knots, j, dims[d].order, dims[d].coords[r]); }
      auto multi = [&](uint64_t f){ std::vector<uint64_t> m(ND); for (unsigned d = 0; d < ND; d++) { m[d] = f / str[d]; f %= str[d]; } return m; };
      for (uint64_t a = 0; a < N; a++) { auto ma = multi(a); for (size_t r = 0; r < R; r++) { long double pa = 1; for (unsigned d = 0; d < ND; d++) pa *= B[d][rows[r][d]][ma[d]]; b[a] += w[r] * y[r] * pa; for (uint64_t c = 0; c < N; c++) { auto mc = multi(c); long double pc = 1; for (unsigned d = 0; d < ND; d++) pc *= B[d][rows[r][d]][mc[d]]; A[a * N + c] += w[r] * pa * pc; } } }
      for (unsigned d = 0; d < ND; d++) { int n = dims[d].order, Nn = nax[d], p = po[d]; std::vector<LV> D(Nn, LV(Nn, 0)); for (int i = 0; i < Nn; i++) D[i][i] = 1; int rows_ = Nn;
        for (int m = 1; m <= p; m++) { std::vector<LV> E(rows_ - 1, LV(Nn, 0)); for (int i = 0; i < rows_ - 1; i++) { long double f = (n - m + 1) / (dims[d].knots[i + n + 1] - dims[d].knots[i + m]); for (int c = 0; c < Nn; c++) E[i][c] = f * (D[i + 1][c] - D[i][c]); } D = E; rows_--; } D.resize(rows_);
        for (uint64_t a = 0; a < N; a++) for (uint64_t c = 0; c < N; c++) { auto ma = multi(a), mc = multi(c); bool same = true; for (unsigned e = 0; e < ND; e++) if (e != d && ma[e] != mc[e]) same = false; if (!same) continue; long double s = 0; for (auto& row : D) s += row[ma[d]] * row[mc[d]]; A[a * N + c] += lam[d] * s; } }
      LV x(N); { LV M = A, r = b; for (uint64_t k = 0; k < N; k++) { uint64_t piv = k; for (uint64_t i = k + 1; i < N; i++) if (fabsl(M[i * N + k]) > fabsl(M[piv * N + k])) piv = i; for (uint64_t c = 0; c < N; c++) std::swap(M[k * N + c], M[piv * N + c]); std::swap(r[k], r[piv]);
          for (uint64_t i = k + 1; i < N; i++) { long double f = M[i * N + k] / M[k * N + k]; for (uint64_t c = k; c < N; c++) M[i * N + c] -= f * M[k * N + c]; r[i] -= f * r[k]; } }
        for (int64_t i = N - 1; i >= 0; i--) { long double s = r[i]; for (uint64_t c = i + 1; c < N; c++) s -= M[i * N + c] * x[c]; x[i] = s / M[i * N + i]; } }
      long double scale = 0; for (auto v : x) scale = std::max(scale, fabsl(v));
      for (uint64_t a = 0; a < N; a++) if (!(fabsl(x[a] - t.coefficients[a]) <= 1e-3L * scale + 1e-5L)) { printf("%s: coefficient %llu is %g, minimiser of the stated objective has %Lg\n", id.c_str(), (unsigned long long)a, t.coefficients[a], x[a]); bad = 1; break; }
    } else {
      std::vector<unsigned> ord(ND); for (unsigned d = 0; d < ND; d++) ord[d] = dims[d].order; std::vector<float> cf(N); for (uint64_t a = 0; a < N; a++) cf[a] = std::find(zeros.begin(), zeros.end(), (int)a) != zeros.end() ? 0.f : 1.f + 0.5f * (a % 4);
      ST t; mk_table(t, ord, kn, cf); auto nd = t.grideval(co);
      uint64_t G = 1; std::vector<uint64_t> gs(ND); for (int d = ND - 1; d >= 0; d--) { gs[d] = G; G *= co[d].size(); } std::vector<double> acc(G, 0);
      for (unsigned d = 0; d < ND; d++) if (nd->ranges[d] != co[d].size()) { printf("%s: index range %u != grid length %zu\n", id.c_str(), nd->ranges[d], co[d].size()); bad = 1; }
      for (size_t r = 0; r < nd->rows; r++) { uint64_t f = 0; bool ok = true; for (unsigned d = 0; d < ND; d++) { if (nd->i[d][r] >= co[d].size()) ok = false; f += nd->i[d][r] * gs[d]; } if (!ok) { printf("%s: index out of range\n", id.c_str()); bad = 1; continue; } acc[f] += nd->x[r]; }
      for (uint64_t f = 0; f < G; f++) { std::vector<uint64_t> g(ND); uint64_t q = f; bool inside = true; for (unsigned d = 0; d < ND; d++) { g[d] = q / gs[d]; q %= gs[d]; if (!(dims[d].coords[g[d]] > dims[d].knots.front() && dims[d].coords[g[d]] < dims[d].knots.back())) inside = false; } if (!inside) continue;
        long double ref = 0; for (uint64_t a = 0; a < N; a++) { long double p = cf[a]; uint64_t qa = a; for (unsigned d = 0; d < ND; d++) { p *= cdb(dims[d].knots, qa / str[d], dims[d].order, dims[d].coords[g[d]]); qa %= str[d]; } ref += p; }
        if (!(fabsl(ref - acc[f]) <= 1e-5L * (fabsl(ref) + 1))) { printf("%s: grid point %llu has %g, pointwise definition %Lg\n", id.c_str(), (unsigned long long)f, acc[f], ref); bad = 1; break; } }
    } }
  printf(bad ? "REPRODUCED\n" : "HELD\n"); return bad ? 3 : 0;
}
