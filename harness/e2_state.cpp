// E2 harness for C20 / C07: the table object across failing operations, and the reader on inconsistent files.
// The IR-derived member functions run natively on the cfitsio container model (single injected I/O failure per position)
// and the operator new/delete ledger (single injected allocation failure per position).  After every operation, failed or
// not, the object must be unchanged or empty, destructible without ledger errors or a crash, and balanced.
// case file: "state <id> scen <name> nd N" / "dim d order O nknots K" / "aux KEY|VALUE" / "end"
#include "e2_table_common.hpp"
#include <csignal>
extern "C" {
uint32_t ir_t_read_fits(char* t, char* path); void ir_t_move_construct(char* d, char* s); void ir_t_move_assign(char* d, char* s); uint32_t ir_t_remove_key(char* t, char* key);
uint32_t ir_t_write_key_str(char* t, char* key, char* val); uint32_t ir_t_ndim(char* t);
}
static sigjmp_buf crash_env; static volatile int crash_armed;
static void on_crash(int sig){ if (crash_armed) { crash_armed = 0; siglongjmp(crash_env, sig); } signal(sig, SIG_DFL); raise(sig); }
// run f; returns 0 if it returned, the signal number if it crashed
template<class F> static int guarded(F f){ int s = sigsetjmp(crash_env, 1); if (s) return s; crash_armed = 1; f(); crash_armed = 0; return 0; }

// independent writer (same as in e2_fits.cpp): documented layout, then optional edits
static cf_file* indep_write(const char* name, const ps_table& t){
  cf_file* f = cf_import_begin(name, 0); unsigned nd = t.ndim; std::vector<long> ax(nd); for (unsigned k = 0; k < nd; k++) ax[k] = t.naxes[nd - 1 - k];
  cf_hdu* p = cf_import_hdu(f, -32, nd, ax.data()); for (uint64_t i = 0; i < p->ndata; i++) p->data[i] = (vr64)t.coefficients[i];
  cf_import_card(p, "SIMPLE", "T", 'I', 0); cf_import_card(p, "BITPIX", "-32", 'I', 0); cf_import_card(p, "NAXIS", std::to_string(nd).c_str(), 'I', 0); for (unsigned k = 0; k < nd; k++) cf_import_card(p, ("NAXIS" + std::to_string(k + 1)).c_str(), std::to_string(ax[k]).c_str(), 'I', 0);
  cf_import_card(p, "EXTEND", "T", 'I', 0); cf_import_card(p, "TYPE", "'Spline Coefficient Table'", 'S', 0);
  for (unsigned d = 0; d < nd; d++) cf_import_card(p, ("ORDER" + std::to_string(d)).c_str(), std::to_string(t.order[d]).c_str(), 'I', 0);
  for (unsigned i = 0; i < t.naux; i++) { std::string v = t.aux[i][1]; while (v.size() < 8) v += ' '; cf_import_card(p, t.aux[i][0], ("'" + v + "'").c_str(), 'S', 0); }
  auto ext = [&](const std::string& nm, uint64_t n, const vr64* data){ long a = n; cf_hdu* h = cf_import_hdu(f, -64, 1, &a); for (uint64_t i = 0; i < n; i++) h->data[i] = data[i];
    cf_import_card(h, "XTENSION", "'IMAGE   '", 'S', 0); cf_import_card(h, "BITPIX", "-64", 'I', 0); cf_import_card(h, "NAXIS", "1", 'I', 0); cf_import_card(h, "NAXIS1", std::to_string(n).c_str(), 'I', 0); std::string v = nm; while (v.size() < 8) v += ' '; cf_import_card(h, "EXTNAME", ("'" + v + "'").c_str(), 'S', 0); };
  for (unsigned d = 0; d < nd; d++) ext("KNOTS" + std::to_string(d), t.nknots[d], t.knots[d]);
  ext("EXTENTS", 2 * nd, t.extents[0]);
  return f;
}
static cf_card* find_card(cf_hdu& h, const std::string& k){ for (int i = 0; i < h.ncards; i++) if (k == h.cards[i].key) return &h.cards[i]; return 0; }
static void set_card(cf_hdu& h, const std::string& k, const std::string& v){ cf_card* c = find_card(h, k); if (c) { memset(c->val, 0, sizeof c->val); strncpy(c->val, v.c_str(), sizeof c->val - 1); } }
static void drop_card(cf_hdu& h, const std::string& k){ for (int i = 0; i < h.ncards; i++) if (k == h.cards[i].key) { for (int j = i; j + 1 < h.ncards; j++) h.cards[j] = h.cards[j + 1]; h.ncards--; return; } }
static int find_ext(cf_file* f, const std::string& nm){ for (int h = 1; h < f->nhdu; h++) { cf_card* c = find_card(f->hdu[h], "EXTNAME"); if (c && std::string(c->val).find(nm) != std::string::npos) return h; } return -1; }
static void resize_ext(cf_file* f, int h, long n){ cf_hdu& x = f->hdu[h]; vr64* nd = (vr64*)calloc(n ? n : 1, sizeof(vr64)); for (long i = 0; i < n; i++) nd[i] = i < (long)x.ndata ? x.data[i] : x.data[x.ndata - 1]; free(x.data); x.data = nd; x.ndata = n; x.nwritten = n; /* fits_resize_img extends the data unit: every pixel of the resized image can be read */ x.naxes[0] = n; set_card(x, "NAXIS1", std::to_string(n)); }
static void drop_ext(cf_file* f, int h){ free(f->hdu[h].data); for (int j = h; j + 1 < f->nhdu; j++) f->hdu[j] = f->hdu[j + 1]; f->nhdu--; }

// an empty table: what the default constructor builds (ndim == 0 alone is not enough: stale naux / aux break key lookups and a later fit)
static long is_empty(const ps_table& r){ return r.ndim == 0 && r.naux == 0 && !r.aux && !r.order && !r.knots && !r.nknots && !r.extents && !r.periods && !r.coefficients && !r.naxes && !r.strides; }
static void empty_checked(const std::string& lab, ps_table& r){ eqi(lab + " (every field as after default construction)", is_empty(r), 1); char k[] = "A"; char* v = (char*)1; int sg = guarded([&]{ v = ir_t_get_aux_value((char*)&r, k); }); exc_pending = 0; eqi(lab + " and a key lookup on it finds nothing without crashing", sg == 0 && v == 0, 1); }
// the object after an operation: unchanged or empty (if the operation failed), then destructible and balanced
struct Post { std::string lab; int base_live; int base_err; };
static bool destroy_checked(const std::string& lab, ps_table& r){
  int sig = guarded([&]{ ir_t_destroy((char*)&r); });
  bool thr = exc_pending; exc_pending = 0;
  eqi(lab + " the object can be destroyed (no crash in the destructor)", sig, 0); eqi(lab + " the destructor does not throw", thr, 0);
  return sig == 0;
}

int main(int argc, char** argv){
  if (argc < 3) return 2;
  signal(SIGSEGV, on_crash); signal(SIGBUS, on_crash); signal(SIGABRT, on_crash);
  std::ifstream in(argv[1]); vs_open(argv[2]); std::vector<std::string> lines; std::string line; while (std::getline(in, line)) lines.push_back(line); int ncase = 0, nerr = 0;
  for (size_t li = 0; li < lines.size(); li++) { std::istringstream ls(lines[li]); std::string w; if (!(ls >> w) || w != "state") continue;
    Shape s; std::string id, tok; ls >> id; while (ls >> tok) { if (tok == "nd") ls >> s.nd; else if (tok == "scen") ls >> s.scen; else if (tok == "nconv") ls >> s.nconv; else if (tok == "cdim") ls >> s.cdim; }
    s.order.resize(s.nd); s.nk.resize(s.nd);
    for (li++; li < lines.size() && lines[li] != "end"; li++) { std::istringstream ds(lines[li]); std::string k; ds >> k; if (k == "dim") { unsigned d; std::string a; ds >> d >> a >> s.order[d] >> a >> s.nk[d]; }
      else if (k == "aux") { std::string kv; ds >> kv; size_t bar = kv.find('|'); std::string key = kv.substr(0, bar), val = kv.substr(bar + 1); for (auto& c : val) if (c == '~') c = ' '; s.aux.push_back({key, val}); } }
    const std::string& sc = s.scen; bool realmode = sc == "convolve" || sc == "fitfaults" || sc.rfind("corrupt", 0) == 0;
    ncase++; vs_reset(realmode ? 0 : 1); vs_note("case", id.c_str()); exc_pending = 0; reset_files(); vm_fail_at = -1;
    if (setjmp(vs_jmp)) { nerr++; continue; }
    ps_table t; build(t, s, "", realmode);
    char path[] = "t.fits";
    auto live0 = [&]{ return vm_live_blocks(); };
    if (sc == "readfaults" || sc == "readfaultsmem") {
      // every single failing I/O call and every single failing allocation of a read into an empty table
      bool mem = sc == "readfaultsmem"; uint64_t n = 0; char* buf = 0;
      if (mem) buf = ir_t_write_fits_mem((char*)&t, (char*)&n); else ir_t_write_fits((char*)&t, path); if (exc_pending) vs_error("twin write threw");
      auto rd = [&](ps_table& r)->uint32_t{ return mem ? ir_t_read_fits_mem((char*)&r, buf, n) : ir_t_read_fits((char*)&r, path); };
      int c0 = cf_calls, a0 = vm_alloc_count; { ps_table r; ir_t_default_construct((char*)&r); uint32_t ok = rd(r); if (exc_pending || !ok) vs_error("fault-free read failed"); same(id + " fault-free read:", t, r); ir_t_destroy((char*)&r); }
      int ncalls = cf_calls - c0, nalloc = vm_alloc_count - a0;
      for (int pass = 0; pass < 2; pass++) for (int k = 0; k < (pass ? nalloc : ncalls); k++) {
        std::string lab = id + (pass ? " allocation #" : " I/O call #") + std::to_string(k) + " of the read fails:";
        int base = live0(), berr = vm_errors, bopen = cf_open_handles; ps_table r; ir_t_default_construct((char*)&r);
        if (pass) vm_fail_at = vm_alloc_count + k; else { cf_calls = 0; cf_fail_at = k; }
        uint32_t ok = 0; int sgr = guarded([&]{ ok = rd(r); }); bool thr = exc_pending; exc_pending = 0; vm_fail_at = -1; cf_fail_at = -1;
        eqi(lab + " the reader does not crash", sgr, 0); if (sgr) { cf_open_handles = bopen; vm_errors = berr; continue; }
        if (thr || !ok) { eqi(lab + " a failed read leaves the table empty (ndim == 0)", r.ndim, 0); if (r.ndim == 0) empty_checked(lab + " a failed read leaves the table empty", r);
          if (r.ndim == 0) { uint32_t ok2 = 0; guarded([&]{ ok2 = rd(r); }); bool thr2 = exc_pending; exc_pending = 0; eqi(lab + " the table can be read into again", ok2 && !thr2, 1); if (ok2 && !thr2) same(lab + " second read:", t, r); } }
        else { // a read that reports success although one call failed ignored that error by design (unreadable header space or
               // EXTENTS fall back to defaults): the table need not equal the original, but it must be a consistent object
          int sg2 = guarded([&]{ ir_t_equal((char*)&r, (char*)&r); for (unsigned i = 0; i < r.naux; i++) { (void)strlen(r.aux[i][0]); (void)strlen(r.aux[i][1]); } }); exc_pending = 0;
          eqi(lab + " the table returned by the read can be inspected", sg2, 0); eqi(lab + " the table returned by the read has the dimension of the file", r.ndim, t.ndim); }
        if (destroy_checked(lab, r)) { eqi(lab + " every block is released exactly once", live0(), base); eqi(lab + " no double / foreign delete", vm_errors, berr); }
        eqi(lab + " the FITS handle is closed", cf_open_handles, bopen); cf_open_handles = bopen; vm_errors = berr; }
    } else if (sc == "occupied") {
      ir_t_write_fits((char*)&t, path); uint64_t n = 0; char* buf = ir_t_write_fits_mem((char*)&t, (char*)&n); if (exc_pending) vs_error("twin write threw");
      int base = live0(); ps_table r; ir_t_default_construct((char*)&r); ir_t_read_fits((char*)&r, path); if (exc_pending) vs_error("read failed");
      for (int m = 0; m < 2; m++) { uint32_t ok = m ? ir_t_read_fits_mem((char*)&r, buf, n) : ir_t_read_fits((char*)&r, path); bool thr = exc_pending; exc_pending = 0; std::string lab = id + (m ? " read_fits_mem" : " read_fits") + " into a populated table:";
        eqi(lab + " refused", thr || !ok, 1); same(lab + " table unchanged:", t, r); }
      // moves
      ps_table a; ir_t_move_construct((char*)&a, (char*)&r); eqi(id + " moved-from table is empty", r.ndim, 0); if (r.ndim == 0) empty_checked(id + " moved-from table is empty", r); same(id + " move-constructed table:", t, a); destroy_checked(id + " moved-from:", r);
      ps_table b; ir_t_default_construct((char*)&b); ir_t_move_assign((char*)&b, (char*)&a); eqi(id + " table moved from by assignment to an empty one is empty", a.ndim, 0); if (a.ndim == 0) empty_checked(id + " table moved from by assignment to an empty one is empty", a); same(id + " move-assigned table:", t, b); destroy_checked(id + " move-assigned-from:", a);
      ir_t_move_assign((char*)&b, (char*)&b); same(id + " self move-assignment keeps the table:", t, b);
      destroy_checked(id + " final:", b); eqi(id + " every block is released exactly once", live0(), base);
    } else if (sc == "keys") {
      // write_key (append / overwrite / rejected) and remove_key with every single failing allocation
      ir_t_write_fits((char*)&t, path); if (exc_pending) vs_error("twin write threw");
      char knew[] = "FRESHKEY", vnew[] = "value"; std::vector<std::pair<char*, int>> ops;   // (key, kind) kind 0 write str, 1 remove
      ops.push_back({knew, 0}); if (t.naux) { ops.push_back({t.aux[0][0], 0}); ops.push_back({t.aux[t.naux - 1][0], 1}); } char kres[] = "NAXIS"; ops.push_back({kres, 0}); char kabs[] = "ABSENT"; ops.push_back({kabs, 1});
      for (auto& op : ops) { int used = 0;
        for (int k = -1; k < used || k < 0; k++) { std::string lab = id + (op.second ? " remove_key(" : " write_key(") + op.first + ")" + (k < 0 ? ":" : ", allocation #" + std::to_string(k) + " fails:");
          int base = live0(), berr = vm_errors; ps_table r; ir_t_default_construct((char*)&r); ir_t_read_fits((char*)&r, path); if (exc_pending) vs_error("read failed");
          ps_table pre; ir_t_default_construct((char*)&pre); ir_t_read_fits((char*)&pre, path);
          int a0 = vm_alloc_count; if (k >= 0) vm_fail_at = a0 + k;
          int sgo = guarded([&]{ if (op.second) ir_t_remove_key((char*)&r, op.first); else ir_t_write_key_str((char*)&r, op.first, vnew); }); eqi(lab + " the operation does not crash", sgo, 0);
          bool thr = exc_pending; exc_pending = 0; vm_fail_at = -1; if (k < 0) used = vm_alloc_count - a0;
          if (thr && !sgo) { int sg3 = guarded([&]{ same(lab + " failed operation leaves the table unchanged:", pre, r); }); eqi(lab + " the table can still be inspected after the failed operation", sg3, 0); }
          destroy_checked(lab, r); ir_t_destroy((char*)&pre); eqi(lab + " every block is released exactly once", live0(), base); eqi(lab + " no double / foreign delete", vm_errors, berr); vm_errors = berr; } }
    } else if (sc == "fitfaults") {
      // fit() into an empty table with every single failing allocation (operator new; the CHOLMOD model's own storage does not fail)
      unsigned ND = s.nd; std::vector<std::vector<vr64>> kn(ND), co(ND); std::vector<uint32_t> ord(ND), po(ND);
      for (unsigned d = 0; d < ND; d++) { ord[d] = s.order[d]; po[d] = s.order[d] ? 1 : 0; for (uint64_t i = 0; i < s.nk[d]; i++) kn[d].push_back(vs_q((long)i, 1)); unsigned ncd = 2 + d; vr64 lo = kn[d][ord[d]], hi = kn[d][s.nk[d] - ord[d] - 1];
        for (unsigned i = 0; i < ncd; i++) co[d].push_back(vs_add(lo, vs_mul(vs_sub(hi, lo), vs_q(2 * i + 1, 2 * ncd)))); }
      std::vector<std::vector<unsigned>> rowsidx; { std::vector<unsigned> ix(ND, 0); while (true) { rowsidx.push_back(ix); int d = ND - 1; while (d >= 0 && ++ix[d] == co[d].size()) { ix[d] = 0; d--; } if (d < 0) break; } }
      size_t R = rowsidx.size(); struct ndsp { size_t rows, ndim; vr64* x; unsigned** i; unsigned* ranges; } data; data.rows = R; data.ndim = ND; std::vector<vr64> y(R), w(R), sm(ND); std::vector<std::vector<unsigned>> idx(ND, std::vector<unsigned>(R)); std::vector<unsigned*> ip(ND); std::vector<unsigned> ranges(ND);
      for (unsigned d = 0; d < ND; d++) { ranges[d] = co[d].size(); for (size_t r = 0; r < R; r++) idx[d][r] = rowsidx[r][d]; ip[d] = idx[d].data(); char nm[24]; snprintf(nm, 24, "lam%u", d); sm[d] = vs_var_between(nm, vs_q(0, 1), VS_NOBOUND); }
      for (size_t r = 0; r < R; r++) { char nm[24]; snprintf(nm, 24, "y%zu", r); y[r] = vs_var(nm); snprintf(nm, 24, "w%zu", r); w[r] = vs_var_between(nm, vs_q(0, 1), VS_NOBOUND); }
      data.x = y.data(); data.i = ip.data(); data.ranges = ranges.data();
      std::vector<vr64*> cp(ND), kp(ND); std::vector<uint64_t> cn(ND), knn(ND); for (unsigned d = 0; d < ND; d++) { cp[d] = co[d].data(); cn[d] = co[d].size(); kp[d] = kn[d].data(); knn[d] = kn[d].size(); }
      auto dofit = [&](ps_table& r){ ir_w_fit((char*)&r, (char*)&data, (char*)w.data(), R, (char*)cp.data(), (char*)cn.data(), ND, (char*)ord.data(), ND, (char*)kp.data(), (char*)knn.data(), ND, (char*)sm.data(), ND, (char*)po.data(), ND, 0xffffffffu); };
      int used = 0;
      for (int k = -1; k < used || k < 0; k++) { std::string lab = id + " fit" + (k < 0 ? ":" : ", allocation #" + std::to_string(k) + " fails:");
        int base = live0(), berr = vm_errors; ps_table r; ir_t_default_construct((char*)&r); int a0 = vm_alloc_count; if (k >= 0) vm_fail_at = a0 + k;
        int sg = guarded([&]{ dofit(r); }); bool thr = exc_pending; exc_pending = 0; vm_fail_at = -1; if (k < 0) used = vm_alloc_count - a0;
        eqi(lab + " fit does not crash", sg, 0); if (sg) { vm_errors = berr; continue; }
        if (k < 0 && thr) vs_error("fault-free fit threw");
        if (thr) { eqi(lab + " a failed fit leaves the table empty (ndim == 0)", r.ndim, 0); if (r.ndim == 0) empty_checked(lab + " a failed fit leaves the table empty", r); }
        if (destroy_checked(lab, r)) { eqi(lab + " every block is released exactly once", live0(), base); eqi(lab + " no double / foreign delete", vm_errors, berr); } vm_errors = berr; }
    } else if (sc == "keylimits") {
      // C16: a string value is accepted iff it fits the 80-column card next to its key (independent oracle: 68 characters for
      // standard keys, 80-(13+len) for HIERARCH keys); a rejected write leaves the store unchanged, an accepted one is stored whole
      ir_t_write_fits((char*)&t, path); if (exc_pending) vs_error("twin write threw");
      for (unsigned kl : {1u, 8u, 9u, 10u, 21u, 30u}) for (int delta : {0, 1}) {
        unsigned lim = kl <= 8 ? 68 : 80 - (13 + kl); unsigned vl = lim + delta; std::string key(kl, 'K'), val(vl, 'v'); key[0] = 'Q';
        std::string lab = id + " write_key(key of " + std::to_string(kl) + " characters, value of " + std::to_string(vl) + "):";
        int base = live0(); ps_table r; ir_t_default_construct((char*)&r); ir_t_read_fits((char*)&r, path); ps_table pre; ir_t_default_construct((char*)&pre); ir_t_read_fits((char*)&pre, path); if (exc_pending) vs_error("read failed");
        ir_t_write_key_str((char*)&r, (char*)key.c_str(), (char*)val.c_str()); bool thr = exc_pending; exc_pending = 0;
        eqi(lab + " rejected exactly when the value does not fit the card", thr, delta > 0);
        if (thr) same(lab + " rejected write leaves the store unchanged:", pre, r);
        else { char* got = ir_t_get_aux_value((char*)&r, (char*)key.c_str()); eqi(lab + " accepted value is stored whole", got && val == got, 1); }
        ir_t_destroy((char*)&r); ir_t_destroy((char*)&pre); eqi(lab + " every block is released exactly once", live0(), base); }
    } else if (sc == "convolve" || sc == "permute") {
      ir_t_write_fits((char*)&t, path); if (exc_pending) vs_error("twin write threw");
      vr64 kk[3]; for (int i = 0; i < 3; i++) kk[i] = vs_q(i - 1, 1); std::vector<uint64_t> perm(s.nd); for (unsigned d = 0; d < s.nd; d++) perm[d] = s.nd - 1 - d;
      int used = 0;
      for (int k = -1; k < used || k < 0; k++) { std::string lab = id + " " + sc + (k < 0 ? ":" : ", allocation #" + std::to_string(k) + " fails:");
        int base = live0(), berr = vm_errors; ps_table r; ir_t_default_construct((char*)&r); ir_t_read_fits((char*)&r, path); ps_table pre; ir_t_default_construct((char*)&pre); ir_t_read_fits((char*)&pre, path); if (exc_pending) vs_error("read failed");
        int a0 = vm_alloc_count; if (k >= 0) vm_fail_at = a0 + k;
        if (sc == "convolve") ir_t_convolve((char*)&r, s.cdim, (char*)kk, 3); else ir_t_permute((char*)&r, (char*)perm.data(), s.nd);
        bool thr = exc_pending; exc_pending = 0; vm_fail_at = -1; if (k < 0) used = vm_alloc_count - a0;
        if (thr) { if (r.ndim != 0) { int sg = guarded([&]{ same(lab + " failed operation leaves the table unchanged (or empty):", pre, r); }); eqi(lab + " the table can still be inspected after the failed operation", sg, 0); } }
        bool okd = destroy_checked(lab, r); ir_t_destroy((char*)&pre);
        if (okd) eqi(lab + " every block is released exactly once", live0(), base); eqi(lab + " no double / foreign delete", vm_errors, berr); vm_errors = berr; }
    } else if (sc.rfind("corrupt", 0) == 0) {
      // C07: files that are not what the writer produces; the variant is the text after "corrupt:"
      std::string v = sc.substr(sc.find(':') + 1); cf_file* f = indep_write(path, t); cf_hdu& p = f->hdu[0]; unsigned nd = s.nd;
      if (v == "none") {}
      else if (v == "order_big") set_card(p, "ORDER0", std::to_string(t.nknots[0]));              // order > nknots - 2
      else if (v == "order_plus1") set_card(p, "ORDER0", std::to_string(t.order[0] + 1));          // naxes != nknots - order - 1
      else if (v == "order_missing") drop_card(p, "ORDER0");
      else if (v == "naxis_small") { long a = p.naxes[nd - 1] - 1; p.naxes[nd - 1] = a; set_card(p, "NAXIS" + std::to_string(nd), std::to_string(a)); uint64_t n = 1; for (unsigned k = 0; k < nd; k++) n *= p.naxes[k]; p.ndata = n; }
      else if (v == "naxis_large") { long a = p.naxes[nd - 1] + 2; p.naxes[nd - 1] = a; set_card(p, "NAXIS" + std::to_string(nd), std::to_string(a)); uint64_t n = 1; for (unsigned k = 0; k < nd; k++) n *= p.naxes[k]; vr64* nd_ = (vr64*)calloc(n, sizeof(vr64)); for (uint64_t i = 0; i < n; i++) nd_[i] = p.data[i % p.ndata]; free(p.data); p.data = nd_; p.ndata = n; p.nwritten = n; }
      else if (v == "knots_missing") drop_ext(f, find_ext(f, "KNOTS" + std::to_string(nd - 1)));
      else if (v == "knots_short") resize_ext(f, find_ext(f, "KNOTS0"), (long)t.nknots[0] - 1);
      else if (v == "knots_long") resize_ext(f, find_ext(f, "KNOTS0"), (long)t.nknots[0] + 2);
      else if (v == "knots_unsorted") { cf_hdu& h = f->hdu[find_ext(f, "KNOTS0")]; std::swap(h.data[0], h.data[h.ndata - 1]); }
      else if (v == "knots_nan") { cf_hdu& h = f->hdu[find_ext(f, "KNOTS0")]; h.data[1] = vs_const_bits64(0x7ff8000000000000ULL); }
      else if (v == "knots_nan_first") { cf_hdu& h = f->hdu[find_ext(f, "KNOTS0")]; h.data[0] = vs_const_bits64(0x7ff8000000000000ULL); }
      else if (v == "knots_ninf_first") { cf_hdu& h = f->hdu[find_ext(f, "KNOTS0")]; h.data[0] = vs_const_bits64(0xfff0000000000000ULL); }
      else if (v == "knots_pinf_last") { cf_hdu& h = f->hdu[find_ext(f, "KNOTS" + std::to_string(nd - 1))]; h.data[h.ndata - 1] = vs_const_bits64(0x7ff0000000000000ULL); }
      else if (v == "extents_short") resize_ext(f, find_ext(f, "EXTENTS"), 1);
      else if (v == "extents_long") resize_ext(f, find_ext(f, "EXTENTS"), 2 * (long)nd + 100);       // more extents than dimensions: must not be read into the 2*ndim block
      else if (v == "foreign") { for (unsigned d = 0; d < nd; d++) drop_card(p, "ORDER" + std::to_string(d)); drop_card(p, "TYPE"); while (f->nhdu > 1) drop_ext(f, f->nhdu - 1); }
      else if (v == "naxis0") { p.naxis = 0; set_card(p, "NAXIS", "0"); }
      else vs_error("unknown corruption");
      int base = live0(), berr = vm_errors, bopen = cf_open_handles; ps_table r; ir_t_default_construct((char*)&r);
      uint32_t ok = 0; int sg = guarded([&]{ ok = ir_t_read_fits((char*)&r, path); }); bool thr = exc_pending; exc_pending = 0; std::string lab = id + " (" + v + "):";
      eqi(lab + " the reader does not crash", sg, 0);
      if (sg == 0) {
        if (thr || !ok) { eqi(lab + " a failed read leaves the table empty (ndim == 0)", r.ndim, 0); if (r.ndim == 0) empty_checked(lab + " a failed read leaves the table empty", r); }
        else { // a table was returned: it must be well formed
          for (unsigned d = 0; d < r.ndim; d++) { eqi(lab + " returned table: coefficient count == nknots - order - 1", (long)r.naxes[d], (long)r.nknots[d] - (long)r.order[d] - 1);
            eqi(lab + " returned table: at least order + 1 coefficients", (long)r.naxes[d] >= (long)r.order[d] + 1, 1);
            bool sorted = true, finite = true; for (uint64_t i = 0; i < r.nknots[d]; i++) { if (!vs_is_finite_const(r.knots[d][i])) { finite = false; continue; } if (i && vs_is_finite_const(r.knots[d][i - 1]) && vs_cmp_const(r.knots[d][i - 1], r.knots[d][i]) > 0) sorted = false; }
            eqi(lab + " returned table: knots finite", finite, 1); eqi(lab + " returned table: knots non-decreasing", sorted, 1); }
          uint64_t nc = 1; for (int d = (int)r.ndim - 1; d >= 0; d--) { eqi(lab + " returned table: strides match the axis lengths", r.strides[d], nc); nc *= r.naxes[d]; }
          eqi(lab + " returned table: coefficient array matches the image size", nc, f->hdu[0].ndata);
          int s2 = guarded([&]{ ir_t_equal((char*)&r, (char*)&r); char out[] = "o.fits"; ir_t_write_fits((char*)&r, out); }); exc_pending = 0; eqi(lab + " comparison and re-serialisation of the returned table do not crash", s2, 0); }
        if (destroy_checked(lab, r)) { eqi(lab + " every block is released exactly once", live0(), base); eqi(lab + " no double / foreign delete", vm_errors, berr); }
        eqi(lab + " the FITS handle is closed", cf_open_handles, bopen); }
      vm_errors = berr; cf_open_handles = bopen;
    } else vs_error("unknown scenario");
  }
  printf("E2 cases=%d errors=%d\n", ncase, nerr); return 0;
}
