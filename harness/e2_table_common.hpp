// shared by e2_cinter.cpp (C18/C19) and e2_state.cpp (C20/C07): externs of the translated code, table builder, comparison, file model helpers
#pragma once
#include <cstdio>
#include <cstdlib>
#include <cstring>
#include <csetjmp>
#include <string>
#include <vector>
#include <sstream>
#include <fstream>
#include <algorithm>
#ifndef VR_SYM
#define VR_SYM
#endif
extern "C" {
#include "ps_table.h"
#include "models.h"
#include "cfitsio_model.h"
extern jmp_buf vs_jmp; extern int vs_failed; extern char vs_errmsg[512]; extern int exc_pending, exc_type;
struct chandle { char* data; }; struct cbuffer { char* data; uint64_t size; };
// C interface (translated)
uint32_t ir_splinetable_init(char*); void ir_splinetable_free(char*);
uint32_t ir_readsplinefitstable(char* path, char* h); uint32_t ir_writesplinefitstable(char* path, char* h);
uint32_t ir_readsplinefitstable_mem(char* buf, char* h); uint32_t ir_writesplinefitstable_mem(char* buf, char* h);
char* ir_splinetable_get_key(char* h, char* key); uint32_t ir_splinetable_read_key(char* h, uint32_t type, char* key, char* out); uint32_t ir_splinetable_write_key(char* h, uint32_t type, char* key, char* val);
uint32_t ir_splinetable_ndim(char*); uint32_t ir_splinetable_order(char*, uint32_t); uint64_t ir_splinetable_nknots(char*, uint32_t); char* ir_splinetable_knots(char*, uint32_t);
vr64 ir_splinetable_knot(char*, uint32_t, uint64_t); vr64 ir_splinetable_lower_extent(char*, uint32_t); vr64 ir_splinetable_upper_extent(char*, uint32_t); vr64 ir_splinetable_period(char*, uint32_t);
uint64_t ir_splinetable_ncoeffs(char*, uint32_t); uint64_t ir_splinetable_total_ncoeffs(char*); uint64_t ir_splinetable_stride(char*, uint32_t); char* ir_splinetable_coefficients(char*);
uint32_t ir_tablesearchcenters(char*, char*, char*); vr64 ir_ndsplineeval(char*, char*, char*, uint32_t); void ir_ndsplineeval_gradient(char*, char*, char*, char*);
uint32_t ir_splinetable_convolve(char*, uint32_t, char*, uint64_t);
uint32_t ir_splinetable_glamfit(char*, char*, char*, char*, char*, char*, char*, char*, char*, uint32_t, uint8_t); uint32_t ir_splinetable_grideval(char*, char*, char*, char*); void ir_ndsparse_destroy(char*);
void ir_w_fit(char* t, char* data, char* w, uint64_t nw, char* coords, char* ncoords, uint64_t ncv, char* orders, uint64_t no, char* knots, char* nknots, uint64_t nkv, char* sm, uint64_t nsm, char* po, uint64_t npo, uint32_t monodim); char* ir_w_grideval(char* t, char* coords, char* ncoords, uint64_t ncv); void ir_w_ndsparse_delete(char* nd); uint32_t ir_splinetable_permute(char*, char*);
// twins
char* ir_t_write_fits_mem(char* t, char* size); uint32_t ir_t_read_fits_mem(char* t, char* buf, uint64_t n); void ir_t_write_fits(char* t, char* path); void ir_t_construct_path(char* t, char* path);
void ir_t_default_construct(char* t); void ir_t_destroy(char* t); uint32_t ir_t_equal(char* a, char* b); char* ir_t_get_aux_value(char* t, char* key);
uint32_t ir_t_read_key_int(char* t, char* key, char* out); uint32_t ir_t_write_key_int(char* t, char* key, uint32_t v); void ir_t_permute(char* t, char* p, uint64_t n); void ir_t_convolve(char* t, uint32_t dim, char* knots, uint64_t n);
uint32_t ir_t_searchcenters(char*, char*, char*); vr64 ir_t_eval(char*, char*, char*, uint32_t); void ir_t_gradient(char*, char*, char*, char*);
// C19: table with a counting allocator
void ir_e_construct(char* t, char* path); void ir_e_convolve(char* t, uint32_t dim, char* knots, uint64_t n); void ir_e_destroy(char* t); uint64_t ir_e_estimate(char* path, uint32_t nconv, uint32_t dim); uint64_t ir_e_sizeof(void);
uint64_t tab_cur, tab_peak, tab_errors; int tab_live;
static struct { void* p; uint64_t n; } tab_blk[512];
void* ir_vm_tab_alloc(uint64_t n){ void* p = malloc(n ? n : 1); for (int i = 0; i < 512; i++) if (!tab_blk[i].p) { tab_blk[i].p = p; tab_blk[i].n = n; break; } tab_live++; tab_cur += n; if (tab_cur > tab_peak) tab_peak = tab_cur; return p; }
void ir_vm_tab_free(char* p, uint64_t n){ if (!p) return; for (int i = 0; i < 512; i++) if (tab_blk[i].p == p) { if (tab_blk[i].n != n) tab_errors++; tab_cur -= tab_blk[i].n; tab_blk[i].p = 0; tab_live--; free(p); return; } tab_errors++; }
// CHOLMOD model hooks (fit / grideval through the C interface): the solution of the linear system is a vector of fresh variables
#include <cholmod.h>
extern int cm_live_objects;
void vm_solve(uint64_t n, const vr64* A, const vr64* b, vr64* x){ (void)A; (void)b; for (uint64_t j = 0; j < n; j++) { char nm[24]; snprintf(nm, 24, "s%llu", (unsigned long long)j); x[j] = vs_var_nonzero(nm); } }   /* non-zero: grideval lists exactly the non-zero coefficients */
char* ir_nnls_normal_block3(char* AtA_, char* Atb_, uint32_t verbose, char* c){ (void)Atb_; (void)verbose; (void)c;
  cholmod_sparse* A = (cholmod_sparse*)AtA_; uint64_t n = A->nrow; cholmod_dense* X = (cholmod_dense*)calloc(1, sizeof *X); X->nrow = n; X->ncol = 1; X->d = n; X->nzmax = n; X->x = calloc(n ? n : 1, 8); X->xtype = CHOLMOD_REAL; cm_live_objects++;
  for (uint64_t j = 0; j < n; j++) { char nm[24]; snprintf(nm, 24, "n%llu", (unsigned long long)j); ((vr64*)X->x)[j] = vs_var_ge0(nm); } return (char*)X; }
uint64_t vm_format_double(vr64 v, char* buf){ (void)v; buf[0] = '1'; return 1; }
int vm_parse_double(const char* t, uint64_t n, vr64* out){ (void)t; (void)n; *out = 0; return 0; }
}
struct Shape { unsigned nconv = 0, cdim = 0; unsigned nd; std::vector<unsigned> order; std::vector<uint64_t> nk; std::vector<std::pair<std::string, std::string>> aux; std::string scen; };
static void eqi(const std::string& l, long a, long b){ vs_prove_eq(vs_q(a, 1), vs_q(b, 1), l.c_str()); }
static void eqh(const std::string& l, vr64 a, vr64 b){ vs_prove_eq(a, b, l.c_str()); }
static std::string rtrim(std::string s){ while (!s.empty() && s.back() == ' ') s.pop_back(); return s; }
template<class T> static T* blk(size_t n){ return (T*)vm_new(n * sizeof(T)); }
static char* dupstr(const std::string& s){ char* p = blk<char>(s.size() + 1); memcpy(p, s.c_str(), s.size() + 1); return p; }
static void build(ps_table& t, const Shape& s, const char* tag, bool concrete_knots = false){
  memset(&t, 0, sizeof t); unsigned nd = s.nd; t.ndim = nd; t.order = blk<uint32_t>(nd); t.nknots = blk<uint64_t>(nd); t.naxes = blk<uint64_t>(nd); t.strides = blk<uint64_t>(nd); t.knots = blk<vr64*>(nd); t.extents = blk<vr64*>(nd); t.extents[0] = blk<vr64>(2 * nd);
  t.periods = 0; uint64_t nc = 1;
  for (int d = nd - 1; d >= 0; d--) { unsigned o = s.order[d]; t.order[d] = o; t.nknots[d] = s.nk[d]; t.naxes[d] = s.nk[d] - o - 1; t.strides[d] = nc; nc *= t.naxes[d];
    vr64* b = blk<vr64>(s.nk[d] + 2 * o); for (unsigned i = 0; i < s.nk[d] + 2 * o; i++) { char nm[40]; snprintf(nm, 40, "%sk%d_%u", tag, d, i); b[i] = concrete_knots ? vs_q((long)i - (long)o + d, 1) : (i >= o && i < o + s.nk[d] ? vs_var_ranked(nm, (int)i) : vs_var(nm)); }   /* the reader requires finite, sorted knots: ranked variables */ t.knots[d] = b + o; t.extents[d] = t.extents[0] + 2 * d;
    char nm[40]; snprintf(nm, 40, "%selo%d", tag, d); t.extents[d][0] = concrete_knots ? t.knots[d][o] : vs_var(nm); snprintf(nm, 40, "%sehi%d", tag, d); t.extents[d][1] = concrete_knots ? t.knots[d][s.nk[d] - o - 1] : vs_var(nm); }
  t.coefficients = blk<vr32>(nc); for (uint64_t i = 0; i < nc; i++) { char nm[40]; snprintf(nm, 40, "%sc%llu", tag, (unsigned long long)i); t.coefficients[i] = (vr32)vs_var(nm); }
  t.naux = s.aux.size(); t.aux = t.naux ? blk<char**>(t.naux) : 0; for (unsigned i = 0; i < t.naux; i++) { t.aux[i] = blk<char*>(2); t.aux[i][0] = dupstr(s.aux[i].first); t.aux[i][1] = dupstr(s.aux[i].second); }
}
static uint64_t ncoef(const ps_table& t){ uint64_t n = 1; for (unsigned d = 0; d < t.ndim; d++) n *= t.naxes[d]; return n; }
static void same(const std::string& id, const ps_table& a, const ps_table& b){
  eqi(id + " ndim", b.ndim, a.ndim); if (a.ndim != b.ndim || a.ndim == 0) return;
  for (unsigned d = 0; d < a.ndim; d++) { eqi(id + " order", b.order[d], a.order[d]); eqi(id + " nknots", b.nknots[d], a.nknots[d]); eqi(id + " naxes", b.naxes[d], a.naxes[d]); eqi(id + " strides", b.strides[d], a.strides[d]);
    if (a.nknots[d] == b.nknots[d]) for (uint64_t i = 0; i < a.nknots[d]; i++) eqh(id + " knot", b.knots[d][i], a.knots[d][i]);
    eqh(id + " lower extent", b.extents[d][0], a.extents[d][0]); eqh(id + " upper extent", b.extents[d][1], a.extents[d][1]); }
  if (ncoef(a) == ncoef(b)) for (uint64_t i = 0; i < ncoef(a); i++) eqh(id + " coefficient", (vr64)b.coefficients[i], (vr64)a.coefficients[i]);
  eqi(id + " number of auxiliary keys", b.naux, a.naux);
  for (unsigned i = 0; i < a.naux && i < b.naux; i++) { eqi(id + " auxiliary key", !strcmp(a.aux[i][0], b.aux[i][0]), 1); eqi(id + " auxiliary value", rtrim(a.aux[i][1]) == rtrim(b.aux[i][1]), 1); }
}
static void reset_files(){ for (int i = 0; i < CF_MAXFILES; i++) if (cf_files[i].used) { for (int h = 0; h < cf_files[i].nhdu; h++) free(cf_files[i].hdu[h].data); memset(&cf_files[i], 0, sizeof cf_files[i]); } cf_calls = 0; cf_fail_at = -1; cf_cut_at = -1; cf_open_handles = 0; cf_close_failures = 0; }
static void drop_file(void* mem){ if (!mem) return; for (int i = 0; i < CF_MAXFILES; i++) if (cf_files[i].used && cf_files[i].membuf == mem) { for (int h = 0; h < cf_files[i].nhdu; h++) free(cf_files[i].hdu[h].data); memset(&cf_files[i], 0, sizeof cf_files[i]); } }
// an exception that is still pending when an extern "C" function has returned has left it
static bool escaped(const std::string& lab){ bool e = exc_pending; exc_pending = 0; eqi(lab + ": no exception leaves the C function", e, 0); return e; }
static ps_table* TT(chandle& h){ return (ps_table*)h.data; }

