// Replay of E2 counterexamples (C01/C02/C03): evaluates the real library at the model's point and compares
// with an exact (GMP) evaluation of the tensor-product B-spline definition on the same rounded inputs.
// spec: "nd N" / "dim d order O knots r.." / "coef r.." / "x r.." / "entry E" / "mask M" / "derivs a,b" / "lane L"
// exit 0 = agrees within tolerance (HELD), 3 = REPRODUCED.
#include "mktable.hpp"
#include <gmpxx.h>
#include <cstdio>
#include <cmath>
#include <fstream>
static mpq_class Q(const std::string& s){ mpq_class q(s); q.canonicalize(); return q; }
typedef std::vector<mpq_class> QV;
static int piece_of(const QV& t, int order, const mpq_class& x){
  int nk = t.size(), na = nk - order - 1, m = -1;
  if (x < t[na]) { for (int i = 0; i < nk; i++) if (t[i] <= x) m = i; }     // right piece: [t_m, t_{m+1})
  else { for (int i = 0; i < nk; i++) if (t[i] < x) m = i; }               // left piece: (t_m, t_{m+1}]
  return m;
}
// value of the der-th derivative of B_{j,n} on piece m at x (exact)
static mpq_class bs(const QV& t, int j, int n, int m, const mpq_class& x, int der){
  if (der > n) return 0;
  if (n == 0) return j == m ? 1 : 0;
  if (m < j || m > j + n) return 0;
  mpq_class r = 0;
  if (der == 0) {
    if (t[j + n] != t[j]) r += (x - t[j]) / (t[j + n] - t[j]) * bs(t, j, n - 1, m, x, 0);
    if (t[j + n + 1] != t[j + 1]) r += (t[j + n + 1] - x) / (t[j + n + 1] - t[j + 1]) * bs(t, j + 1, n - 1, m, x, 0);
  } else {
    if (t[j + n] != t[j]) r += mpq_class(n) / (t[j + n] - t[j]) * bs(t, j, n - 1, m, x, der - 1);
    if (t[j + n + 1] != t[j + 1]) r -= mpq_class(n) / (t[j + n + 1] - t[j + 1]) * bs(t, j + 1, n - 1, m, x, der - 1);
  }
  return r;
}
int main(int argc, char** argv){
  if (argc < 2) return 2;
  std::ifstream in(argv[1]); std::string line, w, entry = "eval_f";
  unsigned nd = 0; std::vector<unsigned> order; std::vector<QV> kn; QV coefq, xq; int mask = 0, lane = 0; std::vector<unsigned> derivs;
  while (std::getline(in, line)) {
    std::istringstream ls(line); if (!(ls >> w)) continue;
    if (w == "nd") { ls >> nd; order.resize(nd); kn.resize(nd); }
    else if (w == "dim") { unsigned d; std::string a; ls >> d >> a >> order[d] >> a; std::string k; while (ls >> k) kn[d].push_back(Q(k)); }
    else if (w == "coef") { std::string k; while (ls >> k) coefq.push_back(Q(k)); }
    else if (w == "x") { std::string k; while (ls >> k) xq.push_back(Q(k)); }
    else if (w == "entry") ls >> entry; else if (w == "mask") ls >> mask; else if (w == "lane") ls >> lane;
    else if (w == "derivs") { std::string s; ls >> s; std::stringstream ss(s); std::string x; while (std::getline(ss, x, ',')) derivs.push_back(atoi(x.c_str())); }
  }
  std::vector<std::vector<double>> knd(nd); uint64_t nc = 1;
  for (unsigned d = 0; d < nd; d++) { for (auto& k : kn[d]) knd[d].push_back(k.get_d()); nc *= kn[d].size() - order[d] - 1; }
  std::vector<float> cf(nc, 0.f); for (uint64_t i = 0; i < nc && i < coefq.size(); i++) cf[i] = (float)coefq[i].get_d();
  ST t; mk_table(t, order, knd, cf);
  std::vector<double> x(nd); for (unsigned d = 0; d < nd; d++) x[d] = xq[d].get_d();
  std::vector<int> c(nd);
  if (!t.searchcenters(x.data(), c.data())) { printf("searchcenters failed\nHELD\n"); return 0; }
  // what is differentiated in which dimension
  std::vector<int> der(nd, 0);
  bool isgrad = entry.find("grad") != std::string::npos, isderiv = entry.find("deriv") != std::string::npos;
  if (isgrad) { if (lane > 0) der[lane - 1] = 1; }
  else if (isderiv) { for (unsigned d = 0; d < nd && d < derivs.size(); d++) der[d] = derivs[d]; }
  else for (unsigned d = 0; d < nd; d++) if (mask & (1 << d)) der[d] = 1;
  double real = 0; std::vector<double> g(nd + 1);
  std::vector<unsigned> dv(derivs); dv.resize(nd, 0);
  if (entry == "eval_f") real = t.ndsplineeval<float>(x.data(), c.data(), mask);
  else if (entry == "eval_d") real = t.ndsplineeval<double>(x.data(), c.data(), mask);
  else if (entry == "call") real = t(x.data());
  else if (entry == "ev_eval_f") real = t.get_evaluator<float>().ndsplineeval(x.data(), c.data(), mask);
  else if (entry == "ev_eval_d") real = t.get_evaluator<double>().ndsplineeval(x.data(), c.data(), mask);
  else if (entry == "ev_call_f") real = t.get_evaluator<float>()(x.data(), mask);
  else if (entry == "ev_call_d") real = t.get_evaluator<double>()(x.data(), mask);
  else if (entry == "deriv") real = t.ndsplineeval_deriv(x.data(), c.data(), dv.data());
  else if (entry == "ev_deriv_f") real = t.get_evaluator<float>().ndsplineeval_deriv(x.data(), c.data(), dv.data());
  else if (entry == "ev_deriv_d") real = t.get_evaluator<double>().ndsplineeval_deriv(x.data(), c.data(), dv.data());
  else if (entry == "grad_f") { t.ndsplineeval_gradient<float>(x.data(), c.data(), g.data()); real = g[lane]; }
  else if (entry == "grad_d") { t.ndsplineeval_gradient<double>(x.data(), c.data(), g.data()); real = g[lane]; }
  else if (entry == "ev_grad_f") { t.get_evaluator<float>().ndsplineeval_gradient(x.data(), c.data(), g.data()); real = g[lane]; }
  else if (entry == "ev_grad_d") { t.get_evaluator<double>().ndsplineeval_gradient(x.data(), c.data(), g.data()); real = g[lane]; }
  else { printf("unknown entry %s\n", entry.c_str()); return 2; }
  // exact oracle on the rounded inputs
  std::vector<QV> kq(nd); std::vector<mpq_class> xe(nd); std::vector<int> pc(nd);
  for (unsigned d = 0; d < nd; d++) { for (double k : knd[d]) kq[d].push_back(mpq_class(k)); xe[d] = mpq_class(x[d]); pc[d] = piece_of(kq[d], order[d], xe[d]); }
  mpq_class sum = 0, mag = 0;
  std::vector<uint64_t> naxes(nd), strides(nd); { uint64_t s = 1; for (int d = nd - 1; d >= 0; d--) { naxes[d] = kn[d].size() - order[d] - 1; strides[d] = s; s *= naxes[d]; } }
  std::vector<uint64_t> ix(nd, 0);
  while (true) {
    mpq_class prod = 1; uint64_t pos = 0;
    for (unsigned d = 0; d < nd; d++) { prod *= bs(kq[d], ix[d], order[d], pc[d], xe[d], der[d]); pos += ix[d] * strides[d]; }
    mpq_class term = mpq_class((double)cf[pos]) * prod; sum += term; mag += abs(term);
    int d = nd - 1; while (d >= 0 && ++ix[d] == naxes[d]) { ix[d] = 0; d--; }
    if (d < 0) break;
  }
  double want = sum.get_d(), tol = 64.0 * 1.1920929e-7 * (mag.get_d() + std::fabs(want)) + 1e-30;
  printf("entry=%s real=%.9g definition=%.9g tolerance=%.3g\n", entry.c_str(), real, want, tol);
  bool bad = !(std::fabs(real - want) <= tol);
  printf(bad ? "REPRODUCED\n" : "HELD\n");
  return bad ? 3 : 0;
}
