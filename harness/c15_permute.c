/* C15: permuteDimensions relabels axes without changing the function (E1, opaque bit patterns).
 * sizes: -DND=<n> -DNAX=<a0,a1,..> (pairwise different axis lengths), argument vector -DPN/-DPERM.  Symbolic: every coefficient / order / nknots / extent / period bit pattern, periods present or NULL. */
#include "ps_table.h"
#include "models.h"
#include <assert.h>
uint64_t nondet_u64(void); uint32_t nondet_u32(void); _Bool nondet_bool(void);
void ir_w_permute(char* t, char* p, uint64_t n);
static const uint64_t NAXV[ND] = {NAX};
#ifndef NCOEF
#error "NCOEF (product of NAX) must be given"
#endif
uint64_t in_perm[PN + 1], in_n; int in_hasperiods;
static void* xmalloc(size_t n){ void* p = malloc(n); __CPROVER_assume(p != 0); return p; }

void harness(void){
  struct ps_table t;
  uint32_t order[ND], o_order[ND]; uint64_t nknots[ND], naxes[ND], strides[ND], o_nknots[ND], o_naxes[ND], o_strides[ND];
  vr64* knots[ND]; vr64* o_knots[ND]; vr64* extents[ND]; vr64 ext[2 * ND], o_ext[2 * ND]; vr64 periods[ND], o_periods[ND];
  vr64 kblk[ND];                       /* one distinct object address per dimension is enough: permute only moves the pointers */
  vr32* coef = xmalloc(NCOEF * sizeof(vr32)); vr32 o_coef[NCOEF];
  t.ndim = ND; t.order = order; t.nknots = nknots; t.naxes = naxes; t.strides = strides; t.knots = knots; t.extents = extents;
  t.coefficients = coef; t.naux = 0; t.aux = 0; t.allocator = 0;
  _Bool hasp = nondet_bool(); in_hasperiods = hasp; t.periods = hasp ? &periods[0] : (vr64*)0;
  uint64_t sz = 1;
  for (int d = ND - 1; d >= 0; d--) { naxes[d] = NAXV[d]; strides[d] = sz; sz *= NAXV[d]; }
  for (unsigned d = 0; d < ND; d++) {
    order[d] = nondet_u32(); nknots[d] = nondet_u64(); knots[d] = &kblk[d]; extents[d] = ext + 2 * d;
    ext[2 * d] = nondet_u64(); ext[2 * d + 1] = nondet_u64(); periods[d] = nondet_u64();
    o_order[d] = order[d]; o_nknots[d] = nknots[d]; o_naxes[d] = naxes[d]; o_strides[d] = strides[d]; o_knots[d] = knots[d];
    o_ext[2 * d] = ext[2 * d]; o_ext[2 * d + 1] = ext[2 * d + 1]; o_periods[d] = periods[d];
  }
  for (unsigned i = 0; i < NCOEF; i++) o_coef[i] = coef[i];
  /* the argument vector: concrete per instance (-DPN=<length> -DPERM=<entries>); the instance grid enumerates every
   * permutation and the malformed shapes (wrong length, duplicate, out of range); all table contents stay symbolic */
  static const uint64_t PV[PN + 1] = {PERM};
  uint64_t n = PN; in_n = n;
  uint64_t* p = xmalloc((n ? n : 1) * sizeof(uint64_t));
  for (unsigned i = 0; i < PN; i++) { p[i] = PV[i]; in_perm[i] = p[i]; }
  _Bool isperm = (n == ND);
  if (isperm) for (unsigned i = 0; i < ND; i++) { if (p[i] >= ND) isperm = 0; for (unsigned j = 0; j < i; j++) if (p[i] == p[j]) isperm = 0; }

  ir_w_permute((char*)&t, (char*)p, n);

  assert((exc_pending != 0) == !isperm);                      /* rejected exactly when the argument is not a permutation */
  assert(vm_live_blocks() == 0);                              /* every temporary was released, on both outcomes */
  assert(t.ndim == ND && t.order == order && t.nknots == nknots && t.naxes == naxes && t.strides == strides && t.knots == knots &&
         t.extents == extents && t.coefficients == coef && t.periods == (hasp ? &periods[0] : (vr64*)0));
  if (exc_pending) {                                          /* rejection leaves the table unchanged */
    for (unsigned d = 0; d < ND; d++) {
      assert(order[d] == o_order[d] && nknots[d] == o_nknots[d] && naxes[d] == o_naxes[d] && strides[d] == o_strides[d] && knots[d] == o_knots[d]);
      assert(extents[d] == ext + 2 * d && ext[2 * d] == o_ext[2 * d] && ext[2 * d + 1] == o_ext[2 * d + 1] && periods[d] == o_periods[d]);
    }
    unsigned k = nondet_u32(); __CPROVER_assume(k < NCOEF); assert(coef[k] == o_coef[k]);
  } else {
    uint64_t s = 1;
    for (int d = ND - 1; d >= 0; d--) { assert(strides[d] == s); s *= naxes[d]; }          /* row-major strides for the new shape */
    for (unsigned d = 0; d < ND; d++) {                                                      /* every per-axis attribute in the new order */
      uint64_t j = p[d];
      assert(order[d] == o_order[j]); assert(nknots[d] == o_nknots[j]); assert(naxes[d] == o_naxes[j]); assert(knots[d] == o_knots[j]);
      assert(extents[d] == ext + 2 * d && ext[2 * d] == o_ext[2 * j] && ext[2 * d + 1] == o_ext[2 * j + 1]);
#ifndef NO_PERIOD_CHECK
      if (hasp) assert(periods[d] == o_periods[j]);
#endif
    }
    /* the coefficient array holds exactly the original values relocated: for an arbitrary multi-index */
    uint64_t idx[ND], oldpos = 0, newpos = 0;
    for (unsigned d = 0; d < ND; d++) { idx[d] = nondet_u64(); __CPROVER_assume(idx[d] < o_naxes[d]); oldpos += idx[d] * o_strides[d]; }
    for (unsigned d = 0; d < ND; d++) newpos += idx[p[d]] * strides[d];
    assert(newpos < NCOEF && coef[newpos] == o_coef[oldpos]);
#ifdef INVERSE
    uint64_t* q = xmalloc(ND * sizeof(uint64_t));
    for (unsigned d = 0; d < ND; d++) q[p[d]] = d;
    ir_w_permute((char*)&t, (char*)q, ND);
    assert(!exc_pending && vm_live_blocks() == 0);
    for (unsigned d = 0; d < ND; d++) {
      assert(order[d] == o_order[d] && nknots[d] == o_nknots[d] && naxes[d] == o_naxes[d] && strides[d] == o_strides[d] && knots[d] == o_knots[d]);
      assert(ext[2 * d] == o_ext[2 * d] && ext[2 * d + 1] == o_ext[2 * d + 1]);
#ifndef NO_PERIOD_CHECK
      if (hasp) assert(periods[d] == o_periods[d]);
#endif
    }
    assert(coef[oldpos] == o_coef[oldpos]);
#endif
  }
#ifdef WITNESS
  assert(0);
#endif
}
