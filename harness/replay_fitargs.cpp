// Replay for C13 on the real library built with -fsanitize=address,undefined: the perturbed fit of the spec with concrete data.
// A sanitizer report ends the process with exit code 77; exit 3 = a must-reject argument was accepted, a rejected fit changed
// the table, or a replaced table's storage was lost.
#include "mktable.hpp"
#include <cstdio>
#include <cstring>
#include <fstream>
#include <new>
static long live_blocks = 0;
void* operator new(size_t n){ void* p = malloc(n ? n : 1); if (!p) throw std::bad_alloc(); live_blocks++; return p; }
void* operator new[](size_t n){ return operator new(n); }
void operator delete(void* p) noexcept { if (p) { live_blocks--; free(p); } }
void operator delete[](void* p) noexcept { operator delete(p); }
void operator delete(void* p, size_t) noexcept { operator delete(p); }
void operator delete[](void* p, size_t) noexcept { operator delete(p); }
struct Dim { unsigned order = 0, porder = 0; std::vector<double> knots, coords; };
static double num(const std::string& s){ size_t sl = s.find('/'); return sl == std::string::npos ? atof(s.c_str()) : atof(s.substr(0, sl).c_str()) / atof(s.substr(sl + 1).c_str()); }
template<class T> static T* exact(const std::vector<T>& v){ T* p = (T*)malloc(v.size() * sizeof(T) + (v.empty() ? 1 : 0)); if (!v.empty()) memcpy(p, v.data(), v.size() * sizeof(T)); return p; }
int main(int argc, char** argv){
  std::ifstream in(argv[1]); std::string line, w, mut, what; unsigned ND = 0; std::vector<Dim> dims;
  while (std::getline(in, line)) { std::istringstream ls(line); if (!(ls >> w)) continue;
    if (w == "fitargs") { std::string id, tok; ls >> id; while (ls >> tok) { if (tok == "nd") { ls >> ND; dims.resize(ND); } else if (tok == "mut") ls >> mut; } }
    else if (w == "what") std::getline(ls, what);
    else if (w == "dim") { unsigned d; ls >> d; std::string t; bool inco = false; while (ls >> t) { if (t == "order") ls >> dims[d].order; else if (t == "porder") ls >> dims[d].porder; else if (t == "knots") inco = false; else if (t == "|") {} else if (t == "coords") inco = true; else (inco ? dims[d].coords : dims[d].knots).push_back(num(t)); } } }
  std::vector<std::vector<double>> kn(ND), co(ND); for (unsigned d = 0; d < ND; d++) { kn[d] = dims[d].knots; co[d] = dims[d].coords; }
  std::vector<std::vector<unsigned>> rowsidx; { std::vector<unsigned> ix(ND, 0); while (ND) { rowsidx.push_back(ix); int d = ND - 1; while (d >= 0 && ++ix[d] == co[d].size()) { ix[d] = 0; d--; } if (d < 0) break; } }
  size_t R = rowsidx.size(); std::vector<double> y(R), wt(R, 1.0), sm(ND, 0.5); std::vector<std::vector<unsigned>> idx(ND, std::vector<unsigned>(R)); std::vector<unsigned> ranges(ND);
  for (unsigned d = 0; d < ND; d++) { ranges[d] = co[d].size(); for (size_t r = 0; r < R; r++) idx[d][r] = rowsidx[r][d]; } for (size_t r = 0; r < R; r++) y[r] = 1.0 + 0.25 * r;
  std::vector<uint32_t> ord(ND), po(ND); for (unsigned d = 0; d < ND; d++) { ord[d] = dims[d].order; po[d] = dims[d].porder; }
  uint32_t monodim = ST::no_monodim; size_t ndim_arg = ND, rows_arg = R; bool consistent = true, may_either = false, populated = false;
  if (mut == "valid") {} else if (mut == "w_short") { wt.pop_back(); consistent = false; } else if (mut == "w_long") { wt.push_back(1); consistent = false; }
  else if (mut == "cv_short") { co.pop_back(); consistent = false; } else if (mut == "cv_long") { co.push_back(co[0]); consistent = false; }
  else if (mut == "ord_short") { ord.pop_back(); consistent = false; } else if (mut == "ord_long") { ord.push_back(1); consistent = false; }
  else if (mut == "kv_short") { kn.pop_back(); consistent = false; } else if (mut == "kv_long") { kn.push_back(kn[0]); consistent = false; }
  else if (mut == "sm_zero") { sm.clear(); consistent = false; } else if (mut == "sm_one") sm.resize(1); else if (mut == "sm_long") { sm.push_back(1); if (ND == 1) sm.push_back(1); consistent = false; }
  else if (mut == "po_zero") { po.clear(); consistent = false; } else if (mut == "po_one") { po.resize(1); may_either = true; } else if (mut == "po_long") { po.push_back(1); if (ND == 1) po.push_back(1); consistent = false; }
  else if (mut == "monodim_last") monodim = ND - 1; else if (mut == "monodim_eq") { monodim = ND; consistent = false; } else if (mut == "monodim_big") { monodim = 7; consistent = false; }
  else if (mut == "idx_eq_range") { idx[0][R - 1] = ranges[0]; consistent = false; } else if (mut == "range_gt_coords") { ranges[0] += 3; consistent = false; }   /* declared index range larger than the coordinate vector although every index used is inside it */ else if (mut == "range_gt_coords_last") { ranges[ND - 1] += 1; consistent = false; } else if (mut == "idx_huge") { idx[ND - 1][0] = 0xffffffffu; consistent = false; }
  else if (mut == "coords_short") { co[0].pop_back(); consistent = false; } else if (mut == "coords_empty") { co[ND - 1].clear(); consistent = false; }
  else if (mut == "knots_unsorted") { std::swap(kn[0][1], kn[0][2]); consistent = false; } else if (mut == "knots_few") { kn[0].resize(ord[0] + 1); consistent = false; } else if (mut == "knots_min_minus1") { kn[0].resize(2 * ord[0] + 1); may_either = true; }
  else if (mut == "knots_one") { kn[0].resize(1); consistent = false; } else if (mut == "knots_zero") { kn[0].clear(); consistent = false; } else if (mut == "order_huge") { ord[0] = 0x80000000u; consistent = false; }
  else if (mut == "porder_p1") { po[0] = ord[0] + 1; may_either = true; } else if (mut == "porder_p2") { po[0] = ord[0] + 2; may_either = true; } else if (mut == "porder_p3") { po[ND - 1] = ord[ND - 1] + 3; may_either = true; }
  else if (mut == "rows_zero") { rows_arg = 0; wt.clear(); consistent = false; } else if (mut == "ndim_zero") { ndim_arg = 0; co.clear(); kn.clear(); ord.clear(); consistent = false; } else if (mut == "populated") populated = true;
  ::ndsparse data; memset(&data, 0, sizeof data); data.rows = rows_arg; data.ndim = ndim_arg; { std::vector<double> yy(y.begin(), y.begin() + std::min(rows_arg, R)); data.x = exact(yy); }
  std::vector<unsigned*> ip(ND); for (unsigned d = 0; d < ND; d++) { std::vector<unsigned> col(idx[d].begin(), idx[d].begin() + std::min(rows_arg, R)); ip[d] = exact(col); }
  { std::vector<unsigned*> ipp(ip.begin(), ip.begin() + std::min<size_t>(ndim_arg, ND)); data.i = exact(ipp); std::vector<unsigned> rr(ranges.begin(), ranges.begin() + std::min<size_t>(ndim_arg, ND)); data.ranges = exact(rr); }
  using DV = photospline::detail::array_view<double>; using UV = photospline::detail::array_view<uint32_t>;
  std::vector<DV> cv, kv; for (auto& v : co) cv.emplace_back(exact(v), v.size()); for (auto& v : kn) kv.emplace_back(exact(v), v.size());
  DV wv(exact(wt), wt.size()), smv(exact(sm), sm.size()); UV ov(exact(ord), ord.size()), pv(exact(po), po.size());
  int bad = 0; long base = live_blocks;
  { ST t; bool thr = false;
    if (populated) t.fit(data, wv, cv, ov, kv, smv, pv, monodim, false);
    long before_nd = t.ndim; const float* before_c = t.coefficients;
    try { t.fit(data, wv, cv, ov, kv, smv, pv, monodim, false); } catch (std::exception& e) { thr = true; printf("fit threw: %s\n", e.what()); }
    if (!populated) { if (!consistent && !may_either && !thr) { printf("inconsistent arguments (%s) were accepted\n", mut.c_str()); bad = 1; }
      if (consistent && !may_either && thr) { printf("consistent arguments were rejected\n"); bad = 1; }
      if (thr && (t.ndim != 0 || t.coefficients != nullptr)) { printf("the rejected fit changed the table (ndim = %u)\n", t.ndim); bad = 1; } }
    else if (thr && (t.ndim != before_nd || t.coefficients != before_c)) { printf("refused fit changed the populated table\n"); bad = 1; }
  }
  if (populated && live_blocks != base) { printf("fit into a populated table lost %ld block(s) of the replaced table\n", live_blocks - base); bad = 1; }
  printf(bad ? "REPRODUCED\n" : "HELD\n"); return bad ? 3 : 0;
}
