/* Container model of the cfitsio entry points photospline calls (see DESIGN 2.3).  A "file" is a list of image HDUs
 * {bitpix, axes, pixel array of float handles, header cards}; cfitsio's byte encoding and buffering are not modelled
 * (trusted, validated differentially against real cfitsio by harness/val_fits.cpp).  Contract kept: inherited-status
 * convention, mandatory cards written by create_img, string values quoted / quote-doubled / blank-padded to 8, raw value
 * field returned by read_keyn, typed value parsing by read_key, EXTNAME search by movnam_hdu.
 * Fault injection for C08/C20: cf_fail_at = index of the cfitsio call that reports an I/O error (-1 = none);
 * cf_cut_at = index after which mutations no longer reach the container (crash between two operations). */
#include "vrt.h"
#include "models.h"
#include <stdarg.h>
#include "cfitsio_model.h"
struct cf_file cf_files[CF_MAXFILES];
int cf_calls, cf_fail_at = -1, cf_cut_at = -1, cf_fail_status = CF_WRITE_ERROR, cf_open_handles, cf_close_failures;
static int cf_tick(int* status){          /* returns 1 if this call must fail */
  int k = cf_calls++;
  if (k == cf_fail_at) { *status = cf_fail_status; return 1; }
  return 0;
}
static int cf_frozen(void){ return cf_cut_at >= 0 && cf_calls > cf_cut_at; }
static int ci_eq(const char* a, const char* b){ for (;; a++, b++) { char x = *a, y = *b; if (x >= 'a' && x <= 'z') x -= 32; if (y >= 'a' && y <= 'z') y -= 32; if (x != y) return 0; if (!x) return 1; } }
static void scopy(char* d, const char* s, unsigned cap){ unsigned i = 0; for (; s[i] && i + 1 < cap; i++) d[i] = s[i]; d[i] = 0; }
static struct cf_file* file_new(const char* name, void* membuf){
  for (int i = 0; i < CF_MAXFILES; i++) if (cf_files[i].used && ((name && name[0] && !strcmp(cf_files[i].name, name)) || (membuf && cf_files[i].membuf == membuf))) { /* overwrite */
    for (int h = 0; h < cf_files[i].nhdu; h++) free(cf_files[i].hdu[h].data); memset(&cf_files[i], 0, sizeof cf_files[i]); }
  for (int i = 0; i < CF_MAXFILES; i++) if (!cf_files[i].used) { struct cf_file* f = &cf_files[i]; memset(f, 0, sizeof *f); f->used = 1; f->open = 1; if (name) scopy(f->name, name, sizeof f->name); f->membuf = membuf; cf_open_handles++; return f; }
  return 0;
}
static struct cf_file* file_find(const char* name, void* membuf){
  for (int i = 0; i < CF_MAXFILES; i++) if (cf_files[i].used && ((name && name[0] && !strcmp(cf_files[i].name, name)) || (membuf && cf_files[i].membuf == membuf))) return &cf_files[i];
  return 0;
}
static struct cf_card* add_card(struct cf_hdu* h, const char* key, char kind){ if (h->ncards >= CF_MAXCARDS) return 0; struct cf_card* c = &h->cards[h->ncards++]; memset(c, 0, sizeof *c); scopy(c->key, key, sizeof c->key); c->kind = kind; return c; }
static struct cf_card* find_card(struct cf_hdu* h, const char* key){ for (int i = 0; i < h->ncards; i++) if (h->cards[i].kind != 'C' && ci_eq(h->cards[i].key, key)) return &h->cards[i]; return 0; }
static void fmt_int(char* out, long v){ char b[24]; int k = 23; b[k] = 0; unsigned long u = v < 0 ? 0ul - (unsigned long)v : (unsigned long)v; do { b[--k] = (char)('0' + u % 10); u /= 10; } while (u); if (v < 0) b[--k] = '-'; scopy(out, b + k, 72); }
static void set_string(struct cf_card* c, const char* v){   /* 'text' with quotes doubled, padded with blanks to 8 characters, at most 68 characters of text */
  unsigned o = 0; c->val[o++] = '\''; unsigned n = 0;
  for (unsigned i = 0; v[i] && n < 68; i++) { if (v[i] == '\'') { if (n + 2 > 68) break; c->val[o++] = '\''; n++; } c->val[o++] = v[i]; n++; }
  while (n < 8) { c->val[o++] = ' '; n++; }
  c->val[o++] = '\''; c->val[o] = 0; c->kind = 'S';
}
/* ---- open / create / close */
uint32_t ir_ffinit(char* fptr, char* name, char* status_){ int* st = (int*)status_; if (*st > 0) return (uint32_t)*st; if (cf_tick(st)) return (uint32_t)*st;
  const char* n = name; if (n[0] == '!') n++; struct cf_file* f = file_new(n, 0); if (!f) { *st = CF_FILE_NOT_CREATED; return (uint32_t)*st; } *(struct cf_file**)fptr = f; return 0; }
uint32_t ir_ffimem(char* fptr, char* buffptr, char* buffsize, uint64_t delta, char* reallocfn, char* status_){ (void)buffsize; (void)delta; (void)reallocfn; int* st = (int*)status_; if (*st > 0) return (uint32_t)*st; if (cf_tick(st)) return (uint32_t)*st;
  struct cf_file* f = file_new(0, *(void**)buffptr); if (!f) { *st = CF_FILE_NOT_CREATED; return (uint32_t)*st; } *(struct cf_file**)fptr = f; return 0; }
static uint32_t open_common(char* fptr, struct cf_file* f, int* st){ if (!f || !f->nhdu) { *st = CF_FILE_NOT_OPENED; return (uint32_t)*st; } f->open++; cf_open_handles++; f->cur = 0; *(struct cf_file**)fptr = f; return 0; }
uint32_t ir_ffdkopn(char* fptr, char* name, uint32_t mode, char* status_){ (void)mode; int* st = (int*)status_; if (*st > 0) return (uint32_t)*st; if (cf_tick(st)) return (uint32_t)*st; return open_common(fptr, file_find(name, 0), st); }
uint32_t ir_ffopentest(uint32_t ver, char* fptr, char* name, uint32_t mode, char* status_){ (void)ver; return ir_ffdkopn(fptr, name, mode, status_); }
uint32_t ir_ffomem(char* fptr, char* name, uint32_t mode, char* buffptr, char* buffsize, uint64_t delta, char* reallocfn, char* status_){ (void)name; (void)mode; (void)buffsize; (void)delta; (void)reallocfn; int* st = (int*)status_; if (*st > 0) return (uint32_t)*st; if (cf_tick(st)) return (uint32_t)*st;
  return open_common(fptr, file_find(0, *(void**)buffptr), st); }
/* close always releases the handle; a failing flush/close is reported through status */
uint32_t ir_ffclos(char* fptr_, char* status_){ int* st = (int*)status_; struct cf_file* f = (struct cf_file*)fptr_; int fail = cf_tick(st);
  if (f && f->open > 0) { f->open--; cf_open_handles--; } if (fail) cf_close_failures++; return (uint32_t)*st; }
void ir_ffrprt(char* stream, uint32_t status){ (void)stream; (void)status; }
/* ---- navigation / inquiry */
#define ENTER(f) int* st = (int*)status_; struct cf_file* f = (struct cf_file*)fptr_; if (*st > 0) return (uint32_t)*st; if (cf_tick(st)) return (uint32_t)*st
uint32_t ir_ffthdu(char* fptr_, char* nhdu, char* status_){ ENTER(f); *(int*)nhdu = f->nhdu; return 0; }
uint32_t ir_ffmahd(char* fptr_, uint32_t hdunum, char* exttype, char* status_){ ENTER(f); if ((int)hdunum < 1 || (int)hdunum > f->nhdu) { *st = CF_BAD_HDU_NUM; return (uint32_t)*st; } f->cur = (int)hdunum - 1; if (exttype) *(int*)exttype = CF_IMAGE_HDU; return 0; }
uint32_t ir_ffmnhd(char* fptr_, uint32_t exttype, char* extname, uint32_t extver, char* status_){ (void)exttype; (void)extver; ENTER(f);
  for (int h = 0; h < f->nhdu; h++) { struct cf_card* c = find_card(&f->hdu[h], "EXTNAME"); if (!c || c->kind != 'S') continue;
    char t[72]; unsigned n = 0; for (unsigned i = 1; c->val[i] && c->val[i + 1]; i++) t[n++] = c->val[i]; while (n && t[n - 1] == ' ') n--; t[n] = 0;
    if (ci_eq(t, extname)) { f->cur = h; return 0; } }
  *st = CF_BAD_HDU_NUM; return (uint32_t)*st; }
uint32_t ir_ffgidm(char* fptr_, char* naxis, char* status_){ ENTER(f); *(int*)naxis = f->hdu[f->cur].naxis; return 0; }
uint32_t ir_ffgisz(char* fptr_, uint32_t maxdim, char* naxes, char* status_){ ENTER(f); struct cf_hdu* h = &f->hdu[f->cur]; for (int i = 0; i < (int)maxdim && i < h->naxis; i++) ((long*)naxes)[i] = h->naxes[i]; return 0; }
uint32_t ir_ffghsp(char* fptr_, char* nexist, char* nmore, char* status_){ ENTER(f); if (nexist) *(int*)nexist = f->hdu[f->cur].ncards; if (nmore) *(int*)nmore = -1; return 0; }
uint32_t ir_ffgkyn(char* fptr_, uint32_t nkey, char* keyname, char* value, char* comm, char* status_){ ENTER(f); struct cf_hdu* h = &f->hdu[f->cur];
  if ((int)nkey < 1 || (int)nkey > h->ncards) { *st = CF_KEY_NO_EXIST; return (uint32_t)*st; } struct cf_card* c = &h->cards[nkey - 1];
  scopy(keyname, c->key, 75); if (c->kind == 'D') scopy(value, "0.", 71); else scopy(value, c->val, 71); if (comm) comm[0] = 0; return 0; }
int vm_parse_double(const char* text, uint64_t n, vr64* out);
uint32_t ir_ffgky(char* fptr_, uint32_t datatype, char* keyname, char* value, char* comm, char* status_){ (void)comm; ENTER(f); struct cf_card* c = find_card(&f->hdu[f->cur], keyname);
  if (!c) { *st = CF_KEY_NO_EXIST; return (uint32_t)*st; }
  if (datatype == CF_TINT || datatype == CF_TUINT || datatype == CF_TLONG) { if (c->kind != 'I') { *st = CF_BAD_INTKEY; return (uint32_t)*st; } long v = 0; int neg = 0; const char* p = c->val; if (*p == '-') { neg = 1; p++; } for (; *p >= '0' && *p <= '9'; p++) v = v * 10 + (*p - '0'); if (neg) v = -v;
    if (datatype == CF_TLONG) *(long*)value = v; else *(int32_t*)value = (int32_t)v; return 0; }
  if (datatype == CF_TDOUBLE) { if (c->kind == 'D') { *(vr64*)value = c->dval; return 0; } if (c->kind == 'I') { long v = 0; for (const char* p = c->val; *p >= '0' && *p <= '9'; p++) v = v * 10 + (*p - '0'); *(vr64*)value = vr_sitofp64(v); return 0; } *st = CF_BAD_DOUBLEKEY; return (uint32_t)*st; }
  *st = CF_BAD_DATATYPE; return (uint32_t)*st; }
/* ---- image I/O */
uint32_t ir_ffcrim(char* fptr_, uint32_t bitpix_, uint32_t naxis_, char* naxes, char* status_){ ENTER(f); int bitpix = (int)bitpix_, naxis = (int)naxis_;
  if (naxis < 0 || naxis > CF_MAXDIM) { *st = CF_BAD_NAXIS; return (uint32_t)*st; } if (f->nhdu >= CF_MAXHDU) { *st = CF_WRITE_ERROR; return (uint32_t)*st; }
  if (cf_frozen()) return 0;
  struct cf_hdu* h = &f->hdu[f->nhdu]; memset(h, 0, sizeof *h); h->bitpix = bitpix; h->naxis = naxis; uint64_t n = naxis ? 1 : 0; for (int i = 0; i < naxis; i++) { h->naxes[i] = ((long*)naxes)[i]; if (h->naxes[i] < 0) { *st = CF_BAD_NAXIS; return (uint32_t)*st; } n *= (uint64_t)h->naxes[i]; }
  h->ndata = n; h->data = calloc(n ? n : 1, sizeof(vr64));
  int primary = f->nhdu == 0; struct cf_card* c;
  if (primary) { c = add_card(h, "SIMPLE", 'I'); scopy(c->val, "T", 72); } else { c = add_card(h, "XTENSION", 'S'); set_string(c, "IMAGE"); }
  c = add_card(h, "BITPIX", 'I'); fmt_int(c->val, bitpix); c = add_card(h, "NAXIS", 'I'); fmt_int(c->val, naxis);
  for (int i = 0; i < naxis; i++) { char k[16] = "NAXIS"; fmt_int(k + 5, i + 1); c = add_card(h, k, 'I'); fmt_int(c->val, h->naxes[i]); }
  if (primary) { c = add_card(h, "EXTEND", 'I'); scopy(c->val, "T", 72); add_card(h, "COMMENT", 'C'); add_card(h, "COMMENT", 'C'); }
  else { c = add_card(h, "PCOUNT", 'I'); fmt_int(c->val, 0); c = add_card(h, "GCOUNT", 'I'); fmt_int(c->val, 1); }
  f->cur = f->nhdu; f->nhdu++; return 0; }
static uint64_t lin_index(struct cf_hdu* h, long* fpix){ uint64_t idx = 0, mul = 1; for (int i = 0; i < h->naxis; i++) { idx += (uint64_t)(fpix[i] - 1) * mul; mul *= (uint64_t)h->naxes[i]; } return idx; }
uint32_t ir_ffppx(char* fptr_, uint32_t datatype, char* fpix, uint64_t nelem, char* array, char* status_){ ENTER(f); struct cf_hdu* h = &f->hdu[f->cur]; uint64_t off = lin_index(h, (long*)fpix);
  if (off + nelem > h->ndata) { *st = CF_BAD_PIX_NUM; return (uint32_t)*st; } if (cf_frozen()) return 0;
  for (uint64_t i = 0; i < nelem; i++) { vr64 v;
    if (datatype == CF_TFLOAT) v = h->bitpix == CF_DOUBLE_IMG ? vr_fpext(((vr32*)array)[i]) : (vr64)((vr32*)array)[i];
    else if (datatype == CF_TDOUBLE) v = h->bitpix == CF_FLOAT_IMG ? (vr64)vr_fptrunc(((vr64*)array)[i]) : ((vr64*)array)[i];
    else { *st = CF_BAD_DATATYPE; return (uint32_t)*st; }
    h->data[off + i] = v; }
  if (off + nelem > h->nwritten) h->nwritten = off + nelem;
  return 0; }
uint32_t ir_ffgpxv(char* fptr_, uint32_t datatype, char* fpix, uint64_t nelem, char* nulval, char* array, char* anynul, char* status_){ ENTER(f); struct cf_hdu* h = &f->hdu[f->cur]; uint64_t off = lin_index(h, (long*)fpix);
  if (anynul) *(int*)anynul = 0; if (off + nelem > h->ndata) { *st = CF_BAD_PIX_NUM; return (uint32_t)*st; }
  if (off + nelem > h->nwritten) { *st = CF_END_OF_FILE; return (uint32_t)*st; }      /* data unit shorter than the header promises: cfitsio reports end of file */
  /* a non-zero null value switches on cfitsio's null-checking conversion, which does not return every bit pattern unchanged
   * (infinities become the null value, denormals and -0 become +0): the pixel handed back is then some function of the stored
   * one and of the null value, not the stored one */
  int nullcheck = nulval && (datatype == CF_TFLOAT ? *(vr32*)nulval != 0 : *(vr64*)nulval != 0);
  for (uint64_t i = 0; i < nelem; i++) { vr64 v = h->data[off + i];
#ifdef VR_IEEE
    /* cfitsio (fffr4r4 / fffr8r8 with nullcheck 1): exponent all ones (NaN, infinity) -> the null value, exponent zero
     * (denormal, -0) -> +0 */
    if (nullcheck) { if (h->bitpix == CF_FLOAT_IMG) { uint32_t b = (uint32_t)v, e = (b >> 23) & 0xff; if (e == 0xff) v = datatype == CF_TFLOAT ? (vr64)*(vr32*)nulval : (vr64)vr_fptrunc(*(vr64*)nulval); else if (e == 0) v = 0; }
                     else { uint64_t e = (v >> 52) & 0x7ff; if (e == 0x7ff) v = datatype == CF_TDOUBLE ? *(vr64*)nulval : vr_fpext(*(vr32*)nulval); else if (e == 0) v = 0; } }
#else
    if (nullcheck) v = vr_frem64(v, datatype == CF_TFLOAT ? (vr64)*(vr32*)nulval : *(vr64*)nulval);     /* some function of the stored value: not the stored value */
#endif
    if (datatype == CF_TFLOAT) ((vr32*)array)[i] = h->bitpix == CF_DOUBLE_IMG ? vr_fptrunc(v) : (vr32)v;
    else if (datatype == CF_TDOUBLE) ((vr64*)array)[i] = h->bitpix == CF_FLOAT_IMG ? vr_fpext((vr32)v) : v;
    else { *st = CF_BAD_DATATYPE; return (uint32_t)*st; } }
  return 0; }
/* ---- keywords */
static uint32_t put_key(struct cf_file* f, int* st, uint32_t datatype, const char* key, char* value, int update){ struct cf_hdu* h = &f->hdu[f->cur];
  if (cf_frozen()) return 0;
  struct cf_card* c = update ? find_card(h, key) : 0; if (!c) c = add_card(h, key, 'I'); if (!c) { *st = CF_WRITE_ERROR; return (uint32_t)*st; }
  if (datatype == CF_TSTRING) set_string(c, value);
  else if (datatype == CF_TINT || datatype == CF_TUINT) { c->kind = 'I'; fmt_int(c->val, datatype == CF_TINT ? (long)*(int32_t*)value : (long)*(uint32_t*)value); }
  else if (datatype == CF_TDOUBLE) { c->kind = 'D'; c->dval = *(vr64*)value; c->val[0] = 0; }
  else { *st = CF_BAD_DATATYPE; return (uint32_t)*st; }
  return 0; }
uint32_t ir_ffpky(char* fptr_, uint32_t datatype, char* key, char* value, char* comm, char* status_){ (void)comm; ENTER(f); return put_key(f, st, datatype, key, value, 0); }
uint32_t ir_ffuky(char* fptr_, uint32_t datatype, char* key, char* value, char* comm, char* status_){ (void)comm; ENTER(f); return put_key(f, st, datatype, key, value, 1); }
/* snprintf for the "%s%d"-style formats photospline uses ("ORDER%d", "PERIOD%d", "KNOTS%d") */
uint32_t ir_snprintf(char* buf, uint64_t cap, char* fmt, ...){ va_list ap; va_start(ap, fmt); uint64_t o = 0;
  for (const char* p = fmt; *p; p++) { if (*p == '%' && p[1] == 'd') { char t[24]; fmt_int(t, (long)va_arg(ap, int)); for (char* q = t; *q; q++) { if (o + 1 < cap) buf[o] = *q; o++; } p++; }
    else if (*p == '%' && p[1] == 's') { const char* s = va_arg(ap, const char*); for (; *s; s++) { if (o + 1 < cap) buf[o] = *s; o++; } p++; }
    else { if (o + 1 < cap) buf[o] = *p; o++; } }
  if (cap) buf[o < cap ? o : cap - 1] = 0; va_end(ap); return (uint32_t)o; }
uint32_t ir_bcmp(char* a, char* b, uint64_t n){ for (uint64_t i = 0; i < n; i++) if (a[i] != b[i]) return 1; return 0; }

/* ---- construction of containers by harnesses (independent writer / imported real files) */
struct cf_file* cf_import_begin(const char* name, void* membuf){ struct cf_file* f = file_new(name, membuf); if (f) { f->open = 0; cf_open_handles--; } return f; }
struct cf_hdu* cf_import_hdu(struct cf_file* f, int bitpix, int naxis, const long* naxes){ struct cf_hdu* h = &f->hdu[f->nhdu++]; memset(h, 0, sizeof *h); h->bitpix = bitpix; h->naxis = naxis; uint64_t n = naxis ? 1 : 0; for (int i = 0; i < naxis; i++) { h->naxes[i] = naxes[i]; n *= (uint64_t)naxes[i]; } h->ndata = n; h->nwritten = n; h->data = calloc(n ? n : 1, sizeof(vr64)); return h; }
void cf_import_card(struct cf_hdu* h, const char* key, const char* val, char kind, vr64 dval){ struct cf_card* c = add_card(h, key, kind); if (!c) return; scopy(c->val, val, sizeof c->val); c->dval = dval; }
