#include "pthread_seq.h"
#include <stdio.h>
int ps_cur, ps_n, ps_owner, ps_fault;
struct vr_coro* ps_thr[PS_MAXT];
static char* ps_mutex; static char* ps_cv;
static uint8_t ps_woken[PS_MAXT];
static uint16_t ps_vc[PS_MAXT][PS_MAXT], ps_mvc[PS_MAXT];
static struct { char* base; uint32_t bytes, first; } ps_reg[PS_MAXR];
static uint32_t ps_slots_used;
#ifndef PS_POOLW
#define PS_POOLW 4
#endif
static uint64_t ps_pool[PS_MAXT][PS_POOLW]; static uint8_t ps_pool_live[PS_MAXT];

#ifdef __CPROVER__
#define PS_FAIL(code, msg) do { __CPROVER_assert(0, msg); __CPROVER_assume(0); } while (0)
#define PS_SAME(p, b, n) (__CPROVER_POINTER_OBJECT(p) == __CPROVER_POINTER_OBJECT(b))
#define PS_OFF(p, b) ((uint64_t)__CPROVER_POINTER_OFFSET(p) - (uint64_t)__CPROVER_POINTER_OFFSET(b))
#else
#define PS_FAIL(code, msg) do { if (!ps_fault) { ps_fault = (code); fprintf(stderr, "%s\n", msg); } } while (0)
#define PS_SAME(p, b, n) ((uintptr_t)(p) >= (uintptr_t)(b) && (uintptr_t)(p) < (uintptr_t)(b) + (n))
#define PS_OFF(p, b) ((uint64_t)((uintptr_t)(p) - (uintptr_t)(b)))
#endif

#ifdef PS_RACE
static void ps_int_begin(int t); static uint16_t ps_hn[]; 
#endif
void ps_reset(struct vr_coro* coordinator){
#ifdef VR_POOL_ALLOC
  for (int t = 0; t < PS_MAXT; t++) ps_pool_live[t] = 0;
#endif
  ps_cur = 0; ps_n = 1; ps_owner = -1; ps_fault = 0; ps_mutex = 0; ps_cv = 0; ps_slots_used = 0;
  for (int t = 0; t < PS_MAXT; t++) { ps_thr[t] = 0; ps_woken[t] = 0; ps_mvc[t] = 0; for (int u = 0; u < PS_MAXT; u++) ps_vc[t][u] = 0; }
  for (int r = 0; r < PS_MAXR; r++) ps_reg[r].base = 0;
  ps_thr[0] = coordinator;
#ifdef PS_RACE
  ps_race = 0; for (int t = 0; t < PS_MAXT; t++) ps_hn[t] = 0; ps_int_begin(0);
#ifdef VR_POOL_ALLOC
  for (int t = 1; t < PS_MAXT; t++) ps_region((char*)&ps_pool[t][0], sizeof ps_pool[t]);
#endif
#endif
}
int ps_all_done(void){ for (int t = 0; t < PS_MAXT; t++) if (t < ps_n && !ps_thr[t]->done) return 0; return 1; }
int ps_enabled(int t){
  if (t < 0 || t >= ps_n || ps_thr[t]->done) return 0;
  switch (ps_thr[t]->blk_op) {
    case PS_START: return 1;
    case PS_LOCK: return ps_owner < 0;
    case PS_WAIT: return ps_woken[t] && ps_owner < 0;
    case PS_JOIN: { uint64_t j = (uint64_t)(uintptr_t)ps_thr[t]->blk_a0; return j < (uint64_t)ps_n && ps_thr[j]->done; }
  }
  return 0;
}
#ifdef PS_RACE
/* ---- happens-before race detection by access intervals.  An interval is what a thread does between two of its
 * synchronisation operations; its read / write sets are bit masks over 4-byte shadow slots of the registered regions (an
 * access through a concrete pointer is an OR with a constant), its position is the vector clock at its start and the
 * thread's release count.  When an interval ends it is compared with every recorded interval of the other threads:
 * conflicting masks and neither happens-before the other => race.  Clocks count releases (unlock, cond_wait, create, exit);
 * acquire (lock, wake-up, start, join) takes the maximum with the released clock. */
#define PS_MW 3
#ifndef PS_MAXI
#define PS_MAXI 40
#endif
struct ps_mask { uint64_t w[PS_MW]; };
static struct ps_mask cur_r[PS_MAXT], cur_w[PS_MAXT];
static uint16_t cur_vc[PS_MAXT][PS_MAXT];
static struct { struct ps_mask r, w; uint16_t vc[PS_MAXT]; uint16_t c; } ps_hist[PS_MAXT][PS_MAXI];
static uint16_t ps_hn[PS_MAXT];
int ps_race;
static void vc_join(uint16_t* a, const uint16_t* b){ for (int u = 0; u < PS_MAXT; u++) if (b[u] > a[u]) a[u] = b[u]; }
static void ps_int_begin(int t){ for (int u = 0; u < PS_MAXT; u++) cur_vc[t][u] = ps_vc[t][u]; for (int k = 0; k < PS_MW; k++) { cur_r[t].w[k] = 0; cur_w[t].w[k] = 0; } }
static void ps_int_end(int t){
  uint16_t cb = ps_vc[t][t]; int any = 0; for (int k = 0; k < PS_MW; k++) any |= (cur_r[t].w[k] | cur_w[t].w[k]) != 0;
  if (!any) return;
  for (int u = 0; u < PS_MAXT; u++) if (u != t) for (int e = 0; e < PS_MAXI; e++) if (e < ps_hn[u]) {
    int conflict = 0; for (int k = 0; k < PS_MW; k++) conflict |= ((ps_hist[u][e].w.w[k] & (cur_r[t].w[k] | cur_w[t].w[k])) | (cur_w[t].w[k] & ps_hist[u][e].r.w[k])) != 0;
    if (conflict && !(ps_hist[u][e].c < cur_vc[t][u]) && !(cb < ps_hist[u][e].vc[t])) ps_race = 1; }
  uint16_t n = ps_hn[t];
  if (n >= PS_MAXI) { PS_FAIL(PS_F_MODEL, "abstraction insufficient: interval history full (raise PS_MAXI)"); return; }
  ps_hist[t][n].r = cur_r[t]; ps_hist[t][n].w = cur_w[t]; ps_hist[t][n].c = cb; for (int u = 0; u < PS_MAXT; u++) ps_hist[t][n].vc[u] = cur_vc[t][u];
  ps_hn[t] = n + 1;
}
static void ps_release(int t){ ps_int_end(t); ps_vc[t][t]++; for (int u = 0; u < PS_MAXT; u++) ps_mvc[u] = ps_vc[t][u]; ps_owner = -1; ps_int_begin(t); }
static void ps_acquire(int t, const uint16_t* from){ ps_int_end(t); vc_join(ps_vc[t], from); ps_int_begin(t); }
static void vc_fork(int parent, int child){ ps_int_end(parent); ps_vc[parent][parent]++; for (int u = 0; u < PS_MAXT; u++) ps_vc[child][u] = ps_vc[parent][u]; ps_vc[child][child] = 0; ps_hn[child] = 0; ps_int_begin(parent); }
static void ps_exit(int t){ ps_int_end(t); ps_vc[t][t]++; }
#else
/* vector clocks are only maintained for the race detector */
static void ps_release(int t){ (void)t; ps_owner = -1; }
#define ps_acquire(t, from) ((void)0)
#define ps_int_begin(t) ((void)0)
#define vc_fork(p, c) ((void)0)
#define ps_exit(t) ((void)0)
#endif
static void ps_one_mutex(char* m){ if (!ps_mutex) ps_mutex = m; else if (ps_mutex != m) PS_FAIL(PS_F_MODEL, "abstraction insufficient: more than one mutex"); }
static void ps_one_cv(char* c){ if (!ps_cv) ps_cv = c; else if (ps_cv != c) PS_FAIL(PS_F_MODEL, "abstraction insufficient: more than one condition variable"); }
void ps_resume(int t){
  ps_cur = t;
  switch (ps_thr[t]->blk_op) {
    case PS_LOCK: ps_one_mutex(ps_thr[t]->blk_a0); ps_owner = t; ps_acquire(t, ps_mvc); break;
    case PS_WAIT: ps_owner = t; ps_woken[t] = 0; ps_acquire(t, ps_mvc); break;
    case PS_JOIN: ps_acquire(t, ps_vc[(uint64_t)(uintptr_t)ps_thr[t]->blk_a0]); break;
    default: ps_int_begin(t); break;        /* thread start */
  }
  ps_thr[t]->blk_op = PS_START;
}
void ps_after(int t){
  if (!ps_thr[t]->done && ps_thr[t]->blk_op == PS_WAIT) {
    ps_one_cv(ps_thr[t]->blk_a0); ps_one_mutex(ps_thr[t]->blk_a1);
    if (ps_owner != t) PS_FAIL(PS_F_MUTEX, "C12 mutex protocol: pthread_cond_wait without holding the mutex");
    ps_woken[t] = 0; ps_release(t);
  }
  if (ps_thr[t]->done && ps_owner == t) PS_FAIL(PS_F_MUTEX, "C12 mutex protocol: thread finished while holding the mutex");
  if (ps_thr[t]->done) ps_exit(t);
}

/* ---- pthread entry points called from the translated code */
uint32_t ir_pthread_attr_init(char* a){ (void)a; return 0; }
uint32_t ir_pthread_attr_setdetachstate(char* a, uint32_t s){ (void)a; (void)s; return 0; }
uint32_t ir_pthread_attr_destroy(char* a){ (void)a; return 0; }
uint32_t ir_pthread_mutex_init(char* m, char* a){ (void)a; ps_one_mutex(m); return 0; }
uint32_t ir_pthread_cond_init(char* c, char* a){ (void)a; ps_one_cv(c); return 0; }
uint32_t ir_pthread_mutex_destroy(char* m){ (void)m; if (ps_owner >= 0) PS_FAIL(PS_F_MUTEX, "C12 mutex protocol: destroying a locked mutex"); return 0; }
uint32_t ir_pthread_cond_destroy(char* c){ (void)c;
  for (int t = 0; t < PS_MAXT; t++) if (t < ps_n && !ps_thr[t]->done && ps_thr[t]->blk_op == PS_WAIT && t != ps_cur) PS_FAIL(PS_F_MUTEX, "C12 mutex protocol: destroying a condition variable with waiters");
  return 0; }
uint32_t ir_pthread_mutex_unlock(char* m){ ps_one_mutex(m);
  if (ps_owner != ps_cur) { PS_FAIL(PS_F_MUTEX, "C12 mutex protocol: unlocking a mutex the thread does not hold"); return 1; }
  ps_release(ps_cur); return 0; }
uint32_t ir_pthread_cond_broadcast(char* c){ ps_one_cv(c);
  /* reduction argument (see DESIGN.md): wake-ups are only exact at this granularity when issued under the mutex */
  if (ps_owner != ps_cur) PS_FAIL(PS_F_MODEL, "abstraction insufficient: broadcast without holding the mutex");
  for (int t = 0; t < PS_MAXT; t++) if (t < ps_n && t != ps_cur && !ps_thr[t]->done && ps_thr[t]->blk_op == PS_WAIT) ps_woken[t] = 1;
  return 0; }
uint32_t ir_pthread_cond_signal(char* c){ (void)c; PS_FAIL(PS_F_MODEL, "abstraction insufficient: pthread_cond_signal is not modelled"); return 0; }
uint32_t ir_pthread_create(char* tid_out, char* attr, char* fn, char* arg){ (void)attr;
  int id = ps_n;
  if (id >= PS_MAXT) { PS_FAIL(PS_F_MODEL, "abstraction insufficient: more threads than PS_MAXT"); return 11; }
  ps_thr[id] = ps_spawn(id, fn, arg); ps_woken[id] = 0;
  vc_fork(ps_cur, id);
  *(uint64_t*)tid_out = (uint64_t)id; ps_n = id + 1; return 0; }

#ifdef __CPROVER__
static uint64_t ps_old_size(void* p){ return __CPROVER_OBJECT_SIZE(p); }
#else
#include <malloc.h>
static uint64_t ps_old_size(void* p){ return malloc_usable_size(p); }
#endif
/* ---- heap blocks of the translated code (typed by ir2c --typed-malloc) and the happens-before race detector (-DPS_RACE) */
#ifndef PS_RACE
void ps_region(char* p, uint64_t bytes){ (void)p; (void)bytes; }
void vh_access(char* p, uint64_t size, int wr){ (void)p; (void)size; (void)wr; }
void ps_unregion(char* p){ (void)p; }
static uint32_t ps_region_bytes(char* p){ (void)p; return 0; }
#else
void ps_region(char* p, uint64_t bytes){
  uint32_t n = (uint32_t)((bytes + 3) / 4);
  for (int r = 0; r < PS_MAXR; r++) if (ps_reg[r].base == p) return;          /* static blocks are registered once */
  for (int r = 0; r < PS_MAXR; r++) if (!ps_reg[r].base) {
    if (ps_slots_used + n > 64 * PS_MW) { PS_FAIL(PS_F_MODEL, "abstraction insufficient: shadow slots exhausted"); return; }
    ps_reg[r].base = p; ps_reg[r].bytes = (uint32_t)bytes; ps_reg[r].first = ps_slots_used; ps_slots_used += n; return; }
  PS_FAIL(PS_F_MODEL, "abstraction insufficient: too many shared regions");
}
void vh_access(char* p, uint64_t size, int wr){
  if (size == 0) return;
  for (int r = 0; r < PS_MAXR; r++) if (ps_reg[r].base && PS_SAME(p, ps_reg[r].base, ps_reg[r].bytes)) {
    uint64_t off = PS_OFF(p, ps_reg[r].base);
    if (off + size > ps_reg[r].bytes) return;    /* out of bounds: not the race detector's business */
    for (uint64_t k = off / 4; k <= (off + size - 1) / 4; k++) { uint32_t s = ps_reg[r].first + (uint32_t)k; if (wr) cur_w[ps_cur].w[s >> 6] |= 1ULL << (s & 63); else cur_r[ps_cur].w[s >> 6] |= 1ULL << (s & 63); }
    return; }
}
void ps_unregion(char* p){       /* releasing a block conflicts with every access to it */
  for (int r = 0; r < PS_MAXR; r++) if (ps_reg[r].base == p) { vh_access(p, ps_reg[r].bytes, 1); return; }
}
static uint32_t ps_region_bytes(char* p){ for (int r = 0; r < PS_MAXR; r++) if (ps_reg[r].base == p) return ps_reg[r].bytes; return 0; }
#endif
void* vr_malloc_hook(void* p, uint64_t n){
#ifdef __CPROVER__
  __CPROVER_assume(p != 0);
#endif
  ps_region(p, n); return p; }
void* vr_realloc_hook(void* old, void* q, uint64_t n){
#ifdef __CPROVER__
  __CPROVER_assume(q != 0);
#endif
  if (old) {
    uint64_t keep = ps_old_size(old);
    /* bounded by the (usually concrete) new size; blocks that are reallocated hold 8-byte words */
    for (uint64_t i = 0; i < n / 8; i++) if ((i + 1) * 8 <= keep) ((uint64_t*)q)[i] = ((uint64_t*)old)[i];
    ps_unregion(old); (free)(old);
  }
  ps_region(q, n); return q; }
#ifdef VR_POOL_ALLOC
/* worker-side heap: every worker owns one statically allocated block; malloc hands it out (at most one live block per
 * worker, anything else is reported as insufficient), realloc resizes in place (one of the behaviours realloc may have)
 * and free releases it.  All worker heap pointers are therefore constants for symex however often a segment is
 * re-executed symbolically; use-after-free / leaks inside a worker are outside this model (see DESIGN.md). */
int vr_pool_take(void){ return ps_cur != 0; }
void* vr_pool_alloc(uint64_t n){
  if (n > 8 * PS_POOLW) { PS_FAIL(PS_F_MODEL, "abstraction insufficient: worker block larger than the pool"); return 0; }
  if (ps_pool_live[ps_cur]) { PS_FAIL(PS_F_MODEL, "abstraction insufficient: second live heap block in a worker"); return 0; }
  ps_pool_live[ps_cur] = 1; char* p = (char*)&ps_pool[ps_cur][0]; ps_region(p, n); return p; }
void* vr_pool_realloc(void* old, uint64_t n){
  if (!old) return vr_pool_alloc(n);
  if (n > 8 * PS_POOLW) { PS_FAIL(PS_F_MODEL, "abstraction insufficient: worker block larger than the pool"); return 0; }
  return old; }
int ps_in_pool(void* p){ return __CPROVER_POINTER_OBJECT(p) == __CPROVER_POINTER_OBJECT(ps_pool); }
static void ps_pool_free(void* p){ (void)p; ps_pool_live[ps_cur] = 0; }
#else
int ps_in_pool(void* p){ (void)p; return 0; }
static void ps_pool_free(void* p){ (void)p; }
#endif
void* ps_malloc(uint64_t n){ return vr_malloc_hook((malloc)(n ? n : 1), n); }
void ps_free(void* p){ if (!p) return; if (ps_in_pool(p)) { ps_pool_free(p); return; } ps_unregion(p); (free)(p); }

/* ---- environment of get_nthreads / evaluate_descent */
int ps_conf_nthreads;
static char ps_env[2] = "N";
char* ir_getenv(char* name){ (void)name; return ps_env; }
uint64_t ir_strtol(char* s, char* end, uint32_t base){ (void)end; (void)base; return s == ps_env ? (uint64_t)(int64_t)ps_conf_nthreads : 0; }
uint32_t ir_atoi(char* s){ return s == ps_env ? (uint32_t)ps_conf_nthreads : 0; }
uint64_t ir_sysconf(uint32_t k){ (void)k; return (uint64_t)(int64_t)ps_conf_nthreads; }
uint32_t ir_sched_setaffinity(uint32_t pid, uint64_t n, char* set){ (void)pid; (void)n; (void)set; return 0; }
/* qsort: insertion sort of 8-byte elements with the translated comparator */
uint32_t ir_double_rcmp(char*, char*);
void ir_qsort(char* base, uint64_t n, uint64_t size, char* cmp){ (void)cmp;
  if (size != 8) { PS_FAIL(PS_F_MODEL, "abstraction insufficient: qsort element size"); return; }
  uint64_t* a = (uint64_t*)base;
  for (uint64_t i = 1; i < n; i++) for (uint64_t j = i; j > 0; j--) {
    if ((int32_t)ir_double_rcmp((char*)&a[j - 1], (char*)&a[j]) > 0) { uint64_t t = a[j - 1]; a[j - 1] = a[j]; a[j] = t; } else break; }
}
