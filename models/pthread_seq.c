#include "pthread_seq.h"
#include <stdio.h>
int ps_cur, ps_n, ps_owner, ps_fault;
struct vr_coro* ps_thr[PS_MAXT];
static char* ps_mutex; static char* ps_cv;
static uint8_t ps_woken[PS_MAXT];
static uint16_t ps_vc[PS_MAXT][PS_MAXT], ps_mvc[PS_MAXT];
static struct { char* base; uint32_t bytes, first; } ps_reg[PS_MAXR];
static uint32_t ps_slots_used;
#ifndef PS_POOLW
#define PS_POOLW 4
#endif
static uint64_t ps_pool[PS_MAXT][PS_POOLW]; static uint8_t ps_pool_live[PS_MAXT];
static uint8_t sh_wt[PS_SLOTS]; static uint16_t sh_wc[PS_SLOTS], sh_rc[PS_SLOTS][PS_MAXT];

#ifdef __CPROVER__
#define PS_FAIL(code, msg) do { __CPROVER_assert(0, msg); __CPROVER_assume(0); } while (0)
#define PS_SAME(p, b, n) (__CPROVER_POINTER_OBJECT(p) == __CPROVER_POINTER_OBJECT(b))
#define PS_OFF(p, b) ((uint64_t)__CPROVER_POINTER_OFFSET(p) - (uint64_t)__CPROVER_POINTER_OFFSET(b))
#else
#define PS_FAIL(code, msg) do { if (!ps_fault) { ps_fault = (code); fprintf(stderr, "%s\n", msg); } } while (0)
#define PS_SAME(p, b, n) ((uintptr_t)(p) >= (uintptr_t)(b) && (uintptr_t)(p) < (uintptr_t)(b) + (n))
#define PS_OFF(p, b) ((uint64_t)((uintptr_t)(p) - (uintptr_t)(b)))
#endif

void ps_reset(struct vr_coro* coordinator){
#ifdef VR_POOL_ALLOC
  for (int t = 0; t < PS_MAXT; t++) ps_pool_live[t] = 0;
#endif
  ps_cur = 0; ps_n = 1; ps_owner = -1; ps_fault = 0; ps_mutex = 0; ps_cv = 0; ps_slots_used = 0;
  for (int t = 0; t < PS_MAXT; t++) { ps_thr[t] = 0; ps_woken[t] = 0; ps_mvc[t] = 0; for (int u = 0; u < PS_MAXT; u++) ps_vc[t][u] = 0; }
  for (int r = 0; r < PS_MAXR; r++) ps_reg[r].base = 0;
  ps_thr[0] = coordinator; ps_vc[0][0] = 1;
}
int ps_all_done(void){ for (int t = 0; t < PS_MAXT; t++) if (t < ps_n && !ps_thr[t]->done) return 0; return 1; }
int ps_enabled(int t){
  if (t < 0 || t >= ps_n || ps_thr[t]->done) return 0;
  switch (ps_thr[t]->blk_op) {
    case PS_START: return 1;
    case PS_LOCK: return ps_owner < 0;
    case PS_WAIT: return ps_woken[t] && ps_owner < 0;
    case PS_JOIN: { uint64_t j = (uint64_t)(uintptr_t)ps_thr[t]->blk_a0; return j < (uint64_t)ps_n && ps_thr[j]->done; }
  }
  return 0;
}
#ifdef PS_RACE
static void vc_join(uint16_t* a, const uint16_t* b){ for (int u = 0; u < PS_MAXT; u++) if (b[u] > a[u]) a[u] = b[u]; }
static void ps_release(int t){ for (int u = 0; u < PS_MAXT; u++) ps_mvc[u] = ps_vc[t][u]; ps_vc[t][t]++; ps_owner = -1; }
static void vc_fork(int parent, int child){ for (int u = 0; u < PS_MAXT; u++) ps_vc[child][u] = ps_vc[parent][u]; ps_vc[child][child] = 1; ps_vc[parent][parent]++; }
#else
/* vector clocks are only maintained for the race detector */
#define vc_join(a, b) ((void)0)
static void ps_release(int t){ (void)t; ps_owner = -1; }
#define vc_fork(p, c) ((void)0)
#endif
static void ps_one_mutex(char* m){ if (!ps_mutex) ps_mutex = m; else if (ps_mutex != m) PS_FAIL(PS_F_MODEL, "abstraction insufficient: more than one mutex"); }
static void ps_one_cv(char* c){ if (!ps_cv) ps_cv = c; else if (ps_cv != c) PS_FAIL(PS_F_MODEL, "abstraction insufficient: more than one condition variable"); }
void ps_resume(int t){
  ps_cur = t;
  switch (ps_thr[t]->blk_op) {
    case PS_LOCK: ps_one_mutex(ps_thr[t]->blk_a0); ps_owner = t; vc_join(ps_vc[t], ps_mvc); break;
    case PS_WAIT: ps_owner = t; ps_woken[t] = 0; vc_join(ps_vc[t], ps_mvc); break;
    case PS_JOIN: vc_join(ps_vc[t], ps_vc[(uint64_t)(uintptr_t)ps_thr[t]->blk_a0]); break;
    default: break;
  }
  ps_thr[t]->blk_op = PS_START;
}
void ps_after(int t){
  if (!ps_thr[t]->done && ps_thr[t]->blk_op == PS_WAIT) {
    ps_one_cv(ps_thr[t]->blk_a0); ps_one_mutex(ps_thr[t]->blk_a1);
    if (ps_owner != t) PS_FAIL(PS_F_MUTEX, "C12 mutex protocol: pthread_cond_wait without holding the mutex");
    ps_woken[t] = 0; ps_release(t);
  }
  if (ps_thr[t]->done && ps_owner == t) PS_FAIL(PS_F_MUTEX, "C12 mutex protocol: thread finished while holding the mutex");
}

/* ---- pthread entry points called from the translated code */
uint32_t ir_pthread_attr_init(char* a){ (void)a; return 0; }
uint32_t ir_pthread_attr_setdetachstate(char* a, uint32_t s){ (void)a; (void)s; return 0; }
uint32_t ir_pthread_attr_destroy(char* a){ (void)a; return 0; }
uint32_t ir_pthread_mutex_init(char* m, char* a){ (void)a; ps_one_mutex(m); return 0; }
uint32_t ir_pthread_cond_init(char* c, char* a){ (void)a; ps_one_cv(c); return 0; }
uint32_t ir_pthread_mutex_destroy(char* m){ (void)m; if (ps_owner >= 0) PS_FAIL(PS_F_MUTEX, "C12 mutex protocol: destroying a locked mutex"); return 0; }
uint32_t ir_pthread_cond_destroy(char* c){ (void)c;
  for (int t = 0; t < PS_MAXT; t++) if (t < ps_n && !ps_thr[t]->done && ps_thr[t]->blk_op == PS_WAIT && t != ps_cur) PS_FAIL(PS_F_MUTEX, "C12 mutex protocol: destroying a condition variable with waiters");
  return 0; }
uint32_t ir_pthread_mutex_unlock(char* m){ ps_one_mutex(m);
  if (ps_owner != ps_cur) { PS_FAIL(PS_F_MUTEX, "C12 mutex protocol: unlocking a mutex the thread does not hold"); return 1; }
  ps_release(ps_cur); return 0; }
uint32_t ir_pthread_cond_broadcast(char* c){ ps_one_cv(c);
  /* reduction argument (see DESIGN.md): wake-ups are only exact at this granularity when issued under the mutex */
  if (ps_owner != ps_cur) PS_FAIL(PS_F_MODEL, "abstraction insufficient: broadcast without holding the mutex");
  for (int t = 0; t < PS_MAXT; t++) if (t < ps_n && t != ps_cur && !ps_thr[t]->done && ps_thr[t]->blk_op == PS_WAIT) ps_woken[t] = 1;
  return 0; }
uint32_t ir_pthread_cond_signal(char* c){ (void)c; PS_FAIL(PS_F_MODEL, "abstraction insufficient: pthread_cond_signal is not modelled"); return 0; }
uint32_t ir_pthread_create(char* tid_out, char* attr, char* fn, char* arg){ (void)attr;
  int id = ps_n;
  if (id >= PS_MAXT) { PS_FAIL(PS_F_MODEL, "abstraction insufficient: more threads than PS_MAXT"); return 11; }
  ps_thr[id] = ps_spawn(id, fn, arg); ps_woken[id] = 0;
  vc_fork(ps_cur, id);
  *(uint64_t*)tid_out = (uint64_t)id; ps_n = id + 1; return 0; }

#ifdef __CPROVER__
static uint64_t ps_old_size(void* p){ return __CPROVER_OBJECT_SIZE(p); }
#else
#include <malloc.h>
static uint64_t ps_old_size(void* p){ return malloc_usable_size(p); }
#endif
/* ---- heap blocks of the translated code (typed by ir2c --typed-malloc) and the happens-before race detector (-DPS_RACE) */
#ifndef PS_RACE
void ps_region(char* p, uint64_t bytes){ (void)p; (void)bytes; }
void vh_access(char* p, uint64_t size, int wr){ (void)p; (void)size; (void)wr; }
void ps_unregion(char* p){ (void)p; }
static uint32_t ps_region_bytes(char* p){ (void)p; return 0; }
#else
void ps_region(char* p, uint64_t bytes){
  uint32_t n = (uint32_t)((bytes + 3) / 4);
  for (int r = 0; r < PS_MAXR; r++) if (!ps_reg[r].base) {
    if (ps_slots_used + n > PS_SLOTS) { PS_FAIL(PS_F_MODEL, "abstraction insufficient: shadow memory exhausted"); return; }
    ps_reg[r].base = p; ps_reg[r].bytes = (uint32_t)bytes; ps_reg[r].first = ps_slots_used;
    for (uint32_t k = 0; k < n; k++) { uint32_t s = ps_slots_used + k; sh_wt[s] = 0xff; sh_wc[s] = 0; for (int u = 0; u < PS_MAXT; u++) sh_rc[s][u] = 0; }
    ps_slots_used += n; return; }
  PS_FAIL(PS_F_MODEL, "abstraction insufficient: too many shared regions");
}
static void ps_touch(uint32_t s, int wr){
  int t = ps_cur;
  if (sh_wt[s] != 0xff && sh_wt[s] != t && sh_wc[s] > ps_vc[t][sh_wt[s]]) PS_FAIL(PS_F_RACE, "C12 data race: access not ordered after another thread's write");
  if (wr) {
    for (int u = 0; u < PS_MAXT; u++) if (u != t && sh_rc[s][u] > ps_vc[t][u]) PS_FAIL(PS_F_RACE, "C12 data race: write not ordered after another thread's read");
    sh_wt[s] = (uint8_t)t; sh_wc[s] = ps_vc[t][t];
  } else sh_rc[s][t] = ps_vc[t][t];
}
void vh_access(char* p, uint64_t size, int wr){
  if (size == 0) return;
  for (int r = 0; r < PS_MAXR; r++) if (ps_reg[r].base && PS_SAME(p, ps_reg[r].base, ps_reg[r].bytes)) {
    uint64_t off = PS_OFF(p, ps_reg[r].base);
    if (off + size > ps_reg[r].bytes) return;    /* out of bounds: reported by the memory checks, not here */
    for (uint64_t k = off / 4; k <= (off + size - 1) / 4; k++) ps_touch(ps_reg[r].first + (uint32_t)k, wr);
    return; }
}
void ps_unregion(char* p){
  for (int r = 0; r < PS_MAXR; r++) if (ps_reg[r].base == p) { vh_access(p, ps_reg[r].bytes, 1); ps_reg[r].base = 0; return; }
}
static uint32_t ps_region_bytes(char* p){ for (int r = 0; r < PS_MAXR; r++) if (ps_reg[r].base == p) return ps_reg[r].bytes; return 0; }
#endif
void* vr_malloc_hook(void* p, uint64_t n){
#ifdef __CPROVER__
  __CPROVER_assume(p != 0);
#endif
  ps_region(p, n); return p; }
void* vr_realloc_hook(void* old, void* q, uint64_t n){
#ifdef __CPROVER__
  __CPROVER_assume(q != 0);
#endif
  if (old) {
    uint64_t keep = ps_old_size(old);
    /* bounded by the (usually concrete) new size; blocks that are reallocated hold 8-byte words */
    for (uint64_t i = 0; i < n / 8; i++) if ((i + 1) * 8 <= keep) ((uint64_t*)q)[i] = ((uint64_t*)old)[i];
    ps_unregion(old); (free)(old);
  }
  ps_region(q, n); return q; }
#ifdef VR_POOL_ALLOC
/* worker-side heap: every worker owns one statically allocated block; malloc hands it out (at most one live block per
 * worker, anything else is reported as insufficient), realloc resizes in place (one of the behaviours realloc may have)
 * and free releases it.  All worker heap pointers are therefore constants for symex however often a segment is
 * re-executed symbolically; use-after-free / leaks inside a worker are outside this model (see DESIGN.md). */
int vr_pool_take(void){ return ps_cur != 0; }
void* vr_pool_alloc(uint64_t n){
  if (n > 8 * PS_POOLW) { PS_FAIL(PS_F_MODEL, "abstraction insufficient: worker block larger than the pool"); return 0; }
  if (ps_pool_live[ps_cur]) { PS_FAIL(PS_F_MODEL, "abstraction insufficient: second live heap block in a worker"); return 0; }
  ps_pool_live[ps_cur] = 1; char* p = (char*)&ps_pool[ps_cur][0]; ps_region(p, n); return p; }
void* vr_pool_realloc(void* old, uint64_t n){
  if (!old) return vr_pool_alloc(n);
  if (n > 8 * PS_POOLW) { PS_FAIL(PS_F_MODEL, "abstraction insufficient: worker block larger than the pool"); return 0; }
  return old; }
int ps_in_pool(void* p){ return __CPROVER_POINTER_OBJECT(p) == __CPROVER_POINTER_OBJECT(ps_pool); }
static void ps_pool_free(void* p){ (void)p; ps_pool_live[ps_cur] = 0; }
#else
int ps_in_pool(void* p){ (void)p; return 0; }
static void ps_pool_free(void* p){ (void)p; }
#endif
void* ps_malloc(uint64_t n){ return vr_malloc_hook((malloc)(n ? n : 1), n); }
void ps_free(void* p){ if (!p) return; if (ps_in_pool(p)) { ps_pool_free(p); return; } ps_unregion(p); (free)(p); }

/* ---- environment of get_nthreads / evaluate_descent */
int ps_conf_nthreads;
static char ps_env[2] = "N";
char* ir_getenv(char* name){ (void)name; return ps_env; }
uint64_t ir_strtol(char* s, char* end, uint32_t base){ (void)end; (void)base; return s == ps_env ? (uint64_t)(int64_t)ps_conf_nthreads : 0; }
uint32_t ir_atoi(char* s){ return s == ps_env ? (uint32_t)ps_conf_nthreads : 0; }
uint64_t ir_sysconf(uint32_t k){ (void)k; return (uint64_t)(int64_t)ps_conf_nthreads; }
uint32_t ir_sched_setaffinity(uint32_t pid, uint64_t n, char* set){ (void)pid; (void)n; (void)set; return 0; }
/* qsort: insertion sort of 8-byte elements with the translated comparator */
uint32_t ir_double_rcmp(char*, char*);
void ir_qsort(char* base, uint64_t n, uint64_t size, char* cmp){ (void)cmp;
  if (size != 8) { PS_FAIL(PS_F_MODEL, "abstraction insufficient: qsort element size"); return; }
  uint64_t* a = (uint64_t*)base;
  for (uint64_t i = 1; i < n; i++) for (uint64_t j = i; j > 0; j--) {
    if ((int32_t)ir_double_rcmp((char*)&a[j - 1], (char*)&a[j]) > 0) { uint64_t t = a[j - 1]; a[j - 1] = a[j]; a[j] = t; } else break; }
}
