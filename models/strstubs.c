/* Message construction cut to stubs (DESIGN 2.1): the functions below build exception messages; when a
 * harness puts them on its cut list they return a valid empty std::string (real layout) instead. */
#include "vrt.h"
struct sstr { char* p; uint64_t len; union { char local[16]; uint64_t cap; } u; };
static void empty(char* s_){ struct sstr* s = (struct sstr*)s_; s->p = s->u.local; s->len = 0; s->u.local[0] = 0; }
/* std::to_string(int) -> sret */
void ir__ZNSt7__cxx119to_stringEi(char* ret, uint32_t v){ (void)v; empty(ret); }
void ir__ZNSt7__cxx119to_stringEj(char* ret, uint32_t v){ (void)v; empty(ret); }
void ir__ZNSt7__cxx119to_stringEm(char* ret, uint64_t v){ (void)v; empty(ret); }
/* operator+(const char*, string&&), operator+(string&&, const char*) -> sret */
void ir__ZStplIcSt11char_traitsIcESaIcEENSt7__cxx1112basic_stringIT_T0_T1_EEPKS5_OS8_(char* ret, char* l, char* r){ (void)l; (void)r; empty(ret); }
void ir__ZStplIcSt11char_traitsIcESaIcEENSt7__cxx1112basic_stringIT_T0_T1_EEOS8_PKS5_(char* ret, char* l, char* r){ (void)l; (void)r; empty(ret); }
