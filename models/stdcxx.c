/* Minimal C model of the out-of-line libstdc++ pieces the translated code calls.
 * std::string keeps its real layout {char* p; size_t len; union{char local[16]; size_t cap;}}.
 * operator new/delete go through vm_new/vm_delete (models/alloc.c). */
#include "vrt.h"
#include "models.h"

struct sstr { char* p; uint64_t len; union { char local[16]; uint64_t cap; } u; };
#define S(x) ((struct sstr*)(x))
static uint64_t s_cap(struct sstr* s){ return s->p == s->u.local ? 15 : s->u.cap; }
static void s_dispose(struct sstr* s){ if (s->p != s->u.local) vm_delete(s->p); }

/* basic_string::_M_construct(size_type n, char c) */
void ir__ZNSt7__cxx1112basic_stringIcSt11char_traitsIcESaIcEE12_M_constructEmc(char* s_, uint64_t n, uint8_t c){
  struct sstr* s = S(s_);
  if (n > 15) { s->p = (char*)vm_new(n + 1); if (exc_pending) return; s->u.cap = n; }
  if (n) vr_memset(s->p, c, n);
  s->len = n; s->p[n] = 0;
}
/* basic_string::_M_create(size_type& cap, size_type old) */
char* ir__ZNSt7__cxx1112basic_stringIcSt11char_traitsIcESaIcEE9_M_createERmm(char* s_, char* capp, uint64_t old){
  uint64_t* cap = (uint64_t*)capp;
  if (*cap > old && *cap < 2 * old) *cap = 2 * old;
  return (char*)vm_new(*cap + 1);
}
/* basic_string::_M_replace(pos, len1, s, len2) */
char* ir__ZNSt7__cxx1112basic_stringIcSt11char_traitsIcESaIcEE10_M_replaceEmmPKcm(char* s_, uint64_t pos, uint64_t len1, char* str, uint64_t len2){
  struct sstr* s = S(s_);
  uint64_t tail = s->len - pos - len1, nl = s->len - len1 + len2;
  char* tmp = (char*)vm_new(nl + 1); if (exc_pending) return s_;
  if (pos) vr_memcpy(tmp, s->p, pos);
  if (len2) vr_memcpy(tmp + pos, str, len2);
  if (tail) vr_memcpy(tmp + pos + len2, s->p + pos + len1, tail);
  tmp[nl] = 0;
  if (nl <= s_cap(s)) { vr_memcpy(s->p, tmp, nl + 1); vm_delete(tmp); }
  else { s_dispose(s); s->p = tmp; s->u.cap = nl; }
  s->len = nl;
  return s_;
}
/* basic_string::_M_append(s, n) */
char* ir__ZNSt7__cxx1112basic_stringIcSt11char_traitsIcESaIcEE9_M_appendEPKcm(char* s_, char* str, uint64_t n){
  struct sstr* s = S(s_);
  return ir__ZNSt7__cxx1112basic_stringIcSt11char_traitsIcESaIcEE10_M_replaceEmmPKcm(s_, s->len, 0, str, n);
}
/* basic_string::_M_assign(const basic_string&) */
void ir__ZNSt7__cxx1112basic_stringIcSt11char_traitsIcESaIcEE9_M_assignERKS4_(char* s_, char* o_){
  struct sstr* s = S(s_); struct sstr* o = S(o_);
  if (s == o) return;
  ir__ZNSt7__cxx1112basic_stringIcSt11char_traitsIcESaIcEE10_M_replaceEmmPKcm(s_, 0, s->len, o->p, o->len);
}
/* basic_string::_M_mutate(pos, len1, s, len2): reallocating replace */
void ir__ZNSt7__cxx1112basic_stringIcSt11char_traitsIcESaIcEE9_M_mutateEmmPKcm(char* s_, uint64_t pos, uint64_t len1, char* str, uint64_t len2){
  struct sstr* s = S(s_);
  uint64_t tail = s->len - pos - len1, nl = s->len - len1 + len2;
  char* tmp = (char*)vm_new(nl + 1); if (exc_pending) return;
  if (pos) vr_memcpy(tmp, s->p, pos);
  if (str && len2) vr_memcpy(tmp + pos, str, len2);
  if (tail) vr_memcpy(tmp + pos + len2, s->p + pos + len1, tail);
  s_dispose(s); s->p = tmp; s->u.cap = nl;
}
void ir__ZNSt7__cxx1112basic_stringIcSt11char_traitsIcESaIcEE7reserveEm(char* s_, uint64_t n){
  struct sstr* s = S(s_);
  if (n <= s_cap(s)) return;
  char* tmp = (char*)vm_new(n + 1); if (exc_pending) return;
  vr_memcpy(tmp, s->p, s->len + 1);
  s_dispose(s); s->p = tmp; s->u.cap = n;
}
/* exception constructors/destructors: the message is not modelled */
void ir__ZNSt13runtime_errorC1ERKNSt7__cxx1112basic_stringIcSt11char_traitsIcESaIcEEE(char* e, char* s){ (void)s; *(char***)e = vr_exc_vtable; }
void ir__ZNSt13runtime_errorC1EPKc(char* e, char* s){ (void)s; *(char***)e = vr_exc_vtable; }
void ir__ZNSt13runtime_errorD1Ev(char* e){ (void)e; }
void ir__ZNSt11logic_errorC1ERKNSt7__cxx1112basic_stringIcSt11char_traitsIcESaIcEEE(char* e, char* s){ (void)s; *(char***)e = vr_exc_vtable; }
void ir__ZNSt11logic_errorC1EPKc(char* e, char* s){ (void)s; *(char***)e = vr_exc_vtable; }
void ir__ZNSt11logic_errorD1Ev(char* e){ (void)e; }
void ir__ZNSt12out_of_rangeD1Ev(char* e){ (void)e; }
void ir__ZNSt9bad_allocD1Ev(char* e){ (void)e; }
void ir__ZNSt9exceptionD2Ev(char* e){ (void)e; }
void ir__ZSt20__throw_length_errorPKc(char* m){ (void)m; vr_throw(VR_EXC_LENGTH_ERROR); }
void ir__ZSt19__throw_logic_errorPKc(char* m){ (void)m; vr_throw(VR_EXC_LOGIC_ERROR); }
void ir__ZSt24__throw_out_of_range_fmtPKcz(char* m, ...){ (void)m; vr_throw(VR_EXC_OUT_OF_RANGE); }
void ir__ZSt17__throw_bad_allocv(void){ vr_throw(VR_EXC_BAD_ALLOC); }
void ir__ZSt28__throw_bad_array_new_lengthv(void){ vr_throw(VR_EXC_BAD_ALLOC); }
/* operator new / delete */
char* ir__Znwm(uint64_t n){ return (char*)vm_new(n); }
char* ir__Znam(uint64_t n){ return (char*)vm_new(n); }
void ir__ZdlPv(char* p){ vm_delete(p); }
void ir__ZdaPv(char* p){ vm_delete(p); }
void ir__ZdlPvm(char* p, uint64_t n){ (void)n; vm_delete(p); }
