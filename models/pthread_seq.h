/* Sequentialised pthread model for ir2c coroutine contexts (C12).
 * One mutex, one condition variable; a thread runs from one blocking operation to the next (mutex_lock,
 * cond_wait, join); unlock / broadcast / create are performed inside the running segment.  No spurious
 * wake-ups (they could only hide a lost wake-up).  Happens-before vector clocks over registered memory
 * regions report data races independently of the granularity of the interleaving. */
#ifndef PTHREAD_SEQ_H
#define PTHREAD_SEQ_H
#include "vrt.h"
#ifndef PS_MAXT
#define PS_MAXT 4
#endif
#define PS_MAXR 20
#define PS_SLOTS 320          /* 4-byte shadow slots over all registered regions */
enum { PS_START = 0, PS_LOCK = 1, PS_WAIT = 2, PS_JOIN = 3 };
enum { PS_OK = 0, PS_F_RACE = 1, PS_F_MUTEX = 2, PS_F_MODEL = 3, PS_F_ASSERT = 4 };
extern int ps_cur, ps_n, ps_owner, ps_fault, ps_race;
extern struct vr_coro* ps_thr[PS_MAXT];
void ps_reset(struct vr_coro* coordinator);
int ps_enabled(int t);
int ps_all_done(void);
void ps_resume(int t);        /* perform the pending blocking operation of t (must be enabled) */
void ps_after(int t);         /* after its step: a cond_wait releases the mutex atomically */
void ps_region(char* p, uint64_t bytes);
void ps_unregion(char* p);
void* ps_malloc(uint64_t n);
void ps_free(void* p);
/* provided by the harness */
struct vr_coro* ps_spawn(int id, char* fn, char* arg);
extern int ps_conf_nthreads;  /* what OMP_NUM_THREADS says */
#endif
