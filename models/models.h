#ifndef MODELS_H
#define MODELS_H
#include <stdint.h>
/* plain operator new/delete model (ledger optional, see alloc.c) */
void* vm_new(uint64_t n);
void vm_delete(void* p);
/* ledger variant (models/alloc_ledger.c) */
void vm_adopt(void* p, uint64_t n);
int vm_live_blocks(void); int vm_is_live(void* p); uint64_t vm_block_size(void* p);
extern uint64_t vm_cur, vm_peak; extern int vm_alloc_count, vm_fail_at, vm_errors, vm_nblk;
#endif
