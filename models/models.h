#ifndef MODELS_H
#define MODELS_H
#include <stdint.h>
/* plain operator new/delete model (ledger optional, see alloc.c) */
void* vm_new(uint64_t n);
void vm_delete(void* p);
#endif
