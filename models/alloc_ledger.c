/* operator new/delete with a ledger: live blocks, sizes, current and peak bytes, double/mismatched free
 * detection, and one injectable allocation failure (std::bad_alloc through the exception flag). */
#include "vrt.h"
#include "models.h"
#ifndef VM_MAXBLK
#define VM_MAXBLK 48
#endif
struct vm_blk { void* p; uint64_t n; int live; int adopted; } vm_blks[VM_MAXBLK];
/* under AddressSanitizer (C13) blocks keep their exact size: the sanitizer's red zones see reads as well as writes */
#ifdef __SANITIZE_ADDRESS__
#define VM_GUARD 0
#else
#define VM_GUARD 2048
#endif
#include <string.h>
int vm_nblk; uint64_t vm_cur, vm_peak; int vm_alloc_count, vm_fail_at = -1, vm_errors;
#ifdef __CPROVER__
#define VM_CHECK(c, msg) __CPROVER_assert(c, msg)
#else
#include <stdio.h>
#define VM_CHECK(c, msg) do { if (!(c)) { fprintf(stderr, "ledger: %s\n", msg); vm_errors++; } } while (0)
#endif
static int vm_adopting;
static void vm_record(void* p, uint64_t n){
  int slot = -1;
#ifndef __CPROVER__
  for (int i = 0; i < vm_nblk; i++) if (!vm_blks[i].live) { slot = i; break; }   /* native runs are long: reuse dead slots */
#endif
  if (slot < 0) { VM_CHECK(vm_nblk < VM_MAXBLK, "ledger capacity exceeded (raise VM_MAXBLK)"); if (vm_nblk < VM_MAXBLK) slot = vm_nblk++; }
  if (slot >= 0) { vm_blks[slot].p = p; vm_blks[slot].n = n; vm_blks[slot].live = 1; vm_blks[slot].adopted = vm_adopting; }
  vm_cur += n; if (vm_cur > vm_peak) vm_peak = vm_cur;
}
void* vm_new(uint64_t n){
  if (vm_alloc_count++ == vm_fail_at) { vr_throw(VR_EXC_BAD_ALLOC); return 0; }
#ifdef __CPROVER__
  void* p = malloc(n ? n : 1);
  __CPROVER_assume(p != 0);
#else
  /* native runs: a guard zone behind every block, checked when the block is released (a write past the end of a block is a
   * ledger error like a double delete; CBMC runs have their own bounds checks) */
  void* p = n > ((uint64_t)1 << 40) ? 0 : malloc((n ? n : 1) + VM_GUARD);
  if (!p) { vr_throw(VR_EXC_BAD_ALLOC); return 0; }      /* a request the heap cannot serve: operator new throws */
  memset((char*)p + n, 0xA5, VM_GUARD);
#endif
  vm_record(p, n);
  return p;
}
void vm_delete(void* p){
  if (!p) return;
  int found = 0;
  for (int i = 0; i < vm_nblk && i < VM_MAXBLK; i++) if (vm_blks[i].p == p && vm_blks[i].live) { vm_blks[i].live = 0; vm_cur -= vm_blks[i].n; found = 1;
#ifndef __CPROVER__
    if (!vm_blks[i].adopted) { int clean = 1; for (int g = 0; g < VM_GUARD; g++) if (((unsigned char*)p)[vm_blks[i].n + g] != 0xA5) clean = 0; VM_CHECK(clean, "write past the end of a block obtained from the allocator"); }
#endif
    break; }
  VM_CHECK(found, "delete of a pointer that is not a live block (double free / foreign pointer / interior pointer)");
  if (found) free(p);
}
/* adopt a block built by the harness (pre-state) so that the code under test may free it */
void vm_adopt(void* p, uint64_t n){ vm_adopting = 1; vm_record(p, n); vm_adopting = 0; }
int vm_live_blocks(void){ int c = 0; for (int i = 0; i < vm_nblk && i < VM_MAXBLK; i++) c += vm_blks[i].live; return c; }
int vm_is_live(void* p){ for (int i = 0; i < vm_nblk && i < VM_MAXBLK; i++) if (vm_blks[i].p == p && vm_blks[i].live) return 1; return 0; }
uint64_t vm_block_size(void* p){ for (int i = 0; i < vm_nblk && i < VM_MAXBLK; i++) if (vm_blks[i].p == p && vm_blks[i].live) return vm_blks[i].n; return (uint64_t)-1; }
void ir___assert_fail(char* a, char* f, uint32_t l, char* fn){
#ifdef __CPROVER__
  __CPROVER_assert(0, "library assert() failed"); __CPROVER_assume(0);
#else
  fprintf(stderr, "ASSERT FAIL %s %s:%u\n", a, f, l); abort();
#endif
}
