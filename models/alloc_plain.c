/* operator new/delete without accounting */
#include "vrt.h"
#include "models.h"
void* vm_new(uint64_t n){
  void* p = malloc(n ? n : 1);
#ifdef __CPROVER__
  __CPROVER_assume(p != 0);
#endif
  return p;
}
void vm_delete(void* p){ free(p); }
void ir___assert_fail(char* a, char* f, uint32_t l, char* fn){
#ifdef __CPROVER__
  __CPROVER_assert(0, "library assert() failed"); __CPROVER_assume(0);
#else
  extern int printf(const char*, ...);
  printf("ASSERT FAIL %s %s:%u\n", a, f, l); abort();
#endif
}
