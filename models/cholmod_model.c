/* Semantic model of the CHOLMOD entry points photospline uses, over the value-domain runtime:
 * real cholmod.h struct layouts (photospline reads p/i/x/nz/nnz/stype/nrow/ncol directly), numeric
 * entries are vr64 handles combined with vr_fadd64/vr_fmul64, every operation goes through a small
 * dense reference implementation of its documented meaning (symmetric storage via stype honoured).
 * analyze/factorize/solve are semantic: a factor stands for "the symmetric matrix it factorises";
 * cholmod_l_solve hands (A, b) to the harness hook vm_solve() which returns the solution vector. */
#include "vrt.h"
#include "models.h"
#include <cholmod.h>

#define IDX(M, r, c, nrow) ((M)[(size_t)(c) * (nrow) + (r)])
static void* cm_alloc(size_t n){ void* p = calloc(n ? n : 1, 1);
#ifdef __CPROVER__
  __CPROVER_assume(p != 0);
#endif
  return p; }
int cm_live_objects;      /* allocate/free balance of CHOLMOD objects */

int ir_cholmod_l_start(char* c_){ cholmod_common* c = (cholmod_common*)c_; memset(c, 0, sizeof *c); c->status = CHOLMOD_OK; c->itype = CHOLMOD_LONG; c->dtype = CHOLMOD_DOUBLE; return 1; }
int ir_cholmod_l_finish(char* c_){ (void)c_; return 1; }

/* ---- dense */
static cholmod_dense* dense_new(size_t nrow, size_t ncol, size_t d){
  cholmod_dense* D = cm_alloc(sizeof *D); D->nrow = nrow; D->ncol = ncol; D->d = d; D->nzmax = d * ncol; D->xtype = CHOLMOD_REAL; D->dtype = CHOLMOD_DOUBLE;
  D->x = cm_alloc(D->nzmax * sizeof(vr64)); cm_live_objects++; return D;
}
char* ir_cholmod_l_allocate_dense(uint64_t nrow, uint64_t ncol, uint64_t d, uint32_t xtype, char* c){ (void)xtype; (void)c; return (char*)dense_new(nrow, ncol, d); }
char* ir_cholmod_l_zeros(uint64_t nrow, uint64_t ncol, uint32_t xtype, char* c){ (void)xtype; (void)c; return (char*)dense_new(nrow, ncol, nrow); }
int ir_cholmod_l_free_dense(char* Dp, char* c){ (void)c; cholmod_dense** D = (cholmod_dense**)Dp; if (D && *D) { free((*D)->x); free(*D); *D = 0; cm_live_objects--; } return 1; }
char* ir_cholmod_l_copy_dense(char* X_, char* c){ (void)c; cholmod_dense* X = (cholmod_dense*)X_; cholmod_dense* D = dense_new(X->nrow, X->ncol, X->d); vr_memcpy(D->x, X->x, X->nzmax * sizeof(vr64)); return (char*)D; }

/* ---- sparse (CSC, packed, sorted, long indices) */
static cholmod_sparse* sparse_new(size_t nrow, size_t ncol, size_t nzmax, int stype){
  cholmod_sparse* A = cm_alloc(sizeof *A); A->nrow = nrow; A->ncol = ncol; A->nzmax = nzmax ? nzmax : 1; A->stype = stype; A->itype = CHOLMOD_LONG; A->xtype = CHOLMOD_REAL; A->dtype = CHOLMOD_DOUBLE;
  A->sorted = 1; A->packed = 1; A->p = cm_alloc((ncol + 1) * sizeof(long)); A->i = cm_alloc(A->nzmax * sizeof(long)); A->x = cm_alloc(A->nzmax * sizeof(vr64)); A->nz = 0; cm_live_objects++; return A;
}
int ir_cholmod_l_free_sparse(char* Ap, char* c){ (void)c; cholmod_sparse** A = (cholmod_sparse**)Ap; if (A && *A) { free((*A)->p); free((*A)->i); free((*A)->x); free(*A); *A = 0; cm_live_objects--; } return 1; }
/* full dense image of a sparse matrix; symmetric storage expanded; has[] marks structural entries */
static vr64* to_dense(cholmod_sparse* A, uint8_t** has_out){
  size_t nr = A->nrow, nc = A->ncol; vr64* M = cm_alloc(nr * nc * sizeof(vr64)); uint8_t* has = cm_alloc(nr * nc);
  long* Ap = A->p; long* Ai = A->i; vr64* Ax = A->x; long* Anz = A->nz;
  for (size_t j = 0; j < nc; j++) { long end = A->packed ? Ap[j + 1] : Ap[j] + Anz[j];
    for (long k = Ap[j]; k < end; k++) { size_t i = (size_t)Ai[k];
      if (A->stype > 0 && i > j) continue;          /* symmetric upper: entries below the diagonal are ignored */
      if (A->stype < 0 && i < j) continue;
      IDX(M, i, j, nr) = has[j * nr + i] ? vr_fadd64(IDX(M, i, j, nr), Ax[k]) : Ax[k]; has[j * nr + i] = 1;
      if (A->stype != 0 && i != j) { IDX(M, j, i, nr) = IDX(M, i, j, nr); has[i * nr + j] = 1; } } }
  if (has_out) *has_out = has; else free(has);
  return M;
}
static cholmod_sparse* from_dense(vr64* M, uint8_t* has, size_t nr, size_t nc, int stype){
  size_t nnz = 0;
  for (size_t j = 0; j < nc; j++) for (size_t i = 0; i < nr; i++) if (has[j * nr + i] && !(stype > 0 && i > j) && !(stype < 0 && i < j)) nnz++;
  cholmod_sparse* A = sparse_new(nr, nc, nnz, stype); long* Ap = A->p; long* Ai = A->i; vr64* Ax = A->x; size_t k = 0;
  for (size_t j = 0; j < nc; j++) { Ap[j] = (long)k; for (size_t i = 0; i < nr; i++) if (has[j * nr + i] && !(stype > 0 && i > j) && !(stype < 0 && i < j)) { Ai[k] = (long)i; Ax[k] = IDX(M, i, j, nr); k++; } }
  Ap[nc] = (long)k; return A;
}
char* ir_cholmod_l_spzeros(uint64_t nrow, uint64_t ncol, uint64_t nzmax, uint32_t xtype, char* c){ (void)xtype; (void)c; return (char*)sparse_new(nrow, ncol, nzmax, 0); }
char* ir_cholmod_l_speye(uint64_t nrow, uint64_t ncol, uint32_t xtype, char* c){ (void)xtype; (void)c;
  size_t n = nrow < ncol ? nrow : ncol; cholmod_sparse* A = sparse_new(nrow, ncol, n, 0); long* Ap = A->p; long* Ai = A->i; vr64* Ax = A->x;
  for (size_t j = 0; j < ncol; j++) { Ap[j] = (long)(j < n ? j : n); if (j < n) { Ai[j] = (long)j; Ax[j] = vr_sitofp64(1); } } Ap[ncol] = (long)n; return (char*)A; }
/* cholmod_dense_to_sparse: entries that are exactly zero are dropped */
char* ir_cholmod_l_dense_to_sparse(char* X_, uint32_t values, char* c){ (void)values; (void)c; cholmod_dense* X = (cholmod_dense*)X_; size_t nr = X->nrow, nc = X->ncol;
  vr64* M = cm_alloc(nr * nc * sizeof(vr64)); uint8_t* has = cm_alloc(nr * nc); vr64* Xx = X->x;
  for (size_t j = 0; j < nc; j++) for (size_t i = 0; i < nr; i++) { vr64 v = Xx[j * X->d + i]; if (vr_is_exact_zero(v)) continue; IDX(M, i, j, nr) = v; has[j * nr + i] = 1; }
  cholmod_sparse* A = from_dense(M, has, nr, nc, 0); free(M); free(has); return (char*)A; }
char* ir_cholmod_l_sparse_to_dense(char* A_, char* c){ (void)c; cholmod_sparse* A = (cholmod_sparse*)A_; vr64* M = to_dense(A, 0); cholmod_dense* D = dense_new(A->nrow, A->ncol, A->nrow);
  vr_memcpy(D->x, M, A->nrow * A->ncol * sizeof(vr64)); free(M); return (char*)D; }
/* ---- triplet */
char* ir_cholmod_l_allocate_triplet(uint64_t nrow, uint64_t ncol, uint64_t nzmax, uint32_t stype, uint32_t xtype, char* c){ (void)xtype; (void)c;
  cholmod_triplet* T = cm_alloc(sizeof *T); T->nrow = nrow; T->ncol = ncol; T->nzmax = nzmax ? nzmax : 1; T->nnz = 0; T->stype = (int)stype; T->itype = CHOLMOD_LONG; T->xtype = CHOLMOD_REAL; T->dtype = CHOLMOD_DOUBLE;
  T->i = cm_alloc(T->nzmax * sizeof(long)); T->j = cm_alloc(T->nzmax * sizeof(long)); T->x = cm_alloc(T->nzmax * sizeof(vr64)); cm_live_objects++; return (char*)T; }
int ir_cholmod_l_free_triplet(char* Tp, char* c){ (void)c; cholmod_triplet** T = (cholmod_triplet**)Tp; if (T && *T) { free((*T)->i); free((*T)->j); free((*T)->x); free(*T); *T = 0; cm_live_objects--; } return 1; }
/* triplet_to_sparse: duplicates are summed; for symmetric triplets entries in the other triangle are transposed */
char* ir_cholmod_l_triplet_to_sparse(char* T_, uint64_t nzmax, char* c_){ (void)nzmax; cholmod_common* c = (cholmod_common*)c_; cholmod_triplet* T = (cholmod_triplet*)T_; size_t nr = T->nrow, nc = T->ncol;
  vr64* M = cm_alloc(nr * nc * sizeof(vr64)); uint8_t* has = cm_alloc(nr * nc); long* Ti = T->i; long* Tj = T->j; vr64* Tx = T->x;
  for (size_t k = 0; k < T->nnz; k++) { long i = Ti[k], j = Tj[k];
    if (i < 0 || j < 0 || (size_t)i >= nr || (size_t)j >= nc) { c->status = CHOLMOD_INVALID; free(M); free(has); return 0; }   /* CHOLMOD rejects out-of-range indices */
    if (T->stype > 0 && i > j) { long t = i; i = j; j = t; } if (T->stype < 0 && i < j) { long t = i; i = j; j = t; }
    IDX(M, i, j, nr) = has[j * nr + i] ? vr_fadd64(IDX(M, i, j, nr), Tx[k]) : Tx[k]; has[j * nr + i] = 1; }
  cholmod_sparse* A = from_dense(M, has, nr, nc, T->stype); free(M); free(has); return (char*)A; }
char* ir_cholmod_l_sparse_to_triplet(char* A_, char* c){ cholmod_sparse* A = (cholmod_sparse*)A_; long* Ap = A->p; long* Ai = A->i; vr64* Ax = A->x;
  size_t nnz = (size_t)Ap[A->ncol]; cholmod_triplet* T = (cholmod_triplet*)ir_cholmod_l_allocate_triplet(A->nrow, A->ncol, nnz, (uint32_t)A->stype, CHOLMOD_REAL, c); long* Ti = T->i; long* Tj = T->j; vr64* Tx = T->x; size_t k = 0;
  for (size_t j = 0; j < A->ncol; j++) for (long q = Ap[j]; q < Ap[j + 1]; q++) { size_t i = (size_t)Ai[q]; if ((A->stype > 0 && i > j) || (A->stype < 0 && i < j)) continue; Ti[k] = (long)i; Tj[k] = (long)j; Tx[k] = Ax[q]; k++; }
  T->nnz = k; return (char*)T; }
/* ---- algebra */
char* ir_cholmod_l_transpose(char* A_, uint32_t values, char* c){ (void)values; (void)c; cholmod_sparse* A = (cholmod_sparse*)A_; size_t nr = A->nrow, nc = A->ncol; uint8_t* has; vr64* M = to_dense(A, &has);
  vr64* Mt = cm_alloc(nr * nc * sizeof(vr64)); uint8_t* ht = cm_alloc(nr * nc);
  for (size_t i = 0; i < nr; i++) for (size_t j = 0; j < nc; j++) { IDX(Mt, j, i, nc) = IDX(M, i, j, nr); ht[i * nc + j] = has[j * nr + i]; }
  cholmod_sparse* R = from_dense(Mt, ht, nc, nr, -A->stype); free(M); free(has); free(Mt); free(ht); return (char*)R; }
/* C = A*B; stype > 0: only the upper triangle is kept and the result is marked symmetric */
char* ir_cholmod_l_ssmult(char* A_, char* B_, uint32_t stype_, uint32_t values, uint32_t sorted, char* c){ (void)values; (void)sorted; (void)c; int stype = (int)stype_;
  cholmod_sparse* A = (cholmod_sparse*)A_; cholmod_sparse* B = (cholmod_sparse*)B_; size_t n = A->nrow, m = A->ncol, p = B->ncol; uint8_t *ha, *hb; vr64* Ma = to_dense(A, &ha); vr64* Mb = to_dense(B, &hb);
  vr64* Mc = cm_alloc(n * p * sizeof(vr64)); uint8_t* hc = cm_alloc(n * p);
  for (size_t i = 0; i < n; i++) for (size_t j = 0; j < p; j++) for (size_t k = 0; k < m; k++) if (ha[k * n + i] && hb[j * m + k]) {
    vr64 t = vr_fmul64(IDX(Ma, i, k, n), IDX(Mb, k, j, m)); IDX(Mc, i, j, n) = hc[j * n + i] ? vr_fadd64(IDX(Mc, i, j, n), t) : t; hc[j * n + i] = 1; }
  cholmod_sparse* R = from_dense(Mc, hc, n, p, stype); free(Ma); free(Mb); free(Mc); free(ha); free(hb); free(hc); return (char*)R; }
/* C = alpha*A + beta*B; same stype -> that stype, otherwise both are treated as unsymmetric */
char* ir_cholmod_l_add(char* A_, char* B_, char* alpha_, char* beta_, uint32_t values, uint32_t sorted, char* c){ (void)values; (void)sorted; (void)c;
  cholmod_sparse* A = (cholmod_sparse*)A_; cholmod_sparse* B = (cholmod_sparse*)B_; vr64 alpha = *(vr64*)alpha_, beta = *(vr64*)beta_; size_t nr = A->nrow, nc = A->ncol;
  int stype = A->stype == B->stype ? A->stype : 0; uint8_t *ha, *hb; vr64* Ma = to_dense(A, &ha); vr64* Mb = to_dense(B, &hb); vr64* Mc = cm_alloc(nr * nc * sizeof(vr64)); uint8_t* hc = cm_alloc(nr * nc);
  for (size_t k = 0; k < nr * nc; k++) { if (ha[k]) { Mc[k] = vr_fmul64(alpha, Ma[k]); hc[k] = 1; } if (hb[k]) { vr64 t = vr_fmul64(beta, Mb[k]); Mc[k] = hc[k] ? vr_fadd64(Mc[k], t) : t; hc[k] = 1; } }
  cholmod_sparse* R = from_dense(Mc, hc, nr, nc, stype); free(Ma); free(Mb); free(Mc); free(ha); free(hb); free(hc); return (char*)R; }
/* Y = alpha*(A*X) + beta*Y (transpose == 0) */
int ir_cholmod_l_sdmult(char* A_, uint32_t transpose, char* alpha_, char* beta_, char* X_, char* Y_, char* c){ (void)c; cholmod_sparse* A = (cholmod_sparse*)A_; cholmod_dense* X = (cholmod_dense*)X_; cholmod_dense* Y = (cholmod_dense*)Y_;
  vr64 alpha = *(vr64*)alpha_, beta = *(vr64*)beta_; uint8_t* ha; vr64* M = to_dense(A, &ha); size_t nr = A->nrow, nc = A->ncol; vr64* Xx = X->x; vr64* Yx = Y->x;
  for (size_t col = 0; col < X->ncol; col++) for (size_t i = 0; i < (transpose ? nc : nr); i++) { vr64 acc = vr_fmul64(beta, Yx[col * Y->d + i]);
    for (size_t k = 0; k < (transpose ? nr : nc); k++) { size_t r = transpose ? k : i, cc = transpose ? i : k; if (ha[cc * nr + r]) acc = vr_fadd64(acc, vr_fmul64(alpha, vr_fmul64(IDX(M, r, cc, nr), Xx[col * X->d + k]))); }
    Yx[col * Y->d + i] = acc; }
  free(M); free(ha); return 1; }
/* ---- factorisation: semantic */
struct cm_factor { cholmod_factor f; cholmod_sparse* A; };
char* ir_cholmod_l_analyze(char* A_, char* c){ (void)c; cholmod_sparse* A = (cholmod_sparse*)A_; struct cm_factor* L = cm_alloc(sizeof *L); L->f.n = A->nrow; L->A = 0; cm_live_objects++; return (char*)L; }
int ir_cholmod_l_factorize(char* A_, char* L_, char* c){ (void)c; ((struct cm_factor*)L_)->A = (cholmod_sparse*)A_; return 1; }
int ir_cholmod_l_free_factor(char* Lp, char* c){ (void)c; struct cm_factor** L = (struct cm_factor**)Lp; if (L && *L) { free(*L); *L = 0; cm_live_objects--; } return 1; }
/* harness hook: the system handed to CHOLMOD (dense image of the symmetric matrix, right-hand side) -> solution */
void vm_solve(uint64_t n, const vr64* A, const vr64* b, vr64* x);
char* ir_cholmod_l_solve(uint32_t sys, char* L_, char* B_, char* c){ (void)sys; (void)c; struct cm_factor* L = (struct cm_factor*)L_; cholmod_dense* B = (cholmod_dense*)B_; size_t n = L->f.n;
  vr64* M = to_dense(L->A, 0); cholmod_dense* X = dense_new(n, B->ncol, n);
  for (size_t col = 0; col < B->ncol; col++) vm_solve(n, M, (vr64*)B->x + col * B->d, (vr64*)X->x + col * n);
  free(M); return (char*)X; }
