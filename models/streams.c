/* C model of std::ostringstream / std::istringstream in the REAL libstdc++ object layout (offsets from
 * stream_layout.h, generated and checked against a live object on every run).  The translated code inlines
 * stringbuf::str(), ios::fail() etc. and therefore reads pbase/pptr/egptr, _M_string and the ios state directly;
 * the out-of-line pieces it calls are modelled here.  Formatting of double is not modelled (nondeterministic text). */
#include "vrt.h"
#include "models.h"
#include "stream_layout.h"
struct sstr { char* p; uint64_t len; union { char local[16]; uint64_t cap; } u; };
char* ir__ZNSt7__cxx1112basic_stringIcSt11char_traitsIcESaIcEE10_M_replaceEmmPKcm(char*, uint64_t, uint64_t, char*, uint64_t);
/* vtable stand-ins: the inlined code finds the virtual base (basic_ios) at *(long*)(vptr - 24) */
static struct { int64_t vbase_off; int64_t off_to_top; char* typeinfo; char* slots[4]; } vt_oss = { SL_OSS_IOS, 0, 0, {0} }, vt_iss = { SL_ISS_IOS, 0, 0, {0} };
#define SB_PTR(sb, off) (*(char**)((sb) + (off)))
#define SB_STR(sb) ((struct sstr*)((sb) + SL_SB_STRING))
#ifndef STREAM_CAP
#define STREAM_CAP 96
#endif
static void sb_init(char* sb, int mode){
  for (int o = SL_SB_INBEG; o <= SL_SB_OUTEND; o += 8) SB_PTR(sb, o) = 0;
  *(int32_t*)(sb + SL_SB_MODE) = mode;
  struct sstr* s = SB_STR(sb); s->p = s->u.local; s->len = 0; s->u.local[0] = 0;
}
/* ---- ostringstream */
void ir__ZNSt7__cxx1119basic_ostringstreamIcSt11char_traitsIcESaIcEEC1Ev(char* os){
  *(char**)os = (char*)&vt_oss.slots[0];
  *(int32_t*)(os + SL_OSS_IOS + SL_IOS_STATE) = 0;
  sb_init(os + SL_OSS_SB, SL_MODE_OUT);
}
void ir__ZNSt7__cxx1119basic_ostringstreamIcSt11char_traitsIcESaIcEED1Ev(char* os){
  struct sstr* s = SB_STR(os + SL_OSS_SB); if (s->p != s->u.local) vm_delete(s->p);
}
static void os_put(char* os, const char* data, uint64_t n){
  char* sb = os + SL_OSS_SB; struct sstr* s = SB_STR(sb);
  uint64_t cur = SB_PTR(sb, SL_SB_OUTCUR) ? (uint64_t)(SB_PTR(sb, SL_SB_OUTCUR) - SB_PTR(sb, SL_SB_OUTBEG)) : 0;
  uint64_t cap = s->p == s->u.local ? 15 : s->u.cap;
  if (cur + n > cap) {                                   /* grow: the put area lives in _M_string's buffer */
    uint64_t ncap = cur + n < STREAM_CAP ? STREAM_CAP : 2 * (cur + n);
    char* np = (char*)vm_new(ncap + 1); if (exc_pending) { exc_pending = 0; *(int32_t*)(os + SL_OSS_IOS + SL_IOS_STATE) |= SL_BADBIT; return; }
    if (cur) vr_memcpy(np, s->p, cur);
    if (s->p != s->u.local) vm_delete(s->p);
    s->p = np; s->u.cap = ncap; cap = ncap;
  }
  if (n) vr_memcpy(s->p + cur, data, n);
  cur += n; s->len = cur; s->p[cur] = 0;
  SB_PTR(sb, SL_SB_OUTBEG) = s->p; SB_PTR(sb, SL_SB_OUTCUR) = s->p + cur; SB_PTR(sb, SL_SB_OUTEND) = s->p + cap;
}
char* ir__ZSt16__ostream_insertIcSt11char_traitsIcEERSt13basic_ostreamIT_T0_ES6_PKS3_l(char* os, char* data, uint64_t n){ os_put(os, data, n); return os; }
#ifdef __CPROVER__
uint8_t nondet_u8_model(void);
int vm_int_digits = 0;     /* harness hint: number of decimal digits of the next formatted int (0 = unknown); asserted to be right */
#endif
char* ir__ZNSolsEi(char* os, uint32_t v_){
  int32_t v = (int32_t)v_; char buf[12]; int k = 11; uint32_t u = v < 0 ? 0u - (uint32_t)v : (uint32_t)v;
#ifdef __CPROVER__
  if (vm_int_digits > 0) {          /* concrete digit count keeps every later allocation size concrete; the digits are chosen
                                       nondeterministically and tied to the value by multiply-accumulate (the decimal representation
                                       is unique), which avoids bit-blasted division */
    uint64_t acc = 0; k = 11 - vm_int_digits;
    for (int i = 0; i < vm_int_digits; i++) { uint8_t dgt = nondet_u8_model(); __CPROVER_assume(dgt <= 9); buf[k + 1 + i] = (char)('0' + dgt); acc = acc * 10 + dgt; }
    __CPROVER_assume(acc == (uint64_t)u);
    __CPROVER_assert(vm_int_digits == 1 || buf[k + 1] != '0' || u == 0, "digit-count hint is wrong (leading zero)");
  } else
#endif
  do { buf[k--] = (char)('0' + u % 10); u /= 10; } while (u);
  if (v < 0) buf[k--] = '-';
  os_put(os, buf + k + 1, (uint64_t)(11 - k)); return os;
}
char* ir__ZNSolsEj(char* os, uint32_t u){ char buf[12]; int k = 11; do { buf[k--] = (char)('0' + u % 10); u /= 10; } while (u); os_put(os, buf + k + 1, (uint64_t)(11 - k)); return os; }
char* ir__ZNSo9_M_insertImEERSoT_(char* os, uint64_t u){ char buf[24]; int k = 23; do { buf[k--] = (char)('0' + u % 10); u /= 10; } while (u); os_put(os, buf + k + 1, (uint64_t)(23 - k)); return os; }
/* double formatting: some text of 1..STREAM_DBL_MAX characters chosen by the environment (harness hook) */
uint64_t vm_format_double(vr64 v, char* buf);
char* ir__ZNSo9_M_insertIdEERSoT_(char* os, vr64 v){ char buf[32]; uint64_t n = vm_format_double(v, buf); os_put(os, buf, n); return os; }
void ir__ZNSt9basic_iosIcSt11char_traitsIcEE5clearESt12_Ios_Iostate(char* ios, uint32_t st){ *(int32_t*)(ios + SL_IOS_STATE) = (int32_t)st; }
void ir__ZNSt8ios_baseD2Ev(char* p){ (void)p; }
void ir__ZNSt6localeD1Ev(char* p){ (void)p; }
/* ---- istringstream(const string&, openmode) */
void ir__ZNSt7__cxx1119basic_istringstreamIcSt11char_traitsIcESaIcEEC1ERKNS_12basic_stringIcS2_S3_EESt13_Ios_Openmode(char* is, char* str_, uint32_t mode){
  (void)mode; struct sstr* src = (struct sstr*)str_; char* sb = is + SL_ISS_SB;
  *(char**)is = (char*)&vt_iss.slots[0]; *(int64_t*)(is + SL_ISS_GCOUNT) = 0;
  *(int32_t*)(is + SL_ISS_IOS + SL_IOS_STATE) = 0;
  sb_init(sb, SL_MODE_IN);
  ir__ZNSt7__cxx1112basic_stringIcSt11char_traitsIcESaIcEE10_M_replaceEmmPKcm((char*)SB_STR(sb), 0, 0, src->p, src->len);
  struct sstr* s = SB_STR(sb);
  SB_PTR(sb, SL_SB_INBEG) = s->p; SB_PTR(sb, SL_SB_INCUR) = s->p; SB_PTR(sb, SL_SB_INEND) = s->p + s->len;
}
void ir__ZNSt7__cxx1119basic_istringstreamIcSt11char_traitsIcESaIcEED1Ev(char* is){
  struct sstr* s = SB_STR(is + SL_ISS_SB); if (s->p != s->u.local) vm_delete(s->p);
}
/* operator>>(int&): skip blanks, optional sign, decimal digits; failbit if no digits or out of range (value clamped as libstdc++ does) */
char* ir__ZNSirsERi(char* is, char* out){
  char* sb = is + SL_ISS_SB; char* p = SB_PTR(sb, SL_SB_INCUR); char* e = SB_PTR(sb, SL_SB_INEND); int32_t* st = (int32_t*)(is + SL_ISS_IOS + SL_IOS_STATE);
  if (*st) { *st |= SL_FAILBIT; return is; }
  while (p < e && (*p == ' ' || (*p >= 9 && *p <= 13))) p++;
  if (p == e) { *st |= SL_EOFBIT | SL_FAILBIT; SB_PTR(sb, SL_SB_INCUR) = p; *(int32_t*)out = 0; return is; }
  int neg = 0; if (*p == '-' || *p == '+') { neg = *p == '-'; p++; }
  int64_t v = 0; int nd = 0, ovf = 0;
  while (p < e && *p >= '0' && *p <= '9') { if (v < 100000000000LL) v = v * 10 + (*p - '0'); else ovf = 1; p++; nd++; }
  SB_PTR(sb, SL_SB_INCUR) = p;
  if (p == e) *st |= SL_EOFBIT;
  if (!nd) { *st |= SL_FAILBIT; *(int32_t*)out = 0; return is; }
  if (neg) v = -v;
  if (ovf || v > 2147483647LL) { *(int32_t*)out = 2147483647; *st |= SL_FAILBIT; }
  else if (v < -2147483648LL) { *(int32_t*)out = (int32_t)(-2147483647 - 1); *st |= SL_FAILBIT; }
  else *(int32_t*)out = (int32_t)v;
  return is;
}
/* operator>>(double&): parsing is not modelled; the environment decides success and the value (harness hook) */
int vm_parse_double(const char* text, uint64_t n, vr64* out);
char* ir__ZNSi10_M_extractIdEERSiRT_(char* is, char* out){
  char* sb = is + SL_ISS_SB; char* p = SB_PTR(sb, SL_SB_INCUR); char* e = SB_PTR(sb, SL_SB_INEND); int32_t* st = (int32_t*)(is + SL_ISS_IOS + SL_IOS_STATE);
  vr64 v = 0; int ok = vm_parse_double(p, (uint64_t)(e - p), &v);
  if (ok) *(vr64*)out = v; else { *(vr64*)out = 0; *st |= SL_FAILBIT; }
  SB_PTR(sb, SL_SB_INCUR) = e; *st |= SL_EOFBIT;
  return is;
}
uint32_t ir_isupper(uint32_t c){ return c >= 'A' && c <= 'Z'; }
uint32_t ir_islower(uint32_t c){ return c >= 'a' && c <= 'z'; }
uint32_t ir_isdigit(uint32_t c){ return c >= '0' && c <= '9'; }
/* VTT (construction vtable tables) referenced by inlined base-object destructors on exception paths */
char* ir__ZTTNSt7__cxx1119basic_ostringstreamIcSt11char_traitsIcESaIcEEE[4] = { (char*)&vt_oss.slots[0], (char*)&vt_oss.slots[0], (char*)&vt_oss.slots[0], (char*)&vt_oss.slots[0] };
char* ir__ZTTNSt7__cxx1119basic_istringstreamIcSt11char_traitsIcESaIcEEE[4] = { (char*)&vt_iss.slots[0], (char*)&vt_iss.slots[0], (char*)&vt_iss.slots[0], (char*)&vt_iss.slots[0] };
