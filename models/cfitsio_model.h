#ifndef CFITSIO_MODEL_H
#define CFITSIO_MODEL_H
#include "vrt.h"
#define CF_MAXFILES 6
#define CF_MAXHDU 14
#define CF_MAXCARDS 128
#define CF_MAXDIM 10
enum { CF_TBYTE = 11, CF_TSTRING = 16, CF_TINT = 31, CF_TUINT = 30, CF_TLONG = 41, CF_TFLOAT = 42, CF_TDOUBLE = 82, CF_FLOAT_IMG = -32, CF_DOUBLE_IMG = -64, CF_IMAGE_HDU = 0,
       CF_FILE_NOT_OPENED = 104, CF_FILE_NOT_CREATED = 105, CF_WRITE_ERROR = 106, CF_END_OF_FILE = 107, CF_READ_ERROR = 108, CF_KEY_NO_EXIST = 202, CF_BAD_HDU_NUM = 301, CF_BAD_DIMEN = 320, CF_BAD_INTKEY = 403, CF_BAD_DOUBLEKEY = 409, CF_BAD_DATATYPE = 410, CF_BAD_PIX_NUM = 321, CF_NOT_IMAGE = 233, CF_BAD_NAXIS = 212 };
struct cf_card { char key[76]; char val[76]; char kind; vr64 dval; };     /* kind: S string (val = raw quoted field), I integer text, D double (handle), C commentary */
struct cf_hdu { int bitpix, naxis; long naxes[CF_MAXDIM]; vr64* data; uint64_t ndata; uint64_t nwritten; /* pixels that reached the file */ struct cf_card cards[CF_MAXCARDS]; int ncards; };
struct cf_file { int used, open, nhdu, cur; char name[96]; void* membuf; struct cf_hdu hdu[CF_MAXHDU]; };
extern struct cf_file cf_files[CF_MAXFILES];
extern int cf_calls, cf_fail_at, cf_cut_at, cf_fail_status, cf_open_handles, cf_close_failures;
struct cf_file* cf_import_begin(const char* name, void* membuf);
struct cf_hdu* cf_import_hdu(struct cf_file* f, int bitpix, int naxis, const long* naxes);
void cf_import_card(struct cf_hdu* h, const char* key, const char* val, char kind, vr64 dval);
#endif
