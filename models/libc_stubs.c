/* output / clock / environment functions of libc: no effect on the checked properties */
#include "vrt.h"
uint32_t ir_printf(char* f, ...){ (void)f; return 0; }
uint32_t ir_puts(char* s){ (void)s; return 0; }
uint32_t ir_putchar(uint32_t c){ return c; }
uint32_t ir_fprintf(char* fp, char* f, ...){ (void)fp; (void)f; return 0; }
uint32_t ir_fputc(uint32_t c, char* fp){ (void)fp; return c; }
uint32_t ir_fputs(char* s, char* fp){ (void)s; (void)fp; return 0; }
uint64_t ir_fwrite(char* p, uint64_t a, uint64_t b, char* fp){ (void)p; (void)a; (void)fp; return b; }
uint32_t ir_fflush(char* fp){ (void)fp; return 0; }
uint64_t ir_clock(void){ return 0; }
char* ir_stderr; char* ir_stdout;
