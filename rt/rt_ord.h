/* R-ord: order-key value domain (CBMC).  An input float is a small integer key, comparisons are
 * integer comparisons, every arithmetic result is OPAQUE; comparing a non-key trips an
 * "abstraction insufficient" assertion (an error of the check, never a success).
 * handle 0 = the constant +0.0 / zeroed memory (not comparable), 1..VR_KEYMAX = keys,
 * VR_NAN = the NaN input, VR_OPAQUE = any computed value, VR_CONST = a non-zero constant. */
#define VR_KEYMAX 0x7fffff00u
#define VR_NAN    0x7ffffff0u
#define VR_OPAQUE 0x7ffffffeu
#define VR_CONST  0x7ffffffdu
#ifdef __CPROVER__
#define VR_INSUFFICIENT(msg) do { __CPROVER_assert(0, "abstraction insufficient: " msg); __CPROVER_assume(0); } while (0)
#else
#include <stdio.h>
#define VR_INSUFFICIENT(msg) do { fprintf(stderr, "abstraction insufficient: %s\n", msg); abort(); } while (0)
#endif
static inline vr64 vr_const64(uint64_t b){ return b == 0 ? 0 : VR_CONST; }
static inline vr32 vr_const32(uint32_t b){ return b == 0 ? 0 : VR_CONST; }
#define VR_ARITH2(n) static inline vr64 vr_##n##64(vr64 a, vr64 b){ (void)a; (void)b; return VR_OPAQUE; } \
                     static inline vr32 vr_##n##32(vr32 a, vr32 b){ (void)a; (void)b; return VR_OPAQUE; }
VR_ARITH2(fadd) VR_ARITH2(fsub) VR_ARITH2(fmul) VR_ARITH2(fdiv) VR_ARITH2(frem)
static inline vr64 vr_fneg64(vr64 a){ (void)a; return VR_OPAQUE; }
static inline vr32 vr_fneg32(vr32 a){ (void)a; return VR_OPAQUE; }
static inline uint8_t vr_cmpkeys_(int p, uint64_t a, uint64_t b){
  if (p == VRP_FALSE) return 0;
  if (p == VRP_TRUE) return 1;
  int un = (a == VR_NAN) || (b == VR_NAN);
  if (!un && (a == 0 || a > VR_KEYMAX || b == 0 || b > VR_KEYMAX)) VR_INSUFFICIENT("comparison of a computed/constant float");
  switch (p) {
    case VRP_OEQ: return !un && a == b; case VRP_OGT: return !un && a > b; case VRP_OGE: return !un && a >= b;
    case VRP_OLT: return !un && a < b; case VRP_OLE: return !un && a <= b; case VRP_ONE: return !un && a != b;
    case VRP_ORD: return !un; case VRP_UNO: return un;
    case VRP_UEQ: return un || a == b; case VRP_UGT: return un || a > b; case VRP_UGE: return un || a >= b;
    case VRP_ULT: return un || a < b; case VRP_ULE: return un || a <= b; case VRP_UNE: return un || a != b;
  }
  return 0;
}
static inline uint8_t vr_fcmp64(int p, vr64 a, vr64 b){ return vr_cmpkeys_(p, a, b); }
static inline uint8_t vr_fcmp32(int p, vr32 a, vr32 b){ return vr_cmpkeys_(p, a, b); }
static inline vr64 vr_fpext(vr32 a){ return a == 0 ? 0 : VR_OPAQUE; }
static inline vr32 vr_fptrunc(vr64 a){ return a == 0 ? 0 : VR_OPAQUE; }
static inline vr64 vr_sitofp64(int64_t i){ return i == 0 ? 0 : VR_OPAQUE; }
static inline vr32 vr_sitofp32(int64_t i){ return i == 0 ? 0 : VR_OPAQUE; }
static inline vr64 vr_uitofp64(uint64_t i){ return i == 0 ? 0 : VR_OPAQUE; }
static inline vr32 vr_uitofp32(uint64_t i){ return i == 0 ? 0 : VR_OPAQUE; }
static inline int64_t vr_fptosi64(vr64 a){ (void)a; VR_INSUFFICIENT("float to integer conversion"); return 0; }
static inline int64_t vr_fptosi32(vr32 a){ (void)a; VR_INSUFFICIENT("float to integer conversion"); return 0; }
static inline uint64_t vr_fptoui64(vr64 a){ (void)a; VR_INSUFFICIENT("float to integer conversion"); return 0; }
static inline uint64_t vr_fptoui32(vr32 a){ (void)a; VR_INSUFFICIENT("float to integer conversion"); return 0; }
static inline uint64_t vr_bits64(vr64 a){ (void)a; VR_INSUFFICIENT("float bit pattern inspected"); return 0; }
static inline uint32_t vr_bits32(vr32 a){ (void)a; VR_INSUFFICIENT("float bit pattern inspected"); return 0; }
static inline vr64 vr_frombits64(uint64_t a){ return a == 0 ? 0 : VR_OPAQUE; }
static inline vr32 vr_frombits32(uint32_t a){ return a == 0 ? 0 : VR_OPAQUE; }
static inline vr64 vr_sqrt64(vr64 a){ (void)a; return VR_OPAQUE; }
static inline vr64 vr_fabs64(vr64 a){ (void)a; return VR_OPAQUE; }
static inline vr64 vr_ceil64(vr64 a){ (void)a; return VR_OPAQUE; }
static inline vr64 vr_floor64(vr64 a){ (void)a; return VR_OPAQUE; }
static inline vr32 vr_sqrt32(vr32 a){ (void)a; return VR_OPAQUE; }
static inline vr32 vr_fabs32(vr32 a){ (void)a; return VR_OPAQUE; }
static inline int vr_is_exact_zero(vr64 a){ return a == 0; }
