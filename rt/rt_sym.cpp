// R-sym runtime: exact-real (GMP) / uninterpreted-function term DAG with SMT-LIB2 emission (E2).
// See rt_sym.h.  Control flow never forks: comparisons are decided from constants, declared
// intervals or ranks, anything else is reported as unsupported via longjmp to the harness.
#include <gmpxx.h>
#include <cstdio>
#include <cstring>
#include <cstdlib>
#include <csetjmp>
#include <string>
#include <vector>
#include <map>
#include <unordered_map>
#include <set>
#include <sstream>
#include <cmath>
#define VR_SYM
#include "vrt.h"

enum Kind { K_CONST, K_VAR, K_POISON, K_ADD, K_SUB, K_MUL, K_DIV, K_NEG, K_UF };
struct Node {
  Kind k; uint32_t a = 0, b = 0; int width = 64; mpq_class val; std::string name;   // name: variable or UF symbol
  int cmpdom = 0;            // 0 not comparable, 1 value domain, 2 rank domain
  mpq_class lo, hi; bool point = false;   // position: point value or open interval (lo,hi); unbounded flags below
  bool lo_inf = false, hi_inf = false;
  uint32_t lo_h = 0, hi_h = 0;   // handles of the bounding terms (for SMT constraints)
  bool nonzero = false;          // variable assumed != 0
  bool ge0 = false;              // variable assumed >= 0
  bool wild = false;             // variable standing for memory the library does not define (knot padding)
  int inf = 0;                   // +1 / -1: the constant +inf / -inf (only ever compared)
  bool nan = false;              // the constant NaN (only ever compared, |.| and negation keep it)
};
static std::vector<Node> T;
static std::unordered_map<std::string, uint32_t> H;   // hash-consing
static int UF = 0;
static std::vector<std::string> assumptions;
static std::vector<uint32_t> divisors;
static std::string outdir = ".";
static int qcount = 0;
static FILE* manifest = nullptr;
static std::string curcase;
extern "C" { jmp_buf vs_jmp; int vs_failed; char vs_errmsg[512]; }

static std::string jsesc(const std::string& s){ std::string o; for (char c : s) { if (c == '"' || c == '\\') o += '\\'; if (c == '\n') { o += "\\n"; continue; } o += c; } return o; }

extern "C" void vs_error(const char* msg){
  snprintf(vs_errmsg, sizeof vs_errmsg, "%s", msg); vs_failed = 1;
  if (manifest) { fprintf(manifest, "{\"kind\":\"error\",\"case\":\"%s\",\"msg\":\"%s\"}\n", jsesc(curcase).c_str(), jsesc(msg).c_str()); fflush(manifest); }
  longjmp(vs_jmp, 1);
}
static uint32_t H_(uint64_t h){ return h >= T.size() ? 1u : (uint32_t)h; }   // garbage handle == value read from uninitialised memory
static Node& N(uint64_t h){ return T[H_(h)]; }
static uint32_t mk(const Node& n, const std::string& key){
  auto it = H.find(key); if (it != H.end()) return it->second;
  T.push_back(n); H[key] = (uint32_t)T.size() - 1; return (uint32_t)T.size() - 1;
}
static uint32_t mkconst(const mpq_class& v, int width){
  Node n; n.k = K_CONST; n.val = v; n.width = UF ? width : 64; n.cmpdom = 1; n.point = true; n.lo = n.hi = v;
  return mk(n, "c" + v.get_str() + (UF ? "w" + std::to_string(width) : ""));
}
extern "C" void ir_fp_globals_init(void) __attribute__((weak));
extern "C" void vs_reset(int uf_mode){
  T.clear(); H.clear(); assumptions.clear(); divisors.clear(); UF = uf_mode; vs_failed = 0;
  mkconst(mpq_class(0), 64);           // handle 0 == +0.0 == zeroed memory
  { Node p; p.k = K_POISON; mk(p, "poison"); }   // handle 1 == value read from uninitialised memory
  if (ir_fp_globals_init) ir_fp_globals_init();    // float constants inside the generated code's global data
}
extern "C" void vs_open(const char* d){ outdir = d; std::string m = outdir + "/manifest.jsonl"; manifest = fopen(m.c_str(), "a"); vs_reset(0); }
extern "C" void vs_note(const char* key, const char* value){
  if (!strcmp(key, "case")) curcase = value;
  if (manifest) { fprintf(manifest, "{\"kind\":\"note\",\"key\":\"%s\",\"value\":\"%s\"}\n", jsesc(key).c_str(), jsesc(value).c_str()); fflush(manifest); }
}
static mpq_class from_double(double d){ if (!(d == d) || std::isinf(d)) vs_error("NaN/inf constant in exact domain"); mpq_class q(d); return q; }
static uint32_t mkbits(uint64_t bits, int width){   // UF mode: a constant is an opaque leaf identified by its bit pattern
  if (bits == 0) return 0;                           // +0.0 of either width == zeroed memory == handle 0
  Node n; n.k = K_CONST; n.width = width; n.cmpdom = 0; n.name = "b" + std::to_string(bits);
  double d; if (width == 64) memcpy(&d, &bits, 8); else { float f; uint32_t b32 = (uint32_t)bits; memcpy(&f, &b32, 4); d = f; }
  if (d == d && !std::isinf(d)) { n.val = mpq_class(d); n.cmpdom = 1; n.point = true; n.lo = n.hi = n.val; }
  return mk(n, "k" + std::to_string(bits) + "w" + std::to_string(width));
}
static uint32_t mknan(){ Node n; n.k = K_CONST; n.width = 64; n.cmpdom = 0; n.nan = true; n.name = "nan"; return mk(n, "knan"); }
static uint32_t mkinf(int sign){ Node n; n.k = K_CONST; n.width = 64; n.cmpdom = 0; n.inf = sign; n.name = sign > 0 ? "pinf" : "ninf"; return mk(n, sign > 0 ? "kpinf" : "kninf"); }
extern "C" vr64 vs_const_bits64(uint64_t bits){ if ((bits & 0x7ff0000000000000ULL) == 0x7ff0000000000000ULL && (bits & 0xfffffffffffffULL)) return mknan(); if (bits == 0x7ff0000000000000ULL) return mkinf(1); if (bits == 0xfff0000000000000ULL) return mkinf(-1); if (UF) return mkbits(bits, 64); double d; memcpy(&d, &bits, 8); return mkconst(from_double(d), 64); }
extern "C" vr32 vs_const_bits32(uint32_t bits){ if (UF) return mkbits(bits, 32); float f; memcpy(&f, &bits, 4); return mkconst(from_double((double)f), 32); }
extern "C" vr64 vs_q(long num, long den){ mpq_class q(num, den); q.canonicalize(); return mkconst(q, 64); }
extern "C" vr64 vs_qstr(const char* s){
  std::string t(s); mpq_class q;
  size_t dot = t.find('.');
  if (dot != std::string::npos) { // decimal -> exact rational
    std::string digits = t.substr(0, dot) + t.substr(dot + 1); size_t nd = t.size() - dot - 1;
    mpz_class num(digits), den; mpz_ui_pow_ui(den.get_mpz_t(), 10, nd); q = mpq_class(num, den);
  } else q = mpq_class(t);
  q.canonicalize(); return mkconst(q, 64);
}
extern "C" vr64 vs_var(const char* name){ Node n; n.k = K_VAR; n.name = name; return mk(n, std::string("v") + name); }
extern "C" vr64 vs_var_nonzero(const char* name){ Node n; n.k = K_VAR; n.name = name; n.nonzero = true; return mk(n, std::string("v") + name); }
extern "C" vr64 vs_var_ge0(const char* name){ Node n; n.k = K_VAR; n.name = name; n.ge0 = true; return mk(n, std::string("v") + name); }
extern "C" vr64 vs_var_wild(const char* name){ Node n; n.k = K_VAR; n.name = name; n.wild = true; return mk(n, std::string("v") + name); }
extern "C" vr64 vs_var_ranked(const char* name, int rank){
  Node n; n.k = K_VAR; n.name = name; n.cmpdom = 2; n.point = true; n.lo = n.hi = rank; return mk(n, std::string("v") + name);
}
extern "C" vr64 vs_var_between(const char* name, vr64 lo, vr64 hi){
  Node n; n.k = K_VAR; n.name = name; n.lo_h = (uint32_t)lo; n.hi_h = (uint32_t)hi;
  // handle 0 means "no bound on this side" (the constant 0.0 itself is never used as a bound by harnesses: use vs_q(0,1)+flag instead)
  int dom = 0;
  if ((uint32_t)lo == 0xffffffffu) lo = 0, n.lo_h = 0, n.lo_inf = true; else n.lo_inf = false;
  if ((uint32_t)hi == 0xffffffffu) hi = 0, n.hi_h = 0, n.hi_inf = true; else n.hi_inf = false;
  bool has_lo = !n.lo_inf, has_hi = !n.hi_inf;
  if (has_lo) { Node& l = N(lo); if (!l.point) vs_error("bound must be a point"); dom = l.cmpdom; n.lo = l.lo; }
  if (has_hi) { Node& h = N(hi); if (!h.point) vs_error("bound must be a point"); if (dom && h.cmpdom != dom) vs_error("mixed bound domains"); dom = h.cmpdom; n.hi = h.hi; }
  n.cmpdom = dom ? dom : 1; n.point = false;
  return mk(n, std::string("v") + name);
}
extern "C" int vs_is_const(vr64 a){ return N(a).k == K_CONST; }
extern "C" int vs_is_finite_const(vr64 a){ Node& n = N(a); return n.k == K_CONST && !n.nan && !n.inf && (!UF || n.cmpdom); }
extern "C" int vs_is_zero(vr64 a){ Node& n = N(a); return n.k == K_CONST && n.val == 0; }
extern "C" int vs_cmp_const(vr64 a, vr64 b){ Node& x = N(a); Node& y = N(b); if (x.k != K_CONST || y.k != K_CONST) vs_error("vs_cmp_const on non-constant"); return cmp(x.val, y.val); }

static const char* OPN[] = {"fadd", "fsub", "fmul", "fdiv", "frem"};
extern "C" vr64 vs_bin(int op, int width, vr64 a_, vr64 b_){
  uint32_t a = H_(a_), b = H_(b_);
  if (T[a].k == K_POISON || T[b].k == K_POISON) return 1;
  Node& x = N(a); Node& y = N(b);
  if (UF) {
    if (op == 1 && b == 0) return a;                          // x - (+0.0) == x exactly in IEEE arithmetic (also for x == -0.0)
    if (op == 2) {                                            // 1.0 * x == x exactly in IEEE arithmetic (compilers fold it)
      auto is_one = [&](uint32_t h){ Node& n = T[h]; return n.k == K_CONST && n.cmpdom == 1 && n.val == 1; };
      if (is_one(a)) return b; if (is_one(b)) return a;
    }
    if ((op == 0 || op == 2) && a > b) std::swap(a, b);      // IEEE add/mul commute
    Node n; n.k = K_UF; n.name = std::string(OPN[op]) + std::to_string(width); n.a = a; n.b = b; n.width = width;
    return mk(n, "u" + n.name + "," + std::to_string(a) + "," + std::to_string(b));
  }
  if (op == 4) vs_error("frem in exact domain");
  if (x.k == K_CONST && y.k == K_CONST) {
    if (op == 3 && y.val == 0) vs_error("division by the constant zero (inf/NaN in the real code)");
    mpq_class r; if (op == 0) r = x.val + y.val; else if (op == 1) r = x.val - y.val; else if (op == 2) r = x.val * y.val; else r = x.val / y.val;
    return mkconst(r, 64);
  }
  // light, real-valid simplifications
  if (op == 0) { if (x.k == K_CONST && x.val == 0) return b; if (y.k == K_CONST && y.val == 0) return a; }
  if (op == 1) { if (y.k == K_CONST && y.val == 0) return a; if (a == b) return mkconst(0, 64); }
  if (op == 2) { if ((x.k == K_CONST && x.val == 0) || (y.k == K_CONST && y.val == 0)) return mkconst(0, 64);
                 if (x.k == K_CONST && x.val == 1) return b; if (y.k == K_CONST && y.val == 1) return a; }
  if (op == 3) { if (y.k == K_CONST && y.val == 1) return a; if (y.k == K_CONST && y.val == 0) vs_error("division by the constant zero (inf/NaN in the real code)");
                 if (x.k == K_CONST && x.val == 0) { divisors.push_back(b); return mkconst(0, 64); } }
  if ((op == 0 || op == 2) && a > b) std::swap(a, b);
  Node n; n.k = op == 0 ? K_ADD : op == 1 ? K_SUB : op == 2 ? K_MUL : K_DIV; n.a = a; n.b = b;
  if (op == 3 && N(b).k != K_CONST) divisors.push_back(b);
  return mk(n, std::string("b") + char('0' + op) + "," + std::to_string(a) + "," + std::to_string(b));
}
extern "C" vr64 vs_add(vr64 a, vr64 b){ return vs_bin(0, 64, a, b); }
extern "C" vr64 vs_sub(vr64 a, vr64 b){ return vs_bin(1, 64, a, b); }
extern "C" vr64 vs_mul(vr64 a, vr64 b){ return vs_bin(2, 64, a, b); }
extern "C" vr64 vs_div(vr64 a, vr64 b){ return vs_bin(3, 64, a, b); }
static const char* UNN[] = {"fneg", "fpext", "fptrunc", "sqrt", "fabs", "ceil", "floor"};
extern "C" vr64 vs_un(int op, int width, vr64 a_){
  uint32_t a = H_(a_); Node& x = N(a);
  if (x.k == K_POISON) return 1;
  if (x.nan && (op == 0 || op == 4)) return a;
  if (x.inf && op == 4) return mkinf(1);
  if (x.inf && op == 0) return mkinf(-x.inf);
  if (UF) {
    Node n; n.k = K_UF; n.name = std::string(UNN[op]) + std::to_string(width); n.a = a; n.b = 0xffffffffu; n.width = width;
    return mk(n, "u" + n.name + "," + std::to_string(a));
  }
  if (op == 1 || op == 2) return a;                       // rounding is outside every exact-domain claim
  if (op == 0) { if (x.k == K_CONST) return mkconst(-x.val, 64); Node n; n.k = K_NEG; n.a = a; return mk(n, "n" + std::to_string(a)); }
  if (x.k == K_CONST) {
    if (op == 4) return mkconst(abs(x.val), 64);
    if (op == 5 || op == 6) { mpz_class q; if (op == 5) mpz_cdiv_q(q.get_mpz_t(), x.val.get_num_mpz_t(), x.val.get_den_mpz_t()); else mpz_fdiv_q(q.get_mpz_t(), x.val.get_num_mpz_t(), x.val.get_den_mpz_t()); return mkconst(mpq_class(q), 64); }
    if (op == 3) { if (x.val < 0) vs_error("sqrt of negative constant");
      mpz_class rn, rd; if (mpz_perfect_square_p(x.val.get_num_mpz_t()) && mpz_perfect_square_p(x.val.get_den_mpz_t())) { mpz_sqrt(rn.get_mpz_t(), x.val.get_num_mpz_t()); mpz_sqrt(rd.get_mpz_t(), x.val.get_den_mpz_t()); return mkconst(mpq_class(rn, rd), 64); }
      vs_error("irrational sqrt in exact domain"); }
  }
  vs_error("unsupported unary float operation on a symbolic value"); return 0;
}
extern "C" vr64 vs_itofp(int is_signed, int width, int64_t v){
  if (UF) { double d = is_signed ? (double)v : (double)(uint64_t)v; uint64_t b;
    if (width == 64) memcpy(&b, &d, 8); else { float f = is_signed ? (float)v : (float)(uint64_t)v; uint32_t b32; memcpy(&b32, &f, 4); b = b32; }
    return mkbits(b, width); }
  mpq_class q; if (is_signed) q = mpq_class((long)v); else q = mpq_class((unsigned long)(uint64_t)v);
  return mkconst(q, width);
}
extern "C" int64_t vs_fptoi(int is_signed, vr64 a){
  Node& x = N(a); if (x.k == K_POISON) vs_error("float read from uninitialised memory converted to integer"); if (x.k != K_CONST) vs_error("float to integer conversion of a symbolic value");
  mpz_class q; mpz_tdiv_q(q.get_mpz_t(), x.val.get_num_mpz_t(), x.val.get_den_mpz_t()); (void)is_signed; return (int64_t)q.get_si();
}
extern "C" uint64_t vs_bits(vr64 a){ (void)a; vs_error("float bit pattern inspected"); return 0; }
extern "C" vr64 vs_frombits(int width, uint64_t b){ return width == 64 ? vs_const_bits64(b) : vs_const_bits32((uint32_t)b); }

// ---- ordering
// known to be a finite number: everything in the exact-real domain; in UF mode finite constants, ranked / bounded variables
// and |.|, -(.) of such (used by std::isfinite tests on data the harness declares finite)
static bool finite_known(uint32_t a){
  Node& x = N(a); if (x.inf) return false; if (!UF) return true;
  if (x.k == K_CONST) return x.cmpdom != 0; if (x.k == K_VAR) return x.cmpdom != 0;
  if (x.k == K_UF && x.b == 0xffffffffu && (x.name.rfind("fabs", 0) == 0 || x.name.rfind("fneg", 0) == 0)) return finite_known(x.a);
  return false;
}
static int order_of(uint32_t a, uint32_t b){  // -1, 0, 1, or 2 = unknown
  if (a == b) return 0;
  Node& x = N(a); Node& y = N(b);
  if (x.inf || y.inf) {
    if (x.inf && y.inf) return x.inf < y.inf ? -1 : (x.inf > y.inf ? 1 : 0);
    if (y.inf && finite_known(a)) return y.inf > 0 ? -1 : 1;
    if (x.inf && finite_known(b)) return x.inf > 0 ? 1 : -1;
    return 2;
  }
  if (!x.cmpdom || !y.cmpdom || x.cmpdom != y.cmpdom) return 2;
  if (x.point && y.point) return cmp(x.lo, y.lo);
  // a strictly inside (lo,hi), b a point (or vice versa)
  if (!x.point && y.point) { if (!x.lo_inf && y.lo <= x.lo) return 1; if (!x.hi_inf && y.lo >= x.hi) return -1; return 2; }
  if (x.point && !y.point) { if (!y.lo_inf && x.lo <= y.lo) return -1; if (!y.hi_inf && x.lo >= y.hi) return 1; return 2; }
  if (!x.hi_inf && !y.lo_inf && x.hi <= y.lo) return -1;
  if (!y.hi_inf && !x.lo_inf && y.hi <= x.lo) return 1;
  return 2;
}
extern "C" uint8_t vs_fcmp(int p, vr64 a, vr64 b){
  if (p == VRP_FALSE) return 0; if (p == VRP_TRUE) return 1;
  if (N(a).nan || N(b).nan) return p >= VRP_UEQ;                // the literal NaN: ordered predicates false, unordered true
  if (p == VRP_ORD) return 1; if (p == VRP_UNO) return 0;       // no other NaN in this domain
  if (N(a).k == K_POISON || N(b).k == K_POISON) vs_error("float read from uninitialised memory used in a comparison");
  { // a variable declared non-zero against the constant zero: decided for ==/!= only
    Node& x = N(a); Node& y = N(b); bool xz = x.k == K_CONST && x.val == 0, yz = y.k == K_CONST && y.val == 0;
    if ((x.k == K_VAR && x.nonzero && yz) || (y.k == K_VAR && y.nonzero && xz)) {
      if (p == VRP_OEQ || p == VRP_UEQ) return 0; if (p == VRP_ONE || p == VRP_UNE) return 1; } }
  int o = order_of(H_(a), H_(b));
  if (o == 2) { std::string m = std::string("undetermined float comparison between ") + vs_show(a); m += std::string(" and ") + vs_show(b); vs_error(m.c_str()); }
  switch (p) {
    case VRP_OEQ: case VRP_UEQ: return o == 0; case VRP_OGT: case VRP_UGT: return o > 0; case VRP_OGE: case VRP_UGE: return o >= 0;
    case VRP_OLT: case VRP_ULT: return o < 0; case VRP_OLE: case VRP_ULE: return o <= 0; case VRP_ONE: case VRP_UNE: return o != 0;
  }
  return 0;
}

// ---- printing / SMT
static std::string qsmt(const mpq_class& q){
  mpz_class an = abs(q.get_num()); std::string n = an.get_str(), d = q.get_den().get_str();
  std::string s = d == "1" ? n + ".0" : "(/ " + n + ".0 " + d + ".0)";
  return sgn(q) < 0 ? "(- " + s + ")" : s;
}
static std::string smtname(const std::string& n){ return "|" + n + "|"; }
static std::string refname(uint32_t h){
  Node& n = T[h];
  if (n.k == K_VAR) return smtname(n.name);
  if (n.k == K_CONST) { if (!UF) return qsmt(n.val); return h == 0 ? std::string("|zero|") : "|k" + (n.name.empty() ? n.val.get_str() : n.name) + "w" + std::to_string(n.width) + "|"; }
  return "t" + std::to_string(h);
}
static void collect(uint32_t h, std::set<uint32_t>& seen, std::vector<uint32_t>& order){
  // iterative post-order
  std::vector<std::pair<uint32_t, int>> st; st.push_back({h, 0});
  while (!st.empty()) {
    auto [x, ph] = st.back(); st.pop_back();
    if (ph == 0) { if (seen.count(x)) continue; seen.insert(x); st.push_back({x, 1});
      Node& n = T[x];
      if (n.k >= K_ADD) { st.push_back({n.a, 0}); if (n.k != K_NEG && n.b != 0xffffffffu) st.push_back({n.b, 0}); }
      if (n.k == K_VAR && !n.point && n.cmpdom) { if (!n.lo_inf) st.push_back({n.lo_h, 0}); if (!n.hi_inf) st.push_back({n.hi_h, 0}); }
    } else order.push_back(x);
  }
}
static std::string emit_prelude(const std::vector<uint32_t>& order, const char* logic){
  std::ostringstream o;
  o << "(set-logic " << logic << ")\n";
  const char* sort = UF ? "V" : "Real";
  if (UF) {
    o << "(declare-sort V 0)\n";
    std::set<std::string> fs;
    for (uint32_t h : order) { Node& n = T[h]; if (n.k == K_UF && !fs.count(n.name)) { fs.insert(n.name); o << "(declare-fun " << n.name << (n.b == 0xffffffffu ? " (V) V)\n" : " (V V) V)\n"); } }
  }
  std::vector<std::pair<mpq_class, uint32_t>> ranked;
  for (uint32_t h : order) { Node& n = T[h];
    if (n.k == K_VAR) o << "(declare-const " << smtname(n.name) << " " << sort << ")\n";
    if (n.k == K_CONST && UF) o << "(declare-const " << refname(h) << " V)\n";
  }
  if (!UF) {
    for (uint32_t h : order) { Node& n = T[h];
      if (n.k != K_VAR) continue;
      if (n.cmpdom == 2 && n.point) ranked.push_back({n.lo, h});
      if (n.nonzero) o << "(assert (distinct " << smtname(n.name) << " 0.0))\n";
      if (n.ge0) o << "(assert (>= " << smtname(n.name) << " 0.0))\n";
      if (!n.cmpdom) continue;
      if (!n.point && !n.lo_inf) o << "(assert (< " << refname(n.lo_h) << " " << smtname(n.name) << "))\n";
      if (!n.point && !n.hi_inf) o << "(assert (< " << smtname(n.name) << " " << refname(n.hi_h) << "))\n";
    }
    std::sort(ranked.begin(), ranked.end(), [](auto& a, auto& b){ return a.first < b.first; });
    for (size_t i = 1; i < ranked.size(); i++)
      o << "(assert (" << (ranked[i - 1].first == ranked[i].first ? "=" : "<") << " " << refname(ranked[i - 1].second) << " " << refname(ranked[i].second) << "))\n";
    for (auto& a : assumptions) o << "(assert " << a << ")\n";
  }
  for (uint32_t h : order) { Node& n = T[h];
    if (n.k < K_ADD) continue;
    o << "(define-fun t" << h << " () " << sort << " ";
    if (n.k == K_UF) { o << "(" << n.name << " " << refname(n.a); if (n.b != 0xffffffffu) o << " " << refname(n.b); o << ")"; }
    else if (n.k == K_NEG) o << "(- " << refname(n.a) << ")";
    else o << "(" << (n.k == K_ADD ? "+" : n.k == K_SUB ? "-" : n.k == K_MUL ? "*" : "/") << " " << refname(n.a) << " " << refname(n.b) << ")";
    o << ")\n";
  }
  return o.str();
}
static void write_query(const std::string& body, const char* label, const char* kind, size_t nodes){
  char fn[64]; snprintf(fn, sizeof fn, "q_%06d.smt2", qcount++);
  std::string path = outdir + "/" + fn;
  FILE* f = fopen(path.c_str(), "w"); fputs(body.c_str(), f); fclose(f);
  if (manifest) { fprintf(manifest, "{\"kind\":\"%s\",\"file\":\"%s\",\"label\":\"%s\",\"case\":\"%s\",\"nodes\":%zu,\"uf\":%d}\n", kind, fn, jsesc(label).c_str(), jsesc(curcase).c_str(), nodes, UF); fflush(manifest); }
}
extern "C" void vs_assume_text(const char* smt){ assumptions.push_back(smt); }
extern "C" void vs_prove_eq(vr64 a_, vr64 b_, const char* label){
  uint32_t a = H_(a_), b = H_(b_);
  if (T[a].k == K_POISON || T[b].k == K_POISON) {   // the proved output depends on uninitialised memory
    if (manifest) { fprintf(manifest, "{\"kind\":\"poison\",\"label\":\"%s\",\"case\":\"%s\"}\n", jsesc(label).c_str(), jsesc(curcase).c_str()); fflush(manifest); }
    return;
  }
  if (UF && a == b) {
    // both paths produced the very same hash-consed node: congruence is decided by construction; the residual
    // obligation handed to the solver is the reflexive one over an opaque constant standing for that term
    std::set<uint32_t> seen0; std::vector<uint32_t> order0; collect(a, seen0, order0);
    std::string s0 = "(set-logic QF_UF)\n(declare-sort V 0)\n(declare-const t" + std::to_string(a) + " V)\n(assert (not (= t" + std::to_string(a) + " t" + std::to_string(a) + ")))\n(check-sat)\n";
    write_query(s0, label, "eq-trivial", order0.size());
    return;
  }
  std::set<uint32_t> seen; std::vector<uint32_t> order; collect(a, seen, order); collect(b, seen, order);
  // variables only mentioned in assumptions must be declared too: harnesses only assume over variables of the terms
  std::string pre = emit_prelude(order, UF ? "QF_UF" : "QF_NRA");
  std::string s = pre + "(assert (not (= " + refname(a) + " " + refname(b) + ")))\n(check-sat)\n";
  write_query(s, label, a == b ? "eq-trivial" : "eq", order.size());
  // vacuity witness: the assumptions of this obligation must be satisfiable on their own
  write_query(pre + "(check-sat)\n", label, "witness", order.size());
}
extern "C" void vs_prove_nonneg(vr64 a_, const char* label){
  uint32_t a = H_(a_); if (T[a].k == K_POISON) { vs_error("vs_prove_nonneg on uninitialised value"); }
  std::set<uint32_t> seen; std::vector<uint32_t> order; collect(a, seen, order);
  std::string pre = emit_prelude(order, "QF_NRA");
  write_query(pre + "(assert (< " + refname(a) + " 0.0))\n(check-sat)\n", label, "eq", order.size());
  write_query(pre + "(check-sat)\n", label, "witness", order.size());
}
extern "C" void vs_prove_nonzero_divisors(const char* label){
  std::set<uint32_t> ds(divisors.begin(), divisors.end());
  for (uint32_t d : ds) {
    std::set<uint32_t> seen; std::vector<uint32_t> order; collect(d, seen, order);
    bool nonzero = false;          // variable assumed != 0
  bool ge0 = false;              // variable assumed >= 0
  bool wild = false; for (uint32_t h : order) if (T[h].k == K_VAR && T[h].wild) wild = true;
    if (wild) {   // denominators built from undefined padding memory belong to discarded terms: not an obligation (stated assumption)
      if (manifest) { fprintf(manifest, "{\"kind\":\"divisor-skipped\",\"label\":\"%s\",\"case\":\"%s\"}\n", jsesc(label).c_str(), jsesc(curcase).c_str()); fflush(manifest); }
      continue;
    }
    std::string s = emit_prelude(order, "QF_NRA");
    s += "(assert (= " + refname(d) + " 0.0))\n(check-sat)\n";
    write_query(s, label, "divisor", order.size());
  }
  divisors.clear();
}
extern "C" vr64 vs_diff(vr64 t_, vr64 var_){
  if (UF) vs_error("vs_diff in UF mode");
  uint32_t var = (uint32_t)var_;
  std::map<uint32_t, uint32_t> memo;
  std::set<uint32_t> seen; std::vector<uint32_t> order; collect((uint32_t)t_, seen, order);
  for (uint32_t h : order) {
    Node n = T[h]; uint32_t r;
    if (n.k == K_CONST) r = (uint32_t)vs_q(0, 1);
    else if (n.k == K_VAR) r = (uint32_t)(h == var ? vs_q(1, 1) : vs_q(0, 1));
    else {
      uint32_t da = memo[n.a], db = (n.k == K_NEG) ? 0 : memo[n.b];
      if (n.k == K_ADD) r = (uint32_t)vs_add(da, db);
      else if (n.k == K_SUB) r = (uint32_t)vs_sub(da, db);
      else if (n.k == K_NEG) r = (uint32_t)vs_un(0, 64, da);
      else if (n.k == K_MUL) r = (uint32_t)vs_add(vs_mul(da, n.b), vs_mul(n.a, db));
      else r = (uint32_t)vs_div(vs_sub(vs_mul(da, n.b), vs_mul(n.a, db)), vs_mul(n.b, n.b));
    }
    memo[h] = r;
  }
  return memo[(uint32_t)t_];
}
extern "C" vr64 vs_subst(vr64 t_, vr64 var_, vr64 value_){
  uint32_t var = (uint32_t)var_;
  std::map<uint32_t, uint32_t> memo;
  std::set<uint32_t> seen; std::vector<uint32_t> order; collect((uint32_t)t_, seen, order);
  for (uint32_t h : order) {
    Node n = T[h]; uint32_t r;
    if (h == var) r = (uint32_t)value_;
    else if (n.k == K_CONST || n.k == K_VAR) r = h;
    else if (n.k == K_NEG) r = (uint32_t)vs_un(0, 64, memo[n.a]);
    else if (n.k == K_UF) { vs_error("vs_subst in UF mode"); r = 0; }
    else r = (uint32_t)vs_bin(n.k == K_ADD ? 0 : n.k == K_SUB ? 1 : n.k == K_MUL ? 2 : 3, 64, memo[n.a], memo[n.b]);
    memo[h] = r;
  }
  return memo[(uint32_t)t_];
}
static std::string showbuf;
static std::string show_rec(uint32_t h, int depth){
  if (h >= T.size()) return "<invalid>";
  if (T[h].k == K_POISON) return "<uninitialised>";
  Node& n = T[h];
  if (n.k == K_CONST) return n.val.get_str();
  if (n.k == K_VAR) return n.name;
  if (depth > (getenv("VS_DEBUG") ? 12 : 3)) return "t" + std::to_string(h);
  if (n.k == K_UF) return n.name + "(" + show_rec(n.a, depth + 1) + (n.b != 0xffffffffu ? "," + show_rec(n.b, depth + 1) : "") + ")";
  if (n.k == K_NEG) return "-(" + show_rec(n.a, depth + 1) + ")";
  const char* o = n.k == K_ADD ? "+" : n.k == K_SUB ? "-" : n.k == K_MUL ? "*" : "/";
  return "(" + show_rec(n.a, depth + 1) + o + show_rec(n.b, depth + 1) + ")";
}
extern "C" const char* vs_show(vr64 a){ showbuf = show_rec((uint32_t)a, 0); return showbuf.c_str(); }
