/* definitions shared by all runtimes */
#include "vrt.h"
#include <stdio.h>
int exc_pending, exc_type;
char* exc_obj;
#ifdef __CPROVER__
void* vr_exc_alloc(uint64_t n){ void* p = malloc(n); __CPROVER_assume(p != 0); return p; }
void vr_terminate(void){ __CPROVER_assert(0, "std::terminate reached"); __CPROVER_assume(0); }
void vr_trap(void){ __CPROVER_assert(0, "llvm.trap reached"); __CPROVER_assume(0); }
void vr_unreachable(void){ __CPROVER_assert(0, "IR unreachable reached"); __CPROVER_assume(0); }
void vr_bad_icall(void){ __CPROVER_assert(0, "indirect call to unknown function"); __CPROVER_assume(0); }
uint64_t nondet_u64(void);
uint64_t vr_nondet_u64(void){ return nondet_u64(); }
#ifndef VR_MAXREG
#define VR_MAXREG 12
#endif
static struct { const char* p; uint64_t len; } vr_reg[VR_MAXREG]; static int vr_nreg;
void vr_register_string(const char* s, uint64_t len){
  /* the registered length must be the true one */
  for (uint64_t i = 0; i < len; i++) __CPROVER_assert(s[i] != 0, "registered string has an earlier NUL");
  __CPROVER_assert(s[len] == 0, "registered string is not terminated at its registered length");
  if (vr_nreg < VR_MAXREG) { vr_reg[vr_nreg].p = s; vr_reg[vr_nreg].len = len; vr_nreg++; }
}
uint64_t vr_strlen(const char* s){
  for (int i = 0; i < vr_nreg && i < VR_MAXREG; i++) if (s == vr_reg[i].p) return vr_reg[i].len;
  uint64_t n = 0; while (s[n]) n++; return n;
}
/* strcmp that never runs past a terminator symex cannot see: bounded by the registered length of either argument */
int vr_strcmp(const char* a, const char* b){
  if (a == b) return 0;
  uint64_t bound = (uint64_t)-1;
  for (int i = 0; i < vr_nreg && i < VR_MAXREG; i++) { if (a == vr_reg[i].p && vr_reg[i].len < bound) bound = vr_reg[i].len; if (b == vr_reg[i].p && vr_reg[i].len < bound) bound = vr_reg[i].len; }
  for (uint64_t i = 0; ; i++) { unsigned char x = (unsigned char)a[i], y = (unsigned char)b[i]; if (x != y) return x < y ? -1 : 1; if (x == 0 || i == bound) return 0; }
}
/* alignment is read off the offset inside the object (objects themselves are suitably aligned): foldable by symex */
#define AL(p, k) (__CPROVER_POINTER_OFFSET(p) % (k) == 0)
void* vr_memmove(void* d, const void* s, uint64_t n){
  if (n == 0 || d == s) return d;
  if (AL(d, 8) && AL(s, 8) && n % 8 == 0) {
    uint64_t* D = (uint64_t*)d; const uint64_t* S = (const uint64_t*)s; uint64_t k = n / 8;
    if ((__CPROVER_POINTER_OBJECT(d) != __CPROVER_POINTER_OBJECT(s) || __CPROVER_POINTER_OFFSET(d) < __CPROVER_POINTER_OFFSET(s))) for (uint64_t i = 0; i < k; i++) D[i] = S[i]; else for (uint64_t i = k; i > 0; i--) D[i - 1] = S[i - 1];
  } else if (AL(d, 4) && AL(s, 4) && n % 4 == 0) {
    uint32_t* D = (uint32_t*)d; const uint32_t* S = (const uint32_t*)s; uint64_t k = n / 4;
    if ((__CPROVER_POINTER_OBJECT(d) != __CPROVER_POINTER_OBJECT(s) || __CPROVER_POINTER_OFFSET(d) < __CPROVER_POINTER_OFFSET(s))) for (uint64_t i = 0; i < k; i++) D[i] = S[i]; else for (uint64_t i = k; i > 0; i--) D[i - 1] = S[i - 1];
  } else {
    char* D = (char*)d; const char* S = (const char*)s;
    if ((__CPROVER_POINTER_OBJECT(d) != __CPROVER_POINTER_OBJECT(s) || __CPROVER_POINTER_OFFSET(d) < __CPROVER_POINTER_OFFSET(s))) for (uint64_t i = 0; i < n; i++) D[i] = S[i]; else for (uint64_t i = n; i > 0; i--) D[i - 1] = S[i - 1];
  }
  return d;
}
void* vr_memcpy(void* d, const void* s, uint64_t n){ return vr_memmove(d, s, n); }
void* vr_memset(void* d, int c, uint64_t n){
  if (n == 0) return d;
  if (AL(d, 8) && n % 8 == 0) { uint64_t v = (uint8_t)c * 0x0101010101010101ULL; for (uint64_t i = 0; i < n / 8; i++) ((uint64_t*)d)[i] = v; }
  else if (AL(d, 4) && n % 4 == 0) { uint32_t v = (uint8_t)c * 0x01010101U; for (uint64_t i = 0; i < n / 4; i++) ((uint32_t*)d)[i] = v; }
  else for (uint64_t i = 0; i < n; i++) ((char*)d)[i] = (char)c;
  return d;
}
#else
void* vr_exc_alloc(uint64_t n){ return malloc(n); }
void vr_terminate(void){ fprintf(stderr, "vr_terminate\n"); abort(); }
void vr_trap(void){ fprintf(stderr, "vr_trap\n"); abort(); }
void vr_unreachable(void){ fprintf(stderr, "vr_unreachable\n"); abort(); }
void vr_bad_icall(void){ fprintf(stderr, "vr_bad_icall\n"); abort(); }
uint64_t vr_nondet_u64(void){ return 0; }
#endif

/* ---- exception type matching by typeinfo name (std hierarchy) */
static const char* const vr_builtin_exc[] = {"_ZTISt12length_error", "_ZTISt9bad_alloc", "_ZTISt12out_of_range", "_ZTI7foreign",
  "_ZTISt11logic_error", "_ZTISt13runtime_error", "_ZTISt9exception"};
static const char* const vr_bases[][2] = {
  {"_ZTISt9bad_alloc", "_ZTISt9exception"}, {"_ZTISt20bad_array_new_length", "_ZTISt9bad_alloc"},
  {"_ZTISt11logic_error", "_ZTISt9exception"}, {"_ZTISt13runtime_error", "_ZTISt9exception"},
  {"_ZTISt12out_of_range", "_ZTISt11logic_error"}, {"_ZTISt16invalid_argument", "_ZTISt11logic_error"},
  {"_ZTISt12length_error", "_ZTISt11logic_error"}, {"_ZTISt12domain_error", "_ZTISt11logic_error"},
  {"_ZTISt11range_error", "_ZTISt13runtime_error"}, {"_ZTISt14overflow_error", "_ZTISt13runtime_error"},
  {"_ZTISt15underflow_error", "_ZTISt13runtime_error"}, {"_ZTISt8bad_cast", "_ZTISt9exception"},
  {"_ZTINSt8ios_base7failureB5cxx11E", "_ZTISt13runtime_error"}, {0, 0}};
static const char* vr_exc_name(int id){ return (id >= 1000 && id < VR_EXC_END) ? vr_builtin_exc[id - 1000] : ir_typeinfo_name(id); }
static int vr_derives(const char* t, const char* c, int depth){
  if (strcmp(t, c) == 0) return 1;
  if (depth > 4) return 0;
  for (int i = 0; vr_bases[i][0]; i++)
    if (strcmp(vr_bases[i][0], t) == 0 && vr_derives(vr_bases[i][1], c, depth + 1)) return 1;
  return 0;
}
int ir_eh_match(int thrown, int caught){
  if (caught == 0 || thrown == caught) return 1;
  return vr_derives(vr_exc_name(thrown), vr_exc_name(caught), 0);
}
char* vr_exc_vtable[4] = {0, 0, VR_FN_WHAT, 0};
char* vr_model_icall_pp(char* fn, char* a0){ (void)a0; if (fn == VR_FN_WHAT) return (char*)"exception"; vr_bad_icall(); return 0; }
void vr_throw(int id){ exc_pending = 1; exc_type = id; exc_obj = (char*)vr_exc_alloc(16); *(char***)exc_obj = vr_exc_vtable; }
