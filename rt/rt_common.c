/* definitions shared by all runtimes */
#include "vrt.h"
#include <stdio.h>
int exc_pending, exc_type;
char* exc_obj;
#ifdef __CPROVER__
void* vr_exc_alloc(uint64_t n){ void* p = malloc(n); __CPROVER_assume(p != 0); return p; }
void vr_terminate(void){ __CPROVER_assert(0, "std::terminate reached"); __CPROVER_assume(0); }
void vr_trap(void){ __CPROVER_assert(0, "llvm.trap reached"); __CPROVER_assume(0); }
void vr_unreachable(void){ __CPROVER_assert(0, "IR unreachable reached"); __CPROVER_assume(0); }
void vr_bad_icall(void){ __CPROVER_assert(0, "indirect call to unknown function"); __CPROVER_assume(0); }
uint64_t nondet_u64(void);
uint64_t vr_nondet_u64(void){ return nondet_u64(); }
void* vr_memmove(void* d, const void* s, uint64_t n){
  if (n == 0 || d == s) return d;
  if (((uintptr_t)d % 8 == 0) && ((uintptr_t)s % 8 == 0) && n % 8 == 0) {
    uint64_t* D = (uint64_t*)d; const uint64_t* S = (const uint64_t*)s; uint64_t k = n / 8;
    if ((uintptr_t)d < (uintptr_t)s) for (uint64_t i = 0; i < k; i++) D[i] = S[i]; else for (uint64_t i = k; i > 0; i--) D[i - 1] = S[i - 1];
  } else if (((uintptr_t)d % 4 == 0) && ((uintptr_t)s % 4 == 0) && n % 4 == 0) {
    uint32_t* D = (uint32_t*)d; const uint32_t* S = (const uint32_t*)s; uint64_t k = n / 4;
    if ((uintptr_t)d < (uintptr_t)s) for (uint64_t i = 0; i < k; i++) D[i] = S[i]; else for (uint64_t i = k; i > 0; i--) D[i - 1] = S[i - 1];
  } else {
    char* D = (char*)d; const char* S = (const char*)s;
    if ((uintptr_t)d < (uintptr_t)s) for (uint64_t i = 0; i < n; i++) D[i] = S[i]; else for (uint64_t i = n; i > 0; i--) D[i - 1] = S[i - 1];
  }
  return d;
}
void* vr_memcpy(void* d, const void* s, uint64_t n){ return vr_memmove(d, s, n); }
void* vr_memset(void* d, int c, uint64_t n){
  if (n == 0) return d;
  if (((uintptr_t)d % 8 == 0) && n % 8 == 0) { uint64_t v = (uint8_t)c * 0x0101010101010101ULL; for (uint64_t i = 0; i < n / 8; i++) ((uint64_t*)d)[i] = v; }
  else if (((uintptr_t)d % 4 == 0) && n % 4 == 0) { uint32_t v = (uint8_t)c * 0x01010101U; for (uint64_t i = 0; i < n / 4; i++) ((uint32_t*)d)[i] = v; }
  else for (uint64_t i = 0; i < n; i++) ((char*)d)[i] = (char)c;
  return d;
}
#else
void* vr_exc_alloc(uint64_t n){ return malloc(n); }
void vr_terminate(void){ fprintf(stderr, "vr_terminate\n"); abort(); }
void vr_trap(void){ fprintf(stderr, "vr_trap\n"); abort(); }
void vr_unreachable(void){ fprintf(stderr, "vr_unreachable\n"); abort(); }
void vr_bad_icall(void){ fprintf(stderr, "vr_bad_icall\n"); abort(); }
uint64_t vr_nondet_u64(void){ return 0; }
#endif

/* ---- exception type matching by typeinfo name (std hierarchy) */
static const char* const vr_builtin_exc[] = {"_ZTISt12length_error", "_ZTISt9bad_alloc", "_ZTISt12out_of_range", "_ZTI7foreign",
  "_ZTISt11logic_error", "_ZTISt13runtime_error", "_ZTISt9exception"};
static const char* const vr_bases[][2] = {
  {"_ZTISt9bad_alloc", "_ZTISt9exception"}, {"_ZTISt20bad_array_new_length", "_ZTISt9bad_alloc"},
  {"_ZTISt11logic_error", "_ZTISt9exception"}, {"_ZTISt13runtime_error", "_ZTISt9exception"},
  {"_ZTISt12out_of_range", "_ZTISt11logic_error"}, {"_ZTISt16invalid_argument", "_ZTISt11logic_error"},
  {"_ZTISt12length_error", "_ZTISt11logic_error"}, {"_ZTISt12domain_error", "_ZTISt11logic_error"},
  {"_ZTISt11range_error", "_ZTISt13runtime_error"}, {"_ZTISt14overflow_error", "_ZTISt13runtime_error"},
  {"_ZTISt15underflow_error", "_ZTISt13runtime_error"}, {"_ZTISt8bad_cast", "_ZTISt9exception"},
  {"_ZTINSt8ios_base7failureB5cxx11E", "_ZTISt13runtime_error"}, {0, 0}};
static const char* vr_exc_name(int id){ return (id >= 1000 && id < VR_EXC_END) ? vr_builtin_exc[id - 1000] : ir_typeinfo_name(id); }
static int vr_derives(const char* t, const char* c, int depth){
  if (strcmp(t, c) == 0) return 1;
  if (depth > 4) return 0;
  for (int i = 0; vr_bases[i][0]; i++)
    if (strcmp(vr_bases[i][0], t) == 0 && vr_derives(vr_bases[i][1], c, depth + 1)) return 1;
  return 0;
}
int ir_eh_match(int thrown, int caught){
  if (caught == 0 || thrown == caught) return 1;
  return vr_derives(vr_exc_name(thrown), vr_exc_name(caught), 0);
}
void vr_throw(int id){ exc_pending = 1; exc_type = id; exc_obj = (char*)vr_exc_alloc(16); }
