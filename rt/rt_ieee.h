/* R-ieee: handles are the real bit patterns; used for translator validation only. */
#include <math.h>
static inline double vr_d(vr64 h){ double d; memcpy(&d,&h,8); return d; }
static inline vr64 vr_h(double d){ vr64 h; memcpy(&h,&d,8); return h; }
static inline float vr_f(vr32 h){ float d; memcpy(&d,&h,4); return d; }
static inline vr32 vr_hf(float d){ vr32 h; memcpy(&h,&d,4); return h; }
#define vr_const64(b) ((vr64)(b))
#define vr_const32(b) ((vr32)(b))
#define VR_BIN(n,op) static inline vr64 vr_##n##64(vr64 a, vr64 b){ return vr_h(vr_d(a) op vr_d(b)); } \
                     static inline vr32 vr_##n##32(vr32 a, vr32 b){ return vr_hf(vr_f(a) op vr_f(b)); }
VR_BIN(fadd,+) VR_BIN(fsub,-) VR_BIN(fmul,*) VR_BIN(fdiv,/)
static inline vr64 vr_frem64(vr64 a, vr64 b){ return vr_h(fmod(vr_d(a),vr_d(b))); }
static inline vr32 vr_frem32(vr32 a, vr32 b){ return vr_hf(fmodf(vr_f(a),vr_f(b))); }
static inline vr64 vr_fneg64(vr64 a){ return vr_h(-vr_d(a)); }
static inline vr32 vr_fneg32(vr32 a){ return vr_hf(-vr_f(a)); }
static inline uint8_t vr_cmp_(int p, double a, double b){
  int un = (a != a) || (b != b);
  switch (p) {
    case VRP_FALSE: return 0; case VRP_TRUE: return 1;
    case VRP_OEQ: return !un && a == b; case VRP_OGT: return !un && a > b; case VRP_OGE: return !un && a >= b;
    case VRP_OLT: return !un && a < b; case VRP_OLE: return !un && a <= b; case VRP_ONE: return !un && a != b;
    case VRP_ORD: return !un; case VRP_UNO: return un;
    case VRP_UEQ: return un || a == b; case VRP_UGT: return un || a > b; case VRP_UGE: return un || a >= b;
    case VRP_ULT: return un || a < b; case VRP_ULE: return un || a <= b; case VRP_UNE: return un || a != b;
  }
  return 0;
}
static inline uint8_t vr_fcmp64(int p, vr64 a, vr64 b){ return vr_cmp_(p, vr_d(a), vr_d(b)); }
static inline uint8_t vr_fcmp32(int p, vr32 a, vr32 b){ return vr_cmp_(p, vr_f(a), vr_f(b)); }
static inline vr64 vr_fpext(vr32 a){ return vr_h((double)vr_f(a)); }
static inline vr32 vr_fptrunc(vr64 a){ return vr_hf((float)vr_d(a)); }
static inline vr64 vr_sitofp64(int64_t i){ return vr_h((double)i); }
static inline vr32 vr_sitofp32(int64_t i){ return vr_hf((float)i); }
static inline vr64 vr_uitofp64(uint64_t i){ return vr_h((double)i); }
static inline vr32 vr_uitofp32(uint64_t i){ return vr_hf((float)i); }
static inline int64_t vr_fptosi64(vr64 a){ return (int64_t)vr_d(a); }
static inline int64_t vr_fptosi32(vr32 a){ return (int64_t)vr_f(a); }
static inline uint64_t vr_fptoui64(vr64 a){ return (uint64_t)vr_d(a); }
static inline uint64_t vr_fptoui32(vr32 a){ return (uint64_t)vr_f(a); }
#define vr_bits64(h) ((uint64_t)(h))
#define vr_bits32(h) ((uint32_t)(h))
#define vr_frombits64(h) ((vr64)(h))
#define vr_frombits32(h) ((vr32)(h))
static inline vr64 vr_sqrt64(vr64 a){ return vr_h(sqrt(vr_d(a))); }
static inline vr64 vr_fabs64(vr64 a){ return vr_h(fabs(vr_d(a))); }
static inline vr64 vr_ceil64(vr64 a){ return vr_h(ceil(vr_d(a))); }
static inline vr64 vr_floor64(vr64 a){ return vr_h(floor(vr_d(a))); }
static inline vr32 vr_sqrt32(vr32 a){ return vr_hf(sqrtf(vr_f(a))); }
static inline vr32 vr_fabs32(vr32 a){ return vr_hf(fabsf(vr_f(a))); }
static inline int vr_is_exact_zero(vr64 a){ return vr_d(a) == 0.0; }
