/* R-sym: exact-real / uninterpreted-function term domain for native symbolic runs (E2).
 * Handles index a hash-consed term table kept by rt_sym.cpp.  Control flow is concrete: a float
 * comparison is decided from constants, declared variable intervals or declared ranks; anything
 * else aborts the path as "unsupported" (an error of the check, never a success). */
#ifndef RT_SYM_H
#define RT_SYM_H
vr64 vs_const_bits64(uint64_t bits);
vr32 vs_const_bits32(uint32_t bits);
vr64 vs_bin(int op, int width, vr64 a, vr64 b);     /* op: 0 add 1 sub 2 mul 3 div 4 rem */
vr64 vs_un(int op, int width, vr64 a);              /* op: 0 neg 1 fpext 2 fptrunc 3 sqrt 4 fabs 5 ceil 6 floor */
uint8_t vs_fcmp(int pred, vr64 a, vr64 b);
vr64 vs_itofp(int is_signed, int width, int64_t v);
int64_t vs_fptoi(int is_signed, vr64 a);
#define vr_const64(b) vs_const_bits64(b)
#define vr_const32(b) vs_const_bits32(b)
#define VS_B(n,op) static inline vr64 vr_##n##64(vr64 a, vr64 b){ return vs_bin(op,64,a,b); } \
                   static inline vr32 vr_##n##32(vr32 a, vr32 b){ return (vr32)vs_bin(op,32,a,b); }
VS_B(fadd,0) VS_B(fsub,1) VS_B(fmul,2) VS_B(fdiv,3) VS_B(frem,4)
static inline vr64 vr_fneg64(vr64 a){ return vs_un(0,64,a); }
static inline vr32 vr_fneg32(vr32 a){ return (vr32)vs_un(0,32,a); }
static inline uint8_t vr_fcmp64(int p, vr64 a, vr64 b){ return vs_fcmp(p,a,b); }
static inline uint8_t vr_fcmp32(int p, vr32 a, vr32 b){ return vs_fcmp(p,a,b); }
static inline vr64 vr_fpext(vr32 a){ return vs_un(1,64,a); }
static inline vr32 vr_fptrunc(vr64 a){ return (vr32)vs_un(2,32,a); }
static inline vr64 vr_sitofp64(int64_t i){ return vs_itofp(1,64,i); }
static inline vr32 vr_sitofp32(int64_t i){ return (vr32)vs_itofp(1,32,i); }
static inline vr64 vr_uitofp64(uint64_t i){ return vs_itofp(0,64,(int64_t)i); }
static inline vr32 vr_uitofp32(uint64_t i){ return (vr32)vs_itofp(0,32,(int64_t)i); }
static inline int64_t vr_fptosi64(vr64 a){ return vs_fptoi(1,a); }
static inline int64_t vr_fptosi32(vr32 a){ return vs_fptoi(1,a); }
static inline uint64_t vr_fptoui64(vr64 a){ return (uint64_t)vs_fptoi(0,a); }
static inline uint64_t vr_fptoui32(vr32 a){ return (uint64_t)vs_fptoi(0,a); }
uint64_t vs_bits(vr64 a);
#define vr_bits64(h) vs_bits(h)
#define vr_bits32(h) ((uint32_t)vs_bits(h))
vr64 vs_frombits(int width, uint64_t b);
#define vr_frombits64(b) vs_frombits(64,(b))
#define vr_frombits32(b) ((vr32)vs_frombits(32,(b)))
static inline vr64 vr_sqrt64(vr64 a){ return vs_un(3,64,a); }
static inline vr64 vr_fabs64(vr64 a){ return vs_un(4,64,a); }
static inline vr64 vr_ceil64(vr64 a){ return vs_un(5,64,a); }
static inline vr64 vr_floor64(vr64 a){ return vs_un(6,64,a); }
static inline vr32 vr_sqrt32(vr32 a){ return (vr32)vs_un(3,32,a); }
static inline vr32 vr_fabs32(vr32 a){ return (vr32)vs_un(4,32,a); }

int vs_is_zero(vr64 a);
static inline int vr_is_exact_zero(vr64 a){ return vs_is_zero(a); }
/* ---- harness API */
void vs_reset(int uf_mode);                               /* start a new case; uf_mode: FP operations are uninterpreted symbols */
vr64 vs_var(const char* name);                            /* fresh real variable, not comparable */
vr64 vs_var_wild(const char* name);                       /* same, standing for memory the library leaves undefined (padding) */
#define VS_NOBOUND 0xffffffffu
vr64 vs_var_between(const char* name, vr64 lo, vr64 hi);  /* variable with lo < v < hi (lo/hi constants or ranked vars, VS_NOBOUND = unbounded) */
vr64 vs_var_ge0(const char* name);                        /* variable assumed >= 0 (not comparable) */
vr64 vs_var_nonzero(const char* name);                    /* variable known to be != 0 (comparable with the constant 0 for ==/!= only) */
vr64 vs_var_ranked(const char* name, int rank);           /* variable ordered by rank against other ranked variables */
vr64 vs_q(long num, long den);                            /* exact rational constant */
vr64 vs_qstr(const char* s);                              /* "p/q" or decimal */
vr64 vs_add(vr64 a, vr64 b); vr64 vs_sub(vr64 a, vr64 b); vr64 vs_mul(vr64 a, vr64 b); vr64 vs_div(vr64 a, vr64 b);
int vs_is_const(vr64 a); int vs_is_zero(vr64 a); int vs_is_finite_const(vr64 a);
int vs_cmp_const(vr64 a, vr64 b);                         /* both constants: -1/0/1 */
vr64 vs_subst(vr64 t, vr64 var, vr64 value);              /* t with var replaced by value */
vr64 vs_diff(vr64 t, vr64 var);                           /* symbolic derivative d t / d var (real mode) */
void vs_assume_text(const char* smt);                     /* extra assertion (SMT-LIB over declared names) for all later queries */
void vs_prove_eq(vr64 a, vr64 b, const char* label);      /* emit obligation a == b */
void vs_prove_nonneg(vr64 a, const char* label);          /* emit obligation a >= 0 under the declared assumptions */
void vs_prove_nonzero_divisors(const char* label);        /* emit obligations: every symbolic divisor built so far is != 0 */
void vs_note(const char* key, const char* value);         /* goes to the manifest */
void vs_error(const char* msg);                           /* abort this case as unsupported/insufficient */
void vs_open(const char* outdir);                         /* directory receiving q_*.smt2 and manifest.jsonl */
const char* vs_show(vr64 a);                              /* debug print */
#endif
