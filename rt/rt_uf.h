/* R-uf: uninterpreted-function value domain for CBMC (C12).
 * A float is a 64-bit handle.  Small integers and small rationals are exact (so that counts such as
 * ceil(n_alpha / (double)n_threads) stay concrete); every other arithmetic result is the value of an
 * uninterpreted function of its operand handles (functionally consistent: equal operands give equal
 * results, nothing else is known); comparisons of non-exact values are an uninterpreted three-way
 * comparison that is antisymmetric and reflexive by construction and otherwise arbitrary.  Whatever holds
 * for every interpretation holds for IEEE arithmetic on non-NaN data; NaN exists only as the literal constant.
 *   tag (bits 63..60): 0 INT (signed 32-bit payload; handle 0 == +0.0 == zeroed memory), 1 RAT (num:16 den:16),
 *   2 SYM (harness input), 3 OPQ (computed), 4 CON (other literal constant, by bit pattern), 5 NAN */
#define UF_TAG(h)  ((uint64_t)(h) >> 60)
#define UF_PAY(h)  ((uint64_t)(h) & 0x0fffffffffffffffULL)
#define UF_MK(t,p) (((uint64_t)(t) << 60) | ((uint64_t)(p) & 0x0fffffffffffffffULL))
enum { UF_INT = 0, UF_RAT = 1, UF_SYM = 2, UF_OPQ = 3, UF_CON = 4, UF_NANT = 5 };
#define UF_SMALL 4096
#define VR_INSUFFICIENT(msg) do { __CPROVER_assert(0, "abstraction insufficient: " msg); __CPROVER_assume(0); } while (0)
/* Arithmetic results are Herbrand terms: the handle of op(a, b) is a fixed mixing function of (op, a, b), so equal operands
 * give equal results and (up to collisions of a 60-bit hash) different operands give different ones -- the free-term
 * interpretation, which validates exactly the equalities that hold under every interpretation of the operators.  (True
 * uninterpreted functions cost one consistency constraint per pair of applications; the sequentialised code applies them
 * thousands of times and the propositional encoding ran out of memory.)  Only and/xor/rotate: cheap to bit-blast. */
#define UF_ROTL(x, k) (((uint64_t)(x) << (k)) | ((uint64_t)(x) >> (64 - (k))))
#define uf_mix(op, a, b) (UF_ROTL(a, 13) ^ UF_ROTL(b, 29) ^ (UF_ROTL(a, 41) & UF_ROTL(b, 3)) ^ (UF_ROTL(a, 7) | UF_ROTL(b, 53)) ^ ((uint64_t)(op) * 0x9e3779b97f4a7c15ULL))
#define __CPROVER_uninterpreted_uf_add(a, b) uf_mix(1, (a), (b))
#define __CPROVER_uninterpreted_uf_sub(a, b) uf_mix(2, (a), (b))
#define __CPROVER_uninterpreted_uf_mul(a, b) uf_mix(3, (a), (b))
#define __CPROVER_uninterpreted_uf_div(a, b) uf_mix(4, (a), (b))
#define __CPROVER_uninterpreted_uf_rem(a, b) uf_mix(5, (a), (b))
#define __CPROVER_uninterpreted_uf_un(a, b)  uf_mix(6, (a), (b))

static inline vr64 uf_int(int64_t v){ return UF_MK(UF_INT, (uint64_t)(uint32_t)(int32_t)v); }
static inline int uf_is_int(vr64 h){ return UF_TAG(h) == UF_INT; }
static inline int64_t uf_ival(vr64 h){ return (int64_t)(int32_t)(uint32_t)UF_PAY(h); }
static inline int uf_is_exact(vr64 h){ return UF_TAG(h) == UF_INT || UF_TAG(h) == UF_RAT; }
static inline int64_t uf_num(vr64 h){ return UF_TAG(h) == UF_INT ? uf_ival(h) : (int64_t)(int16_t)(uint16_t)(UF_PAY(h) >> 16); }
static inline int64_t uf_den(vr64 h){ return UF_TAG(h) == UF_INT ? 1 : (int64_t)(uint16_t)UF_PAY(h); }
static inline int uf_smallint(int64_t v){ return v > -UF_SMALL && v < UF_SMALL; }

/* literal constants: small integers exactly, NaN, anything else by bit pattern */
static inline vr64 vr_const64(uint64_t b){
  if (b == 0) return 0;
  uint64_t e = (b >> 52) & 0x7ff, m = b & 0xfffffffffffffULL; int neg = (int)(b >> 63);
  if (e == 0x7ff && m != 0) return UF_MK(UF_NANT, 0);
  if (e >= 1023 && e <= 1023 + 11) {
    unsigned sh = (unsigned)(52 - (e - 1023));
    uint64_t full = m | (1ULL << 52);
    if ((full & ((1ULL << sh) - 1)) == 0) { int64_t v = (int64_t)(full >> sh); return uf_int(neg ? -v : v); }
  }
  return UF_MK(UF_CON, b ^ (b >> 60));
}
static inline vr32 vr_const32(uint32_t b){ return b; }

#define UF_BIN(n, exactexpr) static inline vr64 vr_##n##64(vr64 a, vr64 b){ \
    if (uf_is_int(a) && uf_is_int(b)) { int64_t r = exactexpr; if (uf_smallint(r)) return uf_int(r); } \
    return UF_MK(UF_OPQ, __CPROVER_uninterpreted_uf_##n(a, b)); }
/* + - * are always free terms: nothing in the checked code converts a sum or product back to an integer, and keeping them
 * exact for small integers costs two symbolic case splits per operation in every re-executed segment */
static inline vr64 vr_fadd64(vr64 a, vr64 b){ return UF_MK(UF_OPQ, __CPROVER_uninterpreted_uf_add(a, b)); }
/* subtraction stays exact on small integers: the trial step lengths alpha = x / (x - x_F) of the harness data must remain the
 * concrete rationals that make the number of trial steps a constant of the instance */
static inline vr64 vr_fsub64(vr64 a, vr64 b){
  if (uf_is_int(a) && uf_is_int(b)) { int64_t r = uf_ival(a) - uf_ival(b); if (uf_smallint(r)) return uf_int(r); }
  return UF_MK(UF_OPQ, __CPROVER_uninterpreted_uf_sub(a, b)); }
static inline vr64 vr_fmul64(vr64 a, vr64 b){ return UF_MK(UF_OPQ, __CPROVER_uninterpreted_uf_mul(a, b)); }
static inline vr64 vr_fdiv64(vr64 a, vr64 b){
  if (uf_is_int(a) && uf_is_int(b) && uf_ival(b) > 0 && uf_ival(b) < 32768 && uf_ival(a) > -32768 && uf_ival(a) < 32768) {
    if (uf_ival(a) % uf_ival(b) == 0) return uf_int(uf_ival(a) / uf_ival(b));
    return UF_MK(UF_RAT, ((uint64_t)(uint16_t)(int16_t)uf_ival(a) << 16) | (uint64_t)(uint16_t)uf_ival(b));
  }
  return UF_MK(UF_OPQ, __CPROVER_uninterpreted_uf_div(a, b));
}
static inline vr64 vr_frem64(vr64 a, vr64 b){ return UF_MK(UF_OPQ, __CPROVER_uninterpreted_uf_rem(a, b)); }
static inline vr64 vr_fneg64(vr64 a){ if (uf_is_int(a) && a != 0) return uf_int(-uf_ival(a)); return UF_MK(UF_OPQ, __CPROVER_uninterpreted_uf_un(1, a)); }
#define UF_NO32(n) static inline vr32 vr_##n##32(vr32 a, vr32 b){ (void)a; (void)b; VR_INSUFFICIENT("single-precision arithmetic"); return 0; }
UF_NO32(fadd) UF_NO32(fsub) UF_NO32(fmul) UF_NO32(fdiv) UF_NO32(frem)
static inline vr32 vr_fneg32(vr32 a){ (void)a; VR_INSUFFICIENT("single-precision arithmetic"); return 0; }

/* three-way comparison: exact on INT/RAT, otherwise uninterpreted on the ordered handle pair */
/* three-way comparison: exact on INT/RAT, otherwise an uninterpreted function of the ordered handle pair (antisymmetric and
 * reflexive by construction).  An oracle table indexed by a mix of the pair was tried instead (to avoid the quadratic number of
 * consistency constraints): the symbolic index into a 4096-entry array made every instance more than ten times slower. */
int8_t __CPROVER_uninterpreted_uf_cmp(uint64_t, uint64_t);
static inline int uf_cmp3(vr64 a, vr64 b){
  if (a == b) return 0;
  if (uf_is_exact(a) && uf_is_exact(b)) { int64_t l = uf_num(a) * uf_den(b), r = uf_num(b) * uf_den(a); return l < r ? -1 : (l > r ? 1 : 0); }
  int8_t c = a < b ? __CPROVER_uninterpreted_uf_cmp(a, b) : __CPROVER_uninterpreted_uf_cmp(b, a);
  int s = c < 0 ? -1 : (c > 0 ? 1 : 0);
  return a < b ? s : -s;
}
static inline uint8_t vr_fcmp64(int p, vr64 a, vr64 b){
  if (p == VRP_FALSE) return 0;
  if (p == VRP_TRUE) return 1;
  int un = UF_TAG(a) == UF_NANT || UF_TAG(b) == UF_NANT;
  int c = un ? 0 : uf_cmp3(a, b);
  switch (p) {
    case VRP_OEQ: return !un && c == 0; case VRP_OGT: return !un && c > 0; case VRP_OGE: return !un && c >= 0;
    case VRP_OLT: return !un && c < 0; case VRP_OLE: return !un && c <= 0; case VRP_ONE: return !un && c != 0;
    case VRP_ORD: return !un; case VRP_UNO: return un;
    case VRP_UEQ: return un || c == 0; case VRP_UGT: return un || c > 0; case VRP_UGE: return un || c >= 0;
    case VRP_ULT: return un || c < 0; case VRP_ULE: return un || c <= 0; case VRP_UNE: return un || c != 0;
  }
  return 0;
}
static inline uint8_t vr_fcmp32(int p, vr32 a, vr32 b){ (void)p; (void)a; (void)b; VR_INSUFFICIENT("single-precision comparison"); return 0; }
static inline vr64 vr_fpext(vr32 a){ (void)a; VR_INSUFFICIENT("single-precision value"); return 0; }
static inline vr32 vr_fptrunc(vr64 a){ (void)a; VR_INSUFFICIENT("single-precision value"); return 0; }
static inline vr64 vr_sitofp64(int64_t i){ return uf_smallint(i) ? uf_int(i) : UF_MK(UF_CON, (uint64_t)i ^ 0x0123456789abcdefULL); }
static inline vr64 vr_uitofp64(uint64_t i){ return i < UF_SMALL ? uf_int((int64_t)i) : UF_MK(UF_CON, i ^ 0x0123456789abcdefULL); }
static inline vr32 vr_sitofp32(int64_t i){ (void)i; VR_INSUFFICIENT("single-precision value"); return 0; }
static inline vr32 vr_uitofp32(uint64_t i){ (void)i; VR_INSUFFICIENT("single-precision value"); return 0; }
static inline int64_t uf_floor_exact(vr64 a){ int64_t n = uf_num(a), d = uf_den(a); int64_t q = n / d; if (n % d != 0 && n < 0) q--; return q; }
static inline int64_t vr_fptosi64(vr64 a){ if (!uf_is_exact(a)) VR_INSUFFICIENT("float to integer conversion of a computed value"); return uf_num(a) / uf_den(a); }
static inline uint64_t vr_fptoui64(vr64 a){ return (uint64_t)vr_fptosi64(a); }
static inline int64_t vr_fptosi32(vr32 a){ (void)a; VR_INSUFFICIENT("single-precision value"); return 0; }
static inline uint64_t vr_fptoui32(vr32 a){ (void)a; VR_INSUFFICIENT("single-precision value"); return 0; }
static inline uint64_t vr_bits64(vr64 a){ (void)a; VR_INSUFFICIENT("float bit pattern inspected"); return 0; }
static inline uint32_t vr_bits32(vr32 a){ (void)a; VR_INSUFFICIENT("float bit pattern inspected"); return 0; }
static inline vr64 vr_frombits64(uint64_t a){ return vr_const64(a); }
static inline vr32 vr_frombits32(uint32_t a){ return a; }
static inline vr64 vr_floor64(vr64 a){ if (uf_is_exact(a)) return uf_int(uf_floor_exact(a)); return UF_MK(UF_OPQ, __CPROVER_uninterpreted_uf_un(2, a)); }
static inline vr64 vr_ceil64(vr64 a){
  if (uf_is_exact(a)) { int64_t f = uf_floor_exact(a); return uf_int(f * uf_den(a) == uf_num(a) ? f : f + 1); }
  return UF_MK(UF_OPQ, __CPROVER_uninterpreted_uf_un(3, a));
}
static inline vr64 vr_sqrt64(vr64 a){ return UF_MK(UF_OPQ, __CPROVER_uninterpreted_uf_un(4, a)); }
static inline vr64 vr_fabs64(vr64 a){ if (uf_is_int(a)) return uf_int(uf_ival(a) < 0 ? -uf_ival(a) : uf_ival(a)); return UF_MK(UF_OPQ, __CPROVER_uninterpreted_uf_un(5, a)); }
static inline vr32 vr_sqrt32(vr32 a){ (void)a; VR_INSUFFICIENT("single-precision value"); return 0; }
static inline vr32 vr_fabs32(vr32 a){ (void)a; VR_INSUFFICIENT("single-precision value"); return 0; }
static inline int vr_is_exact_zero(vr64 a){ return a == 0; }
