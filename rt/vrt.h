/* vrt.h -- interface between ir2c-generated C and a value-domain runtime.
 * Select the domain with -DVR_IEEE | -DVR_ORD | -DVR_SYM (see rt/). */
#ifndef VRT_H
#define VRT_H
#include <stdint.h>
#include <stddef.h>
#include <string.h>
#include <stdlib.h>
#ifdef __cplusplus
extern "C" {
#endif
typedef uint32_t vr32;
typedef uint64_t vr64;

enum { VRP_FALSE, VRP_OEQ, VRP_OGT, VRP_OGE, VRP_OLT, VRP_OLE, VRP_ONE, VRP_ORD, VRP_UEQ, VRP_UGT, VRP_UGE, VRP_ULT, VRP_ULE, VRP_UNE, VRP_UNO, VRP_TRUE };

/* coroutine mode (ir2c --coroutine): header of every thread-function context; blk_op: 0 not started, 1 mutex_lock, 2 cond_wait, 3 join */
struct vr_coro { int pc, done, blk_op; char* blk_a0; char* blk_a1; };
void vh_access(char* p, uint64_t size, int is_write);

/* exception flag protocol */
extern int exc_pending, exc_type;
extern char* exc_obj;
int ir_eh_match(int thrown, int caught);
const char* ir_typeinfo_name(int id);
/* exceptions thrown by models use these reserved ids */
enum { VR_EXC_LENGTH_ERROR = 1000, VR_EXC_BAD_ALLOC, VR_EXC_OUT_OF_RANGE, VR_EXC_FOREIGN, VR_EXC_LOGIC_ERROR, VR_EXC_RUNTIME_ERROR, VR_EXC_STD_EXCEPTION, VR_EXC_END };
void vr_throw(int id);
int ir_typeinfo_id(char* p);
static inline uint32_t vr_eh_select(int n, const int* ids, int cleanup) {
  for (int i = 0; i < n; i++) if (ir_eh_match(exc_type, ids[i])) return (uint32_t)ids[i] == 0 ? (uint32_t)(0x7fff0000 + i) : (uint32_t)ids[i];
  return cleanup ? 0u : (uint32_t)-1;
}
void* vr_exc_alloc(uint64_t n);
void vr_terminate(void);
void vr_trap(void);
void vr_unreachable(void);
void vr_bad_icall(void);
/* exception objects built by the models carry this vtable: slot 2 (offset 16) is what() */
#define VR_FN_WHAT ((char*)(uintptr_t)0x7e0000000010ULL)
extern char* vr_exc_vtable[4];
char* vr_model_icall_pp(char* fn, char* a0);
uint64_t vr_nondet_u64(void);

#ifdef __CPROVER__
void* alloca(size_t);
#define vr_alloca(n) alloca(n)
#define VR_POISON(p, n) ((void)0)
#elif defined(VR_SYM)
#include <alloca.h>
/* stack memory is poisoned so that a float read from uninitialised storage is an invalid handle */
#define vr_alloca(n) memset(alloca((n) + 1), 0xAB, (n) + 1)
#define VR_POISON(p, n) memset((p), 0xAB, (n))
#else
#include <alloca.h>
#define vr_alloca(n) alloca(n)
#define VR_POISON(p, n) ((void)0)
#endif
/* relational pointer comparison: inside one object by offset (foldable by CBMC's symex), otherwise by address */
#ifdef __CPROVER__
#define VR_PCMP(n, op) static inline int vr_ptr_##n(const char* a, const char* b){ \
  if (__CPROVER_POINTER_OBJECT(a) == __CPROVER_POINTER_OBJECT(b)) return __CPROVER_POINTER_OFFSET(a) op __CPROVER_POINTER_OFFSET(b); \
  return (uintptr_t)a op (uintptr_t)b; }
#else
#define VR_PCMP(n, op) static inline int vr_ptr_##n(const char* a, const char* b){ return (uintptr_t)a op (uintptr_t)b; }
#endif
VR_PCMP(lt, <) VR_PCMP(le, <=) VR_PCMP(gt, >) VR_PCMP(ge, >=)
#ifdef __CPROVER__
/* strlen with a registry of strings whose length the harness knows concretely (keeps allocation sizes concrete) */
uint64_t vr_strlen(const char* s);
int vr_strcmp(const char* a, const char* b);
void vr_register_string(const char* s, uint64_t len);
#else
#define vr_strlen(s) strlen(s)
#define vr_strcmp(a, b) strcmp((a), (b))
#define vr_register_string(s, n) ((void)0)
#endif
#ifdef __CPROVER__
/* typed word-wise copies: keep CBMC's constant propagation alive across std::copy / vector construction */
void* vr_memcpy(void* d, const void* s, uint64_t n);
void* vr_memmove(void* d, const void* s, uint64_t n);
void* vr_memset(void* d, int c, uint64_t n);
#else
#define vr_memcpy(d,s,n) memcpy((d),(s),(n))
#define vr_memmove(d,s,n) memmove((d),(s),(n))
#define vr_memset(d,c,n) memset((d),(c),(n))
#endif

/* typed heap blocks (ir2c --typed-malloc): CBMC derives the type of a dynamic object from a `count * sizeof(T)` size
 * expression at the malloc call itself; vr_malloc_hook / vr_realloc_hook are provided by the model in use */
void* vr_malloc_hook(void* fresh, uint64_t bytes);
void* vr_realloc_hook(void* old, void* fresh, uint64_t bytes);
#ifdef __CPROVER__
#define VR_TYPED_(T, n) ((n) != 0 && (n) % sizeof(T) == 0 ? (malloc)(((n) / sizeof(T)) * sizeof(T)) : (malloc)((n) ? (n) : 1))
#ifdef VR_POOL_ALLOC
/* the model may serve a request from a static pool instead (vr_pool_take() != 0): a block allocated inside code that
 * symex re-executes many times then stays one array with a symbolic index instead of an ever-growing set of objects */
int vr_pool_take(void);
void* vr_pool_alloc(uint64_t bytes);
void* vr_pool_realloc(void* old, uint64_t bytes);
#define VR_MALLOC(T, n) (vr_pool_take() ? vr_pool_alloc(n) : vr_malloc_hook(VR_TYPED_(T, n), (n)))
#define VR_REALLOC(T, p, n) (vr_pool_take() ? vr_pool_realloc((p), (n)) : vr_realloc_hook((p), VR_TYPED_(T, n), (n)))
#else
#define VR_MALLOC(T, n) vr_malloc_hook(VR_TYPED_(T, n), (n))
#define VR_REALLOC(T, p, n) vr_realloc_hook((p), VR_TYPED_(T, n), (n))
#endif
#else
#define VR_MALLOC(T, n) vr_malloc_hook((malloc)((n) ? (n) : 1), (n))
#define VR_REALLOC(T, p, n) vr_realloc_hook((p), (malloc)((n) ? (n) : 1), (n))
#endif

static inline uint32_t vr_ctlz32(uint32_t x){ return x ? (uint32_t)__builtin_clz(x) : 32u; }
static inline uint64_t vr_ctlz64(uint64_t x){ return x ? (uint64_t)__builtin_clzll(x) : 64u; }
static inline uint32_t vr_cttz32(uint32_t x){ return x ? (uint32_t)__builtin_ctz(x) : 32u; }
static inline uint64_t vr_cttz64(uint64_t x){ return x ? (uint64_t)__builtin_ctzll(x) : 64u; }

#if defined(VR_IEEE)
#include "rt_ieee.h"
#elif defined(VR_ORD)
#include "rt_ord.h"
#elif defined(VR_SYM)
#include "rt_sym.h"
#elif defined(VR_UF)
#include "rt_uf.h"
#else
#error "select a value domain: -DVR_IEEE / -DVR_ORD / -DVR_SYM / -DVR_UF"
#endif
#ifdef __cplusplus
}
#endif
#endif
