#!/usr/bin/env python3
"""setup: nothing persistent is built; verify the tools the checks need are present."""
import shutil, sys
missing = [t for t in ['clang++-14', 'clang-14', 'opt-14', 'llvm-link-14', 'cbmc', 'goto-cc', 'z3', 'cvc5', 'g++', 'gcc', 'c++filt'] if not shutil.which(t)]
if missing: print('missing tools:', missing); sys.exit(1)
print('tools ok')
