// prints the libstdc++ object-layout facts the C stream model (models/streams.c) relies on and checks them
// against a live std::ostringstream / std::istringstream, so a different libstdc++ is detected on every run.
#include <sstream>
#include <cstdio>
#include <cstring>
#include <cstdint>
int main(){
  std::ostringstream os; os << "ABC";
  char* o = (char*)&os; char* sb = (char*)os.rdbuf(); char* ios = (char*)static_cast<std::ios*>(&os);
  long sboff = sb - o, iosoff = ios - o;
  // streambuf: vptr, in_beg, in_cur, in_end, out_beg, out_cur, out_end, locale; stringbuf adds mode (int) and _M_string
  char** f = (char**)sb;
  int ok = 1;
  char* strp = *(char**)(sb + 72);
  if (!(f[4] == strp && f[5] == strp + 3 && *(int*)(sb + 64) == (int)std::ios_base::out)) { fprintf(stderr, "unexpected stringbuf layout\n"); ok = 0; }
  os.setstate(std::ios_base::failbit);
  if (*(int*)(ios + 32) != (int)std::ios_base::failbit) { fprintf(stderr, "unexpected ios_base state offset\n"); ok = 0; }
  long vboff = *(long*)(*(char**)o - 24);
  if (vboff != iosoff) { fprintf(stderr, "vbase offset mismatch\n"); ok = 0; }
  std::istringstream is(std::string("12 x"));
  char* i = (char*)&is; long isb = (char*)is.rdbuf() - i, iios = (char*)static_cast<std::ios*>(&is) - i;
  char** g = (char**)((char*)is.rdbuf());
  if (!(g[1] == *(char**)((char*)is.rdbuf() + 72) && g[3] == g[1] + 4 && *(int*)((char*)is.rdbuf() + 64) == (int)std::ios_base::in)) { fprintf(stderr, "unexpected istringstream layout\n"); ok = 0; }
  printf("#define SL_OSS_SIZE %zu\n#define SL_OSS_SB %ld\n#define SL_OSS_IOS %ld\n", sizeof(std::ostringstream), sboff, iosoff);
  printf("#define SL_ISS_SIZE %zu\n#define SL_ISS_SB %ld\n#define SL_ISS_IOS %ld\n#define SL_ISS_GCOUNT 8\n", sizeof(std::istringstream), isb, iios);
  printf("#define SL_SB_INBEG 8\n#define SL_SB_INCUR 16\n#define SL_SB_INEND 24\n#define SL_SB_OUTBEG 32\n#define SL_SB_OUTCUR 40\n#define SL_SB_OUTEND 48\n#define SL_SB_MODE 64\n#define SL_SB_STRING 72\n#define SL_IOS_STATE 32\n");
  printf("#define SL_MODE_IN %d\n#define SL_MODE_OUT %d\n#define SL_FAILBIT %d\n#define SL_BADBIT %d\n#define SL_EOFBIT %d\n", (int)std::ios_base::in, (int)std::ios_base::out, (int)std::ios_base::failbit, (int)std::ios_base::badbit, (int)std::ios_base::eofbit);
  return ok ? 0 : 1;
}
