#!/usr/bin/env python3
"""writes /verif/MANIFEST.json from the table below (kept in one place so the per-check texts stay consistent)"""
import json, os
V = os.path.dirname(os.path.dirname(os.path.abspath(__file__)))
E1 = "bounded symbolic model checking (CBMC/SAT) of C generated from the clang IR of the real functions"
E2 = "symbolic execution of the IR-derived code over exact-real / uninterpreted-float terms; obligations decided by z3 (cvc5 cross-check)"
TB = "Trusted: clang-14 IR as the source semantics (generated C is validated bit-for-bit against the g++ build of the same functions on every run), tools/ir2c.py, the value-domain runtime, the solver."
checks = {
 'C01': dict(engine='E2', tech=E2, text="For every listed table configuration and every region (each open knot interval, each knot) the term the real evaluation code builds for symbolic coordinates/coefficients/padding is proved equal (z3, QF_NRA) to an independent Cox-de Boor tensor sum; partition of unity on supported regions.",
             note="Floats are exact reals (rounding magnitude outside). Knots are concrete rational families (uniform/irregular/repeated); 1-D orders 0..5 x nknots min..min+3 all regions, 2..4-D and 9-D seeded region coverings. " + TB),
 'C02': dict(engine='E2', tech=E2 + "; oracle = symbolic derivative of the C01 oracle term", text="Bitmask derivatives, every gradient lane and arbitrary-order derivatives are proved equal to the exact symbolic partial derivative of the Cox-de Boor sum, region by region, including knots with the one-sided convention.",
             note="Same bounds as C01; derivative orders 0..order+1; masks all subsets up to 3-D; gradients up to 7-D. One known finding (derivative order >= 2 exactly on a knot at/above the support end) is listed in known_findings.json. " + TB),
 'C03': dict(engine='E2', tech="symbolic execution with every float operation an uninterpreted function (QF_UF): two paths must build the identical term", text="Member functions, evaluator object (every dispatchable core through the real member-function pointers), call operators and the C wrappers are executed on the same symbolic table/point; term identity over uninterpreted float operations implies bit-identical results under any deterministic float semantics. Both template configurations.",
             note="Order patterns per the property (D<=6 quick, <=9 thorough), boundary classes of centers by seeded covering. Term identity is sufficient, not necessary: a difference is reported only if a bit difference reproduces on the real build. Sound rewrites used: fadd/fmul commutative, x-(+0)=x, 1*x=x. " + TB),
 'C04': dict(engine='E1', tech=E1 + ", order-key abstraction (complete for comparison-only kernels)", text="CBMC decides the full lookup specification (accepts exactly (first,last]; center range; bracketing; margins; call operators return 0 iff lookup fails) for every order type of knots and coordinate per concrete (order,nknots); unwinding assertions give termination.",
             note="Orders 0..5, nknots min..min+3 (quick)/+8, ndim 1..2. Non-NaN coordinates. " + TB),
 'C14': dict(engine='E2', tech=E2 + "; oracle = exact rational piecewise-polynomial convolution", text="convolve is executed symbolically (all coefficients symbolic); for every coefficient slice and every open interval of the new knot vector z3 proves that the convolved spline equals the exact polynomial of the true convolution with the unit-area kernel (own rational oracle); order, knot vector (sorted pairwise sums), untouched dimensions, block sizes and allocator balance are obligations too.",
             note="Orders 0..3 x kernels of 2..4 knots (quick), 0..5 x 2..6 (thorough), 1..3/4-D, every dimension index; concrete rational knots/kernels. Rounding of stored float coefficients and the extents heuristics are outside. " + TB),
 'C15': dict(engine='E2', tech="symbolic execution over uninterpreted payloads (QF_UF), one obligation per relocated item, exhaustive over permutations", text="The IR-derived permuteDimensions runs on tables whose every float payload is a distinct uninterpreted variable; for every permutation (all up to 4-D, sampled/all at 5-6-D) and every malformed argument shape, z3 decides one obligation per attribute, per coefficient index and for the inverse; the operator new/delete ledger shows temporaries are released.",
             note="Copying code is data-independent, so distinct payloads stand for all values; integer attributes are distinct concrete values. Value equality at the permuted point follows from the coefficient bijection and C01. " + TB),
 'C05': dict(engine='E1', tech=E1 + ", order keys incl. NaN", text="Every load/store of every evaluation entry point (member, evaluator, gradient, derivative, call operators) is checked against exactly sized table blocks for arbitrary coordinate keys including NaN and +-inf; library assert()s unreachable; loops/recursion bounded; 8-D/9-D gradients refused by exception with nothing written.",
             note="ndim 1..3 (+8/9-D gradient refusal) quick, up to 9-D thorough. bspline_deriv is replaced by its memory contract in the derivative groups and the contract is proved on the real function by separate instances. Pointer arithmetic that is never dereferenced is not checked (compiler-hoisted). " + TB),
}
out = {"version": 1, "setup_cmd": "python3 tools/selftest.py",
 "hooks": {"guard": "PHOTOSPLINE_VERIF", "enable": "no hooks are compiled into /repo: checks reach private state through '#define private public' in /verif/wrap/*.cpp and link-time models", "baseline_off_cmd": "bash tools/baseline_off.sh", "source_commits": [], "add_only": True},
 "engines": [{"name": "E1", "path": "tools/ir2c.py rt/rt_ord.h lib/common.py", "serves_properties": [k for k, v in checks.items() if v['engine'] == 'E1'], "kind_free_text": E1},
             {"name": "E2", "path": "tools/ir2c.py rt/rt_sym.cpp lib/e2.py", "serves_properties": [k for k, v in checks.items() if v['engine'] == 'E2'], "kind_free_text": E2}],
 "checks": [], "not_applicable": [], "notes": "known_findings.json lists genuine defects (fixed by 'fix:' commits in /repo or recorded). DESIGN.md describes engines, bounds and what is outside each claim."}
for pid in sorted(checks):
    c = checks[pid]
    out['checks'].append({"property_id": pid, "quick_cmd": "python3 check.py %s --tier quick" % pid, "thorough_cmd": "python3 check.py %s --tier thorough" % pid,
        "evidence_file": "evidence/%s.json" % pid, "replay_cmd_template": "python3 check.py %s --replay {path}" % pid, "engine": c['engine'],
        "level_claimed": {"category": "model_checking", "text": c['text'], "design_ref": "DESIGN.md section 3 " + pid}, "level_note": c['note'], "technique": c['tech']})
pending = json.load(open(os.path.join(V, 'tools/pending_na.json')))
for pid, reason in sorted(pending.items()):
    if pid not in checks: out['not_applicable'].append({"property_id": pid, "reason": reason})
json.dump(out, open(os.path.join(V, 'MANIFEST.json'), 'w'), indent=1)
print('MANIFEST.json:', len(out['checks']), 'checks,', len(out['not_applicable']), 'not applicable')
