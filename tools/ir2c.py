#!/usr/bin/env python3
"""ir2c: LLVM-14 IR (clang -O1, scalarized) -> plain C in "handle mode".

Every float/double VALUE is an opaque same-size integer handle (vr32/vr64) and every FP
operation is a call into a value-domain runtime (vr_*), see /verif/rt/vrt.h.  Integer code,
memory layout, control flow and calls are translated one-to-one.  C++ exceptions use a flag
protocol (exc_pending).  Own code, regenerated from /repo's IR on every run.

usage: ir2c.py in.ll -o out.c --roots f,g [--cut h,i] [--alias REGEX=name ...]
               [--coroutine f,g] [--hook-access f,g] [--nsw-signed] [--map out.map]
"""
import os, sys, re, struct, argparse, subprocess, hashlib, json
sys.path.insert(0, __import__('os').path.dirname(__file__))
from irparse import *

LIBC_PASSTHRU = {'malloc', 'calloc', 'realloc', 'free', 'strncmp', 'memcmp', 'memcpy', 'memmove', 'memset', 'abs', 'strcpy', 'strncpy',
                 'strchr', 'memchr'}
INTRIN_DROP = ('llvm.lifetime.', 'llvm.dbg.', 'llvm.stackrestore', 'llvm.assume', 'llvm.prefetch',
               'llvm.experimental.noalias.scope.decl', 'llvm.donothing', 'llvm.var.annotation', 'llvm.invariant.')
NOTHROW_EXT = {'__cxa_begin_catch', '__cxa_end_catch', '__cxa_allocate_exception', '__cxa_free_exception',
               '__cxa_atexit', 'free', 'malloc', 'calloc', 'realloc', '_ZdlPv', '_ZdaPv', '_ZdlPvm', 'printf', 'puts', 'putchar', 'fprintf',
               'snprintf', 'sprintf', 'fputc', 'fwrite', 'fputs', 'fflush', 'getenv', 'sysconf', 'clock', 'qsort',
               '__assert_fail', 'abort', 'exit', 'sqrt', 'ceil', 'floor', 'fabs', 'pow', 'exp', 'log'} | LIBC_PASSTHRU

# std exception hierarchy (typeinfo name -> bases), used by the landing pad selector
STD_BASES = {
    '_ZTISt9exception': [],
    '_ZTISt9bad_alloc': ['_ZTISt9exception'],
    '_ZTISt20bad_array_new_length': ['_ZTISt9bad_alloc'],
    '_ZTISt11logic_error': ['_ZTISt9exception'],
    '_ZTISt13runtime_error': ['_ZTISt9exception'],
    '_ZTISt12out_of_range': ['_ZTISt11logic_error'],
    '_ZTISt16invalid_argument': ['_ZTISt11logic_error'],
    '_ZTISt12length_error': ['_ZTISt11logic_error'],
    '_ZTISt12domain_error': ['_ZTISt11logic_error'],
    '_ZTISt11range_error': ['_ZTISt13runtime_error'],
    '_ZTISt14overflow_error': ['_ZTISt13runtime_error'],
    '_ZTISt15underflow_error': ['_ZTISt13runtime_error'],
    '_ZTISt8bad_cast': ['_ZTISt9exception'],
    '_ZTINSt8ios_base7failureB5cxx11E': ['_ZTISt13runtime_error'],
}

def san(name):
    s = re.sub(r'[^A-Za-z0-9_]', '_', name)
    if s != name:
        s += '_' + hashlib.md5(name.encode()).hexdigest()[:6]
    return s

class Layout:
    def __init__(s, mod): s.mod = mod; s.cache = {}
    def resolve(s, t):
        while t.k == 'named':
            t = s.mod.types[t.name]
        return t
    def size_align(s, t):
        k = t.key()
        if k in s.cache: return s.cache[k]
        r = s._sa(t); s.cache[k] = r; return r
    def _sa(s, t):
        t = s.resolve(t)
        if t.k == 'int':
            n = t.n
            if n <= 8: return (1, 1)
            if n <= 16: return (2, 2)
            if n <= 32: return (4, 4)
            if n <= 64: return (8, 8)
            return (16, 16)
        if t.k == 'float': return (4, 4)
        if t.k == 'double': return (8, 8)
        if t.k == 'x86_fp80': return (16, 16)
        if t.k == 'ptr': return (8, 8)
        if t.k == 'array':
            sz, al = s.size_align(t.el); return (sz * t.n, al)
        if t.k == 'vector':
            sz, al = s.size_align(t.el); tot = sz * t.n
            a = 1
            while a < tot: a *= 2
            return (tot, a)
        if t.k == 'struct':
            off = 0; mal = 1
            for f in t.fields:
                sz, al = s.size_align(f)
                if t.packed: al = 1
                off = (off + al - 1) // al * al + sz; mal = max(mal, al)
            off = (off + mal - 1) // mal * mal
            return (off, mal)
        if t.k == 'opaque': return (1, 1)
        if t.k == 'func': return (1, 1)
        raise ValueError('size of %r' % t)
    def size(s, t): return s.size_align(t)[0]
    def field_offset(s, t, i):
        t = s.resolve(t); off = 0
        for j, f in enumerate(t.fields):
            sz, al = s.size_align(f)
            if t.packed: al = 1
            off = (off + al - 1) // al * al
            if j == i: return off
            off += sz
        raise IndexError

def fbits64(lit):
    if lit.startswith('0x'):
        h = lit[2:]
        if h[0] in 'KLMHR': raise ValueError('long double constant')
        return int(h, 16)
    return struct.unpack('<Q', struct.pack('<d', float(lit)))[0]
def fbits32(lit):
    d = struct.unpack('<d', struct.pack('<Q', fbits64(lit)))[0]
    return struct.unpack('<I', struct.pack('<f', d))[0]

class Emitter:
    def __init__(s, mod, args):
        s.mod = mod; s.L = Layout(mod); s.args = args
        s.aggs = {}        # key -> (cname, Ty)
        s.agg_order = []
        s.out = []
        s.names = {}       # IR global symbol -> C name
        s.typeinfos = []   # typeinfo global names, index+1 = id
        s.unmodelled = set()
        s.coroutine = set(args.coroutine); s.hook = set(args.hook_access)
        s.fp_slots = []    # (lvalue, bits, width) of float constants inside global data
        s.coro_structs = []; s.coro_protos = []
        s.fnids = {}       # address-taken function -> fake address
        s.icalls = {}      # signature key -> (name, ret ctype, [param ctypes], vararg)

    def fnid(s, n):
        if n not in s.fnids: s.fnids[n] = 0x7f0000000000 + 16 * (len(s.fnids) + 1)
        return s.fnids[n]
    def icall(s, rct, pcts, va):
        key = (rct, tuple(pcts), va)
        if key not in s.icalls: s.icalls[key] = 'ir_icall_%d' % len(s.icalls)
        return s.icalls[key]
    def sig_of(s, n):
        if n in s.mod.funcs:
            f = s.mod.funcs[n]; return (s.ctype(f.ret), tuple(s.ctype(t) for t, _ in f.params), f.vararg)
        rt, ps, va, _ = s.mod.decls[n]
        return (s.ctype(rt), tuple(s.ctype(t) for t in ps), va)
    def emit_icalls(s):
        protos = []; bodies = []
        for (rct, pcts, va), name in s.icalls.items():
            ps = ', '.join('%s a%d' % (t, i) for i, t in enumerate(pcts))
            proto = '%s %s(char* fn%s)' % (rct, name, (', ' + ps) if ps else '')
            protos.append(proto + ';\n')
            b = [proto + ' {\n  switch ((uintptr_t)fn) {\n']
            for fn_, fid in s.fnids.items():
                if s.sig_of(fn_) == (rct, pcts, va) and not va:
                    call = '%s(%s)' % (s.gname(fn_), ', '.join('a%d' % i for i in range(len(pcts))))
                    b.append('    case 0x%xULL: %s\n' % (fid, ('return %s;' % call) if rct != 'void' else (call + '; return;')))
            dummy = 'return;' if rct == 'void' else ('return (%s){0};' % rct if rct.startswith('struct') else 'return (%s)0;' % rct)
            if rct == 'char*' and tuple(pcts) == ('char*',) and not va:
                # virtual calls on objects built by the models (std::exception::what()): see rt_common.c
                b.append('    default: return vr_model_icall_pp(fn, a0);\n  }\n}\n')
            else:
                b.append('    default: vr_bad_icall(); %s\n  }\n}\n' % dummy)
            bodies.append(''.join(b))
        return ''.join(protos), ''.join(bodies)

    # ---------- naming
    def gname(s, n):
        if n in s.names: return s.names[n]
        if n in LIBC_PASSTHRU and n not in s.mod.funcs: c = n
        else: c = 'ir_' + san(n)
        s.names[n] = c; return c

    # ---------- C types
    def ctype(s, t):
        """C type of an SSA value"""
        t0 = t; t = s.L.resolve(t)
        if t.k == 'int':
            if t.n <= 8: return 'uint8_t'
            if t.n <= 16: return 'uint16_t'
            if t.n <= 32: return 'uint32_t'
            if t.n <= 64: return 'uint64_t'
            return 'unsigned __int128'
        if t.k == 'float': return 'vr32'
        if t.k == 'double': return 'vr64'
        if t.k == 'ptr': return 'char*'
        if t.k == 'void': return 'void'
        if t.k in ('struct', 'array'): return s.aggtype(t)
        if t.k == 'x86_fp80': return 'vr80'
        raise ValueError('ctype %r' % t)
    def aggtype(s, t):
        t = s.L.resolve(t)
        k = t.key()
        if k not in s.aggs:
            cname = 'struct agg%d' % len(s.aggs)
            s.aggs[k] = (cname, t)   # reserve
            if t.k == 'struct':
                for f in t.fields:
                    if s.L.resolve(f).k in ('struct', 'array'): s.aggtype(f)
            else:
                if s.L.resolve(t.el).k in ('struct', 'array'): s.aggtype(t.el)
            s.agg_order.append(k)
        return s.aggs[k][0]
    def emit_aggs(s):
        o = []
        for k in s.agg_order:
            cname, t = s.aggs[k]
            if t.k == 'struct':
                body = ''.join('  %s f%d;\n' % (s.ctype(f), i) for i, f in enumerate(t.fields))
                if not t.fields: body = '  char _empty;\n'
                o.append('%s {\n%s}%s;\n' % (cname, body, ' __attribute__((packed))' if t.packed else ''))
                if t.fields:
                    o.append('_Static_assert(sizeof(%s)==%d, "layout %s");\n' % (cname, s.L.size(t), cname))
            else:
                o.append('%s { %s a[%d]; };\n' % (cname, s.ctype(t.el), max(t.n, 1)))
        return ''.join(o)

    # ---------- constants / values
    def mask(s, t):
        t = s.L.resolve(t)
        if t.k == 'int' and t.n not in (8, 16, 32, 64, 128): return (1 << t.n) - 1
        return None
    def intlit(s, v, t):
        t = s.L.resolve(t); n = t.n
        v &= (1 << n) - 1
        if n <= 32: return '((%s)%dU)' % (s.ctype(t), v)
        if n <= 64: return '((uint64_t)%dULL)' % v
        hi = v >> 64; lo = v & ((1 << 64) - 1)
        return '((((unsigned __int128)%dULL)<<64)|%dULL)' % (hi, lo)
    def val(s, v, fn=None):
        """C expression for a Val"""
        k, x, t = v
        if k == 'local': return fn.lname(x)
        if k == 'global':
            if x in s.mod.aliases: return s.val(s.mod.aliases[x], fn)
            s.ref_global(x)
            if x in s.mod.funcs or x in s.mod.decls:
                return '((char*)(uintptr_t)0x%xULL)' % s.fnid(x)
            return '((char*)&%s)' % s.gname(x)
        rt = s.L.resolve(t)
        if k == 'int':
            if rt.k == 'ptr': return '((char*)%dULL)' % x
            return s.intlit(x, rt)
        if k == 'fp':
            if rt.k == 'double': return 'vr_const64(0x%016xULL)' % fbits64(x)
            if rt.k == 'float': return 'vr_const32(0x%08xU)' % fbits32(x)
            raise ValueError('fp const type %r' % rt)
        if k == 'null': return '((char*)0)'
        if k in ('undef', 'zero'):
            if rt.k in ('struct', 'array'): return '((%s){0})' % s.ctype(rt)
            if rt.k == 'ptr': return '((char*)0)'
            if rt.k == 'double': return 'vr_const64(0ULL)'
            if rt.k == 'float': return 'vr_const32(0U)'
            return s.intlit(0, rt)
        if k == 'ccast':
            op, a, t2 = x
            e = s.val(a, fn); at = s.L.resolve(a[2]); t2 = s.L.resolve(t2)
            if op in ('bitcast', 'addrspacecast'):
                if at.k == 'ptr' and t2.k == 'ptr': return e
                raise ValueError('const bitcast non-pointer')
            if op == 'ptrtoint': return '((%s)(uintptr_t)%s)' % (s.ctype(t2), e)
            if op == 'inttoptr': return '((char*)(uintptr_t)%s)' % e
            if op == 'trunc' or op == 'zext': return '((%s)%s)' % (s.ctype(t2), e)
            if op == 'sext': return s.sext_expr(e, at, t2)
        if k == 'cgep':
            bt, ops = x
            base = s.val(ops[0], fn)
            off = s.gep_offset(bt, ops[1:], fn)
            return '(%s + %s)' % (base, off)
        if k == 'cbin':
            op, a, b = x
            cop = {'add': '+', 'sub': '-', 'mul': '*', 'and': '&', 'or': '|', 'xor': '^', 'shl': '<<', 'lshr': '>>'}[op]
            return '((%s)(%s %s %s))' % (s.ctype(t), s.val(a, fn), cop, s.val(b, fn))
        if k == 'cicmp':
            pred, a, b = x
            return s.icmp_expr(pred, a, b, fn)
        if k == 'cselect':
            c, a, b = x
            return '(%s ? %s : %s)' % (s.val(c, fn), s.val(a, fn), s.val(b, fn))
        if k == 'agg':
            return '((%s)%s)' % (s.ctype(rt), s.agg_init(v, fn))
        raise ValueError('val %r' % (v,))
    def agg_init(s, v, fn=None):
        k, x, t = v; rt = s.L.resolve(t)
        if k == 'agg':
            if rt.k == 'struct': return '{' + ', '.join(s.init_expr(e, fn) for e in x) + '}'
            return '{{' + ', '.join(s.init_expr(e, fn) for e in x) + '}}'
        if k in ('zero', 'undef'): return '{0}'
        raise ValueError('agg_init %r' % (v,))
    def init_expr(s, v, fn=None):
        rt = s.L.resolve(v[2])
        if rt.k in ('struct', 'array'):
            if v[0] == 'cstr':
                return '{{' + ','.join(str(b) for b in s.cstr_bytes(v[1])) + '}}'
            return s.agg_init(v, fn)
        return s.val(v, fn)
    def cstr_bytes(s, lit):
        body = lit[2:-1]; out = []; i = 0
        while i < len(body):
            if body[i] == '\\':
                out.append(int(body[i + 1:i + 3], 16)); i += 3
            else:
                out.append(ord(body[i])); i += 1
        return out
    def sext_expr(s, e, ft, tt):
        fn_ = ft.n; tn = tt.n
        st = {8: 'int8_t', 16: 'int16_t', 32: 'int32_t', 64: 'int64_t', 128: '__int128'}
        if fn_ in st:
            r = '((%s)(%s)(%s)%s)' % (s.ctype(tt), st.get(tn if tn in st else 64, 'int64_t'), st[fn_], e)
        else:
            # odd width: shift up in 64 bits and arithmetic shift down
            r = '((%s)(((int64_t)((uint64_t)%s << %d)) >> %d))' % (s.ctype(tt), e, 64 - fn_, 64 - fn_)
        m = s.mask(tt)
        return '(%s & %s)' % (r, s.intlit(m, tt)) if m else r
    def sgn(s, e, t):
        """expression e of int type t reinterpreted as signed C value"""
        t = s.L.resolve(t)
        st = {8: 'int8_t', 16: 'int16_t', 32: 'int32_t', 64: 'int64_t', 128: '__int128'}
        if t.n in st: return '((%s)%s)' % (st[t.n], e)
        return '(((int64_t)((uint64_t)%s << %d)) >> %d)' % (e, 64 - t.n, 64 - t.n)
    def icmp_expr(s, pred, a, b, fn):
        ea = s.val(a, fn); eb = s.val(b, fn); t = s.L.resolve(a[2])
        if t.k == 'ptr':
            if pred in ('eq', 'ne'):
                return '((uint8_t)(%s %s %s))' % (ea, '==' if pred == 'eq' else '!=', eb)
            # relational pointer comparisons stay pointer comparisons (real code only compares within one array;
            # CBMC folds same-object comparisons to offset comparisons, casts to integers would make them symbolic)
            cop = {'ugt': 'gt', 'uge': 'ge', 'ult': 'lt', 'ule': 'le', 'sgt': 'gt', 'sge': 'ge', 'slt': 'lt', 'sle': 'le'}[pred]
            return '((uint8_t)vr_ptr_%s(%s, %s))' % (cop, ea, eb)
        if pred in ('eq', 'ne'): return '((uint8_t)(%s %s %s))' % (ea, '==' if pred == 'eq' else '!=', eb)
        if pred[0] == 's':
            ea = s.sgn(ea, t); eb = s.sgn(eb, t)
        cop = {'gt': '>', 'ge': '>=', 'lt': '<', 'le': '<='}[pred[1:]]
        return '((uint8_t)(%s %s %s))' % (ea, cop, eb)
    def gep_offset(s, bt, idx, fn):
        """byte offset expression (int64) for GEP indices over base type bt; idx[0] scales bt itself"""
        terms = []; const = 0
        cur = bt
        for n, iv in enumerate(idx):
            if n == 0:
                esz = s.L.size(cur)
            else:
                curr = s.L.resolve(cur)
                if curr.k == 'struct':
                    assert iv[0] == 'int', 'struct gep index must be constant'
                    const += s.L.field_offset(curr, iv[1]); cur = curr.fields[iv[1]]; continue
                elif curr.k in ('array', 'vector'):
                    cur = curr.el; esz = s.L.size(cur)
                else: raise ValueError('gep into %r' % curr)
            if iv[0] == 'int':
                v = iv[1]; bits = s.L.resolve(iv[2]).n
                if v >= 1 << (bits - 1): v -= 1 << bits
                const += v * esz
            else:
                e = s.sgn(s.val(iv, fn), iv[2])
                terms.append('(int64_t)%s*%d' % (e, esz) if esz != 1 else '(int64_t)%s' % e)
        if const or not terms: terms.append('(int64_t)%d' % const)
        return '(' + ' + '.join(terms) + ')'
    def gep_result_type(s, bt, idx):
        cur = bt
        for n, iv in enumerate(idx):
            if n == 0: continue
            curr = s.L.resolve(cur)
            if curr.k == 'struct': cur = curr.fields[iv[1]]
            else: cur = curr.el
        return PTR(cur)

    # ---------- memory types for globals
    def memtype_decl(s, t, name):
        """C declarator for a memory object of IR type t"""
        rt = s.L.resolve(t)
        if rt.k == 'array':
            inner = s.memtype_decl(rt.el, '%s[%d]' % (name, max(rt.n, 0)))
            return inner
        if rt.k == 'struct': return '%s %s' % (s.aggtype(rt), name)
        if rt.k == 'vector':
            return s.memtype_decl(Ty('array', rt.n, rt.el), name)
        if rt.k == 'opaque': return 'char %s[64]' % name
        return '%s %s' % (s.ctype(rt), name)
    def mem_init(s, v, lv=None):
        """initializer for memory object (arrays as plain brace lists); lv = C lvalue of this element (to record FP slots)"""
        k, x, t = v; rt = s.L.resolve(t)
        if rt.k in ('array', 'vector'):
            if k == 'cstr': return '{' + ','.join(str(b) for b in s.cstr_bytes(x)) + '}'
            if k in ('zero', 'undef'): return '{0}'
            return '{' + ', '.join(s.mem_init(e, None if lv is None else '%s[%d]' % (lv, i)) for i, e in enumerate(x)) + '}'
        if rt.k == 'struct':
            if k in ('zero', 'undef'): return '{0}'
            return '{' + ', '.join(s.mem_init_field(e, None if lv is None else '%s.f%d' % (lv, i)) for i, e in enumerate(x)) + '}'
        if rt.k in ('double', 'float'):
            if k != 'fp': return '0'
            bits = fbits64(x) if rt.k == 'double' else fbits32(x)
            if lv is not None and bits != 0: s.fp_slots.append((lv, bits, 64 if rt.k == 'double' else 32))
            return ('0x%016xULL' if rt.k == 'double' else '0x%08xU') % bits
        return s.val(v)
    def mem_init_field(s, v, lv=None):
        rt = s.L.resolve(v[2])
        if rt.k == 'array':
            return '{' + s.mem_init(v, None if lv is None else lv + '.a') + '}'   # struct agg wraps array in member a
        return s.mem_init(v, lv)

    def ref_global(s, n):
        if n not in s.refd:
            s.refd.add(n); s.work.append(n)

    # ---------- driver
    def run(s):
        s.refd = set(); s.work = []
        cut = set(s.args.cut)
        for r in s.args.roots: s.ref_global(r)
        bodies = []; gdefs = []; protos = []
        done = set()
        while s.work:
            n = s.work.pop()
            if n in done: continue
            done.add(n)
            if n in s.mod.aliases: continue
            if n in s.mod.funcs and n not in cut:
                f = s.mod.funcs[n]
                fe = FuncEmit(s, f)
                bodies.append(fe.emit()); protos.append(fe.proto() + ';')
            elif n in s.mod.funcs or n in s.mod.decls:
                if n in s.mod.funcs:
                    f = s.mod.funcs[n]; rt, ps, va = f.ret, [t for t, _ in f.params], f.vararg
                else:
                    rt, ps, va, _ = s.mod.decls[n]
                if s.gname(n) in LIBC_PASSTHRU: continue
                if n.startswith('llvm.'): continue
                pl = ', '.join(s.ctype(t) for t in ps)
                if va: pl += ', ...' if pl else '...'
                protos.append('%s %s(%s); /* external: %s */' % (s.ctype(rt), s.gname(n), pl or 'void', n))
                s.unmodelled.add(n)
            elif n in s.mod.globals:
                g = s.mod.globals[n]
                if n.startswith('_ZTI') or n.startswith('_ZTS') or n.startswith('_ZTV'):
                    if n.startswith('_ZTI') and n not in s.typeinfos: s.typeinfos.append(n)
                    gdefs.append((n, 'char %s[64]; /* opaque %s */' % (s.gname(n), n), None)); continue
                if g['external'] or g['init'] is None:
                    gdefs.append((n, 'extern ' + s.memtype_decl(g['ty'], s.gname(n)) + ';', None)); continue
                decl = s.memtype_decl(g['ty'], s.gname(n))
                init = s.mem_init(g['init'], s.gname(n))
                if s.L.resolve(g['ty']).k == 'struct' and g['init'][0] not in ('zero', 'undef'):
                    pass
                gdefs.append((n, decl, init))
            else:
                raise KeyError('unknown symbol ' + n)
        o = ['/* generated by ir2c.py -- do not edit */\n#include "vrt.h"\n' + ''.join(x + '\n' for x in s.args.prologue)]
        s.aggs_text = s.emit_aggs()
        o.append('/*AGGS*/\n')
        for n, d, i in gdefs:
            if d.startswith('extern') or i is None: o.append(d if d.endswith(';') or d.endswith('*/') else d + ';')
            else: o.append('extern ' + d + ';')
            o.append('\n')
        o.append('\n'.join(protos)); o.append('\n')
        # typeinfo table
        o.append('static const char* const ir_typeinfo_names[] = {"", %s};\n' % ', '.join(['"%s"' % t for t in s.typeinfos] + ['""']))
        for n, d, i in gdefs:
            if i is not None: o.append('%s = %s;\n' % (d, i))
        ids = {t: i + 1 for i, t in enumerate(s.typeinfos)}
        o.append('const char* ir_typeinfo_name(int id) { return (id >= 1 && id <= %d) ? ir_typeinfo_names[id] : ""; }\n' % len(s.typeinfos))
        o.append('int ir_typeinfo_id(char* p) {\n')
        for t, i in ids.items(): o.append('  if (p == (char*)&%s) return %d;\n' % (s.gname(t), i))
        o.append('  return -1;\n}\n')
        # float constants stored in global data are handles too: (re)materialised by the runtime after every reset
        o.append('void ir_fp_globals_init(void) {\n' + ''.join('  %s = vr_const%d(0x%xULL);\n' % (lv, w, b) for lv, b, w in s.fp_slots) + '}\n')
        ip, ib = s.emit_icalls()
        o.append(ip)
        o.extend(bodies)
        o.append(ib)
        return ''.join(o)

class FuncEmit:
    def __init__(s, E, f):
        s.E = E; s.f = f; s.locals = {}; s.code = []; s.tmpn = 0; s.nyield = 0; s.coro_mem = []
        s.coro = f.name in E.coroutine; s.hook = f.name in E.hook
        s.types = {}   # local name -> Ty
        for t, n in f.params: s.types[n] = t
        for lab, ins in f.blocks:
            for I in ins:
                if I.res is not None:
                    if I.op == 'getelementptr': I.ty = E.gep_result_type(I.a[0], I.a[2])
                    elif I.op == 'extractvalue':
                        t = E.L.resolve(I.a[0][2])
                        for ix in I.a[1]:
                            t = E.L.resolve(t.fields[ix] if t.k == 'struct' else t.el)
                        I.ty = t
                    s.types[I.res] = I.ty
    def lname(s, n):
        return ('C->v_' if s.coro and n in s.ctxvals else 'v_') + san(n)
    def ctxname(s): return 'struct %s_ctx' % s.E.gname(s.f.name)
    def lab(s, n): return 'L_' + san(n)
    def proto(s):
        E = s.E; f = s.f
        if s.coro: return 'void %s__step(%s* C)' % (E.gname(f.name), s.ctxname())
        ps = ', '.join('%s %s' % (E.ctype(t), s.lname(n)) for t, n in f.params)
        if f.vararg: ps += ', ...'
        return '%s %s(%s)' % (E.ctype(f.ret), E.gname(f.name), ps or 'void')
    def retdummy(s):
        if s.coro: return '{ C->h.done = 1; return; }'
        rt = s.E.L.resolve(s.f.ret)
        if rt.k == 'void': return 'return;'
        if rt.k in ('struct', 'array'): return 'return (%s){0};' % s.E.ctype(rt)
        return 'return (%s)0;' % s.E.ctype(rt)
    def w(s, line): s.code.append('  ' + line + '\n')
    def v(s, val): return s.E.val(val, s)
    def tmp(s): s.tmpn += 1; return 't_%d' % s.tmpn

    def edge(s, frm, to):
        """code for phi copies along edge frm->to followed by goto"""
        blk = s.blockmap[to]
        phis = [I for I in blk if I.op == 'phi']
        if not phis: return 'goto %s;' % s.lab(to)
        assigns = []
        phinames = {I.res for I in phis}
        for I in phis:
            src = None
            for v_, lb in I.a:
                if lb == frm: src = v_; break
            if src is None: raise ValueError('phi %s has no incoming for %s' % (I.res, frm))
            assigns.append((I, src))
        needtmp = any(src[0] == 'local' and src[1] in phinames and src[1] != I.res for I, src in assigns)
        parts = []
        if needtmp:
            for n, (I, src) in enumerate(assigns):
                parts.append('%s pt%d = %s;' % (s.E.ctype(I.ty), n, s.v(src)))
            for n, (I, src) in enumerate(assigns):
                parts.append('%s = pt%d;' % (s.lname(I.res), n))
        else:
            for I, src in assigns:
                if src[0] == 'undef': continue
                parts.append('%s = %s;' % (s.lname(I.res), s.v(src)))
        return '{ ' + ' '.join(parts) + ' goto %s; }' % s.lab(to)

    # ---- typed lowering of constant-size memcpy / memset (--typed-mem): word-wise copies through uint64_t turn the
    # pointers stored in a typed heap object into integers, which CBMC cannot follow; per-field copies keep them pointers
    def leaves(s, t, base, out):
        L = s.E.L; t = L.resolve(t)
        if t.k == 'struct':
            for i, f in enumerate(t.fields): s.leaves(f, base + L.field_offset(t, i), out)
        elif t.k in ('array', 'vector'):
            sz = L.size(t.el)
            for i in range(t.n): s.leaves(t.el, base + i * sz, out)
        elif t.k in ('int', 'float', 'double', 'ptr'): out.append((base, t))
        else: raise ValueError('leaf ' + t.k)
    def points_into(s, v, depth=0):
        """(element type, byte offset inside one element) of what pointer value v addresses, or None"""
        L = s.E.L
        if v[0] != 'local' or depth > 6: return None
        if not hasattr(s, 'defs'): s.defs = {J.res: J for lab, ins in s.f.blocks for J in ins if J.res is not None}
        J = s.defs.get(v[1])
        pt = L.resolve(v[2])
        here = (L.resolve(pt.el), 0) if pt.k == 'ptr' and L.resolve(pt.el).k in ('struct', 'array', 'int', 'double', 'ptr') and not (L.resolve(pt.el).k == 'int' and L.resolve(pt.el).n == 8) else None
        if J is None: return here
        if J.op == 'bitcast': return s.points_into(J.a[0], depth + 1) or here
        if J.op == 'call' and here is None:
            # an untyped heap block: the type the program casts it to
            for K in s.defs.values():
                if K.op == 'bitcast' and K.a[0][0] == 'local' and K.a[0][1] == v[1]:
                    kt = L.resolve(K.ty)
                    if kt.k == 'ptr' and L.resolve(kt.el).k in ('struct', 'array', 'double', 'ptr'): return (L.resolve(kt.el), 0)
        if J.op == 'getelementptr':
            bt, base, idx, inb = J.a; t = L.resolve(bt); off = 0
            for k, ix in enumerate(idx):
                if k == 0: continue                     # which element: the layout repeats
                if ix[0] != 'int': return here
                if t.k == 'struct': off += L.field_offset(t, ix[1]); t = L.resolve(t.fields[ix[1]])
                elif t.k in ('array', 'vector'): off += ix[1] * L.size(t.el); t = L.resolve(t.el)
                else: return here
            return (L.resolve(bt), off)
        return here
    def typed_leaves(s, v, n):
        """scalar leaves [(offset relative to v, type)] exactly covering n bytes at pointer v, or None"""
        pi = s.points_into(v)
        if pi is None: return None
        t, off = pi; out = []
        try: s.leaves(t, 0, out)
        except ValueError: return None
        L = s.E.L; tot = L.size(t)
        if tot == 0: return None
        sel = []; pos = off
        # the region may run over several consecutive elements
        while pos < off + n:
            e, o = divmod(pos, tot)
            hit = [(lo, lt) for lo, lt in out if lo == o]
            if not hit: return None                      # starts in padding or inside a scalar
            lo, lt = hit[0]; sz = L.size(lt)
            if pos + sz > off + n: return None
            sel.append((pos - off, lt)); pos += sz
            nxt = [lo2 for lo2, _ in out if lo2 >= o + sz]
            pos = e * tot + (min(nxt) if nxt else tot) if pos < off + n else pos
        return sel
    def alloc_elem_type(s, res):
        if res is None: return None
        for lab, ins in s.f.blocks:
            for J in ins:
                if J.op == 'bitcast' and J.a[0][0] == 'local' and J.a[0][1] == res:
                    pt = s.E.L.resolve(J.ty)
                    if pt.k != 'ptr': continue
                    et = s.E.L.resolve(pt.el)
                    if et.k in ('struct', 'int', 'double', 'ptr') and not (et.k == 'int' and et.n == 8): return s.E.ctype(et)
        return None
    YIELDS = ('pthread_mutex_lock', 'pthread_cond_wait', 'pthread_join')
    def live_across_yields(s):
        """SSA values whose live range crosses a blocking call: only these (and the parameters) need to live in the context"""
        f = s.f
        def uses_of(x, acc):
            if isinstance(x, tuple) and len(x) == 3 and x[0] == 'local' and isinstance(x[1], str): acc.add(x[1]); return
            if isinstance(x, (tuple, list)):
                for y in x: uses_of(y, acc)
        succ = {}; blocks = dict(f.blocks)
        for lab, ins in f.blocks:
            T = ins[-1]
            if T.op == 'br': succ[lab] = [T.a[0]] if len(T.a) == 1 else [T.a[1], T.a[2]]
            elif T.op == 'switch': succ[lab] = [T.a[1]] + [l for _, l in T.a[2]]
            elif T.op in ('ret', 'unreachable', 'resume'): succ[lab] = []
            else: raise ValueError('coroutine mode: unsupported terminator ' + T.op)
        def is_yield(I):
            return I.op == 'call' and I.a[0][0] == 'global' and I.a[0][1] in s.YIELDS
        live_in = {lab: set() for lab, _ in f.blocks}; live_out = {lab: set() for lab, _ in f.blocks}
        changed = True
        while changed:
            changed = False
            for lab, ins in reversed(f.blocks):
                out = set()
                for sl in succ[lab]:
                    phid = {I.res for I in blocks[sl] if I.op == 'phi'}
                    out |= (live_in[sl] - phid)
                    for I in blocks[sl]:
                        if I.op == 'phi':
                            for v_, lb in I.a:
                                if lb == lab: uses_of(v_, out)
                live = set(out)
                for I in reversed(ins):
                    if I.op == 'phi': live.discard(I.res); continue
                    if I.res is not None: live.discard(I.res)
                    uses_of(I.a, live)
                live |= {I.res for I in ins if I.op == 'phi'} & set()   # phi results are defined at block entry
                if out != live_out[lab] or live != live_in[lab]: live_out[lab] = out; live_in[lab] = live; changed = True
        across = set()
        for lab, ins in f.blocks:
            live = set(live_out[lab])
            for I in reversed(ins):
                if I.op == 'phi': continue
                if I.res is not None: live.discard(I.res)
                if is_yield(I): across |= live
                uses_of(I.a, live)
        return across

    def emit(s):
        E = s.E; f = s.f
        s.blockmap = {lab: ins for lab, ins in f.blocks}
        if s.coro: s.ctxvals = s.live_across_yields() | {n for t, n in f.params}
        # body
        for bi, (lab, ins) in enumerate(f.blocks):
            s.cur = lab
            s.code.append(' %s: ;\n' % s.lab(lab))
            for I in ins:
                try:
                    s.instr(I)
                except Exception as e:
                    raise RuntimeError('in %s: %s\n  %s: %s' % (f.name, I.line[:200], type(e).__name__, e))
        decls = []; cdecls = []
        for lab, ins in f.blocks:
            for I in ins:
                if I.res is not None and E.L.resolve(I.ty).k != 'void':
                    (cdecls if s.coro and I.res in s.ctxvals else decls).append('  %s %s;\n' % (E.ctype(I.ty), 'v_' + san(I.res)))
        if s.coro:
            # parameters, fixed allocas and the SSA values live across a blocking call live in the context; execution
            # resumes at the recorded yield point, every other value is an ordinary local of the step function
            fields = ''.join('  %s v_%s;\n' % (E.ctype(t), san(n)) for t, n in f.params) + ''.join(cdecls) + ''.join(s.coro_mem)
            rt = E.L.resolve(f.ret)
            struct = '%s {\n  struct vr_coro h;\n%s%s};\n' % (s.ctxname(), ('  %s ret;\n' % E.ctype(rt)) if rt.k != 'void' else '', fields)
            E.coro_structs.append(struct)
            init = 'static inline void %s__init(%s* C%s) {\n  static const %s zero; *C = zero;   /* not memset: byte-wise updates of a large struct are costly for symex */\n%s}\n' % (E.gname(f.name), s.ctxname(),
                ''.join(', %s p%d' % (E.ctype(t), i) for i, (t, n) in enumerate(f.params)), s.ctxname(),
                ''.join('  C->v_%s = p%d;\n' % (san(n), i) for i, (t, n) in enumerate(f.params)))
            E.coro_protos.append(s.proto() + ';\n' + s.proto().replace('__step(', '__resume(') + ';\n' + s.proto().replace('__step(', '__start(') + ';\n' + init)
            # the program counter is re-assigned as a constant in every case so that symex resumes exactly one segment;
            # mode 1 (resume only) / 2 (start only) let the harness exclude what program order already excludes
            disp = ('  switch (C->h.pc) { case 0: if (mode == 1) { vr_unreachable(); return; } break;%s default: vr_unreachable(); return; }\n' %
                    ''.join(' case %d: if (mode == 2) { vr_unreachable(); return; } C->h.pc = %d; goto R_%d;' % (k, k, k) for k in range(1, s.nyield + 1)))
            g = E.gname(f.name)
            wrappers = ('void %s__step(%s* C) { %s__run(C, 0); }\nvoid %s__resume(%s* C) { %s__run(C, 1); }\nvoid %s__start(%s* C) { %s__run(C, 2); }\n' %
                        (g, s.ctxname(), g, g, s.ctxname(), g, g, s.ctxname(), g))
            return '\nstatic void %s__run(%s* C, int mode) {\n%s%s%s}\n%s' % (g, s.ctxname(), ''.join(decls), disp, ''.join(s.code), wrappers)
        return '\n%s {\n%s%s}\n' % (s.proto(), ''.join(decls), ''.join(s.code))

    def access(s, ptr, size, wr):
        if s.hook: s.w('vh_access(%s, %d, %d);' % (ptr, size, wr))

    def instr(s, I):
        E = s.E; op = I.op
        r = s.lname(I.res) if I.res is not None else None
        if op in ('add', 'sub', 'mul', 'and', 'or', 'xor', 'shl', 'lshr', 'ashr', 'udiv', 'sdiv', 'urem', 'srem'):
            a, b = s.v(I.a[0]), s.v(I.a[1]); t = E.L.resolve(I.ty); ct = E.ctype(t)
            if op in ('add', 'sub', 'mul') and 'nsw' in I.flags and E.args.nsw_signed and t.n in (32, 64):
                cop = {'add': '+', 'sub': '-', 'mul': '*'}[op]
                e = '(%s)(%s %s %s)' % (ct, E.sgn(a, t), cop, E.sgn(b, t))
            elif op in ('add', 'sub', 'mul', 'and', 'or', 'xor'):
                cop = {'add': '+', 'sub': '-', 'mul': '*', 'and': '&', 'or': '|', 'xor': '^'}[op]
                e = '(%s)(%s %s %s)' % (ct, a, cop, b)
            elif op == 'shl': e = '(%s)(%s << %s)' % (ct, a, b)
            elif op == 'lshr': e = '(%s)(%s >> %s)' % (ct, a, b)
            elif op == 'ashr': e = '(%s)(%s >> %s)' % (ct, E.sgn(a, t), b)
            elif op == 'udiv': e = '(%s)(%s / %s)' % (ct, a, b)
            elif op == 'urem': e = '(%s)(%s %% %s)' % (ct, a, b)
            elif op == 'sdiv': e = '(%s)(%s / %s)' % (ct, E.sgn(a, t), E.sgn(b, t))
            elif op == 'srem': e = '(%s)(%s %% %s)' % (ct, E.sgn(a, t), E.sgn(b, t))
            m = E.mask(t)
            if m is not None: e = '(%s) & %s' % (e, E.intlit(m, t))
            s.w('%s = %s;' % (r, e))
        elif op in ('fadd', 'fsub', 'fmul', 'fdiv', 'frem'):
            w_ = '64' if E.L.resolve(I.ty).k == 'double' else '32'
            s.w('%s = vr_%s%s(%s, %s);' % (r, op, w_, s.v(I.a[0]), s.v(I.a[1])))
        elif op == 'fneg':
            w_ = '64' if E.L.resolve(I.ty).k == 'double' else '32'
            s.w('%s = vr_fneg%s(%s);' % (r, w_, s.v(I.a[0])))
        elif op == 'icmp':
            s.w('%s = %s;' % (r, E.icmp_expr(I.a[0], I.a[1], I.a[2], s)))
        elif op == 'fcmp':
            w_ = '64' if E.L.resolve(I.a[1][2]).k == 'double' else '32'
            s.w('%s = vr_fcmp%s(VRP_%s, %s, %s);' % (r, w_, I.a[0].upper(), s.v(I.a[1]), s.v(I.a[2])))
        elif op in CASTS:
            a = I.a[0]; ft = E.L.resolve(a[2]); tt = E.L.resolve(I.ty); e = s.v(a); ct = E.ctype(tt)
            if op in ('bitcast', 'addrspacecast'):
                if ft.k == 'ptr' and tt.k == 'ptr': x = e
                elif ft.k == 'double' and tt.k == 'int': x = 'vr_bits64(%s)' % e
                elif ft.k == 'float' and tt.k == 'int': x = 'vr_bits32(%s)' % e
                elif ft.k == 'int' and tt.k == 'double': x = 'vr_frombits64(%s)' % e
                elif ft.k == 'int' and tt.k == 'float': x = 'vr_frombits32(%s)' % e
                else: raise ValueError('bitcast %r -> %r' % (ft, tt))
            elif op == 'trunc':
                x = '(%s)%s' % (ct, e); m = E.mask(tt)
                if m is not None: x = '(%s) & %s' % (x, E.intlit(m, tt))
            elif op == 'zext': x = '(%s)%s' % (ct, e)
            elif op == 'sext': x = E.sext_expr(e, ft, tt)
            elif op == 'ptrtoint': x = '(%s)(uintptr_t)%s' % (ct, e)
            elif op == 'inttoptr': x = '(char*)(uintptr_t)%s' % e
            elif op == 'fpext': x = 'vr_fpext(%s)' % e
            elif op == 'fptrunc': x = 'vr_fptrunc(%s)' % e
            elif op in ('sitofp', 'uitofp'):
                w_ = '64' if tt.k == 'double' else '32'
                src = '(int64_t)%s' % E.sgn(e, ft) if op == 'sitofp' else '(uint64_t)%s' % e
                x = 'vr_%s%s(%s)' % (op, w_, src)
            elif op in ('fptosi', 'fptoui'):
                w_ = '64' if ft.k == 'double' else '32'
                x = '(%s)vr_%s%s(%s)' % (ct, op, w_, e)
                m = E.mask(tt)
                if m is not None: x = '(%s) & %s' % (x, E.intlit(m, tt))
            s.w('%s = %s;' % (r, x))
        elif op == 'alloca':
            t, cnt, align = I.a
            sz = E.L.size(t)
            if cnt is None or cnt[0] == 'int':
                n = 1 if cnt is None else cnt[1]
                if s.coro:
                    mem = 'm_' + san(I.res)
                    s.coro_mem.append('  %s __attribute__((aligned(%d)));\n' % (E.memtype_decl(Ty('array', max(n, 1), t), mem), max(align, 1)))
                    s.w('%s = (char*)C->%s;' % (r, mem))
                else:
                    s.code.insert(0, '  %s __attribute__((aligned(%d)));\n' % (E.memtype_decl(Ty('array', max(n, 1), t), r + '_mem'), max(align, 1)))
                    s.w('%s = (char*)%s_mem; VR_POISON(%s_mem, sizeof %s_mem);' % (r, r, r, r))
            else:
                # keep a sizeof() in the size expression: CBMC types the object from it (T[n] instead of char[])
                et = E.L.resolve(t); mult = 1
                while et.k in ('array', 'vector'): mult *= et.n; et = E.L.resolve(et.el)
                if et.k in ('int', 'float', 'double', 'ptr'):
                    s.w('%s = (char*)vr_alloca((uint64_t)%s * %d * sizeof(%s));' % (r, s.v(cnt), mult, E.ctype(et)))
                else:
                    s.w('%s = (char*)vr_alloca((uint64_t)%s * %d);' % (r, s.v(cnt), sz))
        elif op == 'load':
            ptr, vol = I.a; t = E.L.resolve(I.ty)
            s.access(s.v(ptr), E.L.size(t), 0)
            s.w('%s = *(%s*)%s;' % (r, E.ctype(t), s.v(ptr)))
            m = E.mask(t)
            if m is not None and t.n != 1: s.w('%s &= %s;' % (r, E.intlit(m, t)))
        elif op == 'store':
            v_, ptr, vol = I.a; t = E.L.resolve(v_[2])
            s.access(s.v(ptr), E.L.size(t), 1)
            s.w('*(%s*)%s = %s;' % (E.ctype(t), s.v(ptr), s.v(v_)))
        elif op == 'getelementptr':
            bt, base, idx, inb = I.a
            s.w('%s = %s + %s;' % (r, s.v(base), E.gep_offset(bt, idx, s)))
        elif op == 'phi':
            pass
        elif op == 'select':
            c, a, b = I.a
            s.w('%s = %s ? %s : %s;' % (r, s.v(c), s.v(a), s.v(b)))
        elif op == 'freeze':
            s.w('%s = %s;' % (r, s.v(I.a[0])))
        elif op == 'br':
            if len(I.a) == 1: s.w(s.edge(s.cur, I.a[0]))
            else:
                c, a, b = I.a
                s.w('if (%s) %s else %s' % (s.v(c), s.edge(s.cur, a), s.edge(s.cur, b)))
        elif op == 'switch':
            v_, d, cases = I.a
            s.w('switch (%s) {' % s.v(v_))
            seen = set()
            for cv, lb in cases:
                s.w('  case %s: %s' % (E.intlit(cv[1], cv[2]).replace('((uint64_t)', '(').replace('((uint32_t)', '(').replace('((uint8_t)', '(').replace('((uint16_t)', '('), s.edge(s.cur, lb)))
            s.w('  default: %s' % s.edge(s.cur, d))
            s.w('}')
        elif op == 'ret':
            if s.coro: s.w(('C->ret = %s; ' % s.v(I.a[0]) if I.a[0] is not None else '') + 'C->h.done = 1; return;')
            elif I.a[0] is None: s.w('return;')
            else: s.w('return %s;' % s.v(I.a[0]))
        elif op == 'unreachable':
            s.w('vr_unreachable(); %s' % s.retdummy())
        elif op in ('call', 'invoke'):
            s.call(I, r)
        elif op == 'landingpad':
            cleanup, clauses = I.a
            ids = []
            for kind, cv in clauses:
                if kind != 'catch': raise ValueError('filter clause')
                ids.append(s.typeid_of(cv))
            s.w('%s.f0 = exc_obj; %s.f1 = vr_eh_select(%d, (const int[]){%s}, %d);' % (r, r, len(ids), ', '.join(map(str, ids)) or '0', 1 if cleanup else 0))
            s.w('if ((int32_t)%s.f1 < 0) { %s }' % (r, s.retdummy()))
            s.w('exc_pending = 0;')
        elif op == 'resume':
            s.w('exc_obj = %s.f0; exc_pending = 1; %s' % (s.v(I.a[0]), s.retdummy()))
        elif op == 'extractvalue':
            v_, idx = I.a; e = s.v(v_); t = E.L.resolve(v_[2])
            for ix in idx:
                if t.k == 'struct': e += '.f%d' % ix; t = E.L.resolve(t.fields[ix])
                else: e += '.a[%d]' % ix; t = E.L.resolve(t.el)
            s.w('%s = %s;' % (r, e))
        elif op == 'insertvalue':
            v_, e_, idx = I.a
            if v_[0] != 'undef': s.w('%s = %s;' % (r, s.v(v_)))
            else: s.w('memset(&%s, 0, sizeof %s);' % (r, r))
            t = E.L.resolve(v_[2]); e = r
            for ix in idx:
                if t.k == 'struct': e += '.f%d' % ix; t = E.L.resolve(t.fields[ix])
                else: e += '.a[%d]' % ix; t = E.L.resolve(t.el)
            s.w('%s = %s;' % (e, s.v(e_)))
        elif op == 'nop':
            pass
        else:
            raise ValueError('instr ' + op)

    def typeid_of(s, cv):
        """type id for a catch clause value / typeinfo pointer constant"""
        E = s.E
        while cv[0] == 'ccast': cv = cv[1][1]
        if cv[0] == 'null': return 0
        if cv[0] == 'global':
            E.ref_global(cv[1])
            if cv[1] not in E.typeinfos: E.typeinfos.append(cv[1])
            return E.typeinfos.index(cv[1]) + 1
        raise ValueError('typeinfo %r' % (cv,))

    def call(s, I, r):
        E = s.E
        callee, fnty, args, extra = I.a
        rt = E.L.resolve(I.ty)
        def finish(expr, may_throw=True):
            if rt.k != 'void' and r is not None: s.w('%s = %s;' % (r, expr))
            else: s.w('%s;' % expr)
            if I.op == 'invoke':
                n, u = extra
                if may_throw: s.w('if (exc_pending) %s' % s.edge(s.cur, u))
                s.w(s.edge(s.cur, n))
            elif may_throw:
                s.w('if (exc_pending) { %s }' % s.retdummy())
        if callee[0] == 'asm':
            if rt.k == 'void': finish('(void)0', False)
            else: finish('(%s)vr_nondet_u64()' % E.ctype(rt), False)
            return
        name = callee[1] if callee[0] == 'global' else None
        av = [a for a, info in args]
        if name and name.startswith('llvm.'):
            return s.intrinsic(I, r, name, av, finish)
        if s.coro and name in ('pthread_mutex_lock', 'pthread_cond_wait', 'pthread_join'):
            # yield point: the scheduler performs the operation when it is enabled and then resumes this context
            s.nyield += 1; k = s.nyield
            opn = {'pthread_mutex_lock': 1, 'pthread_cond_wait': 2, 'pthread_join': 3}[name]
            a0 = s.v(av[0]) if E.L.resolve(av[0][2]).k == 'ptr' else '(char*)(uintptr_t)%s' % s.v(av[0])
            a1 = (s.v(av[1]) if len(av) > 1 and E.L.resolve(av[1][2]).k == 'ptr' else '(char*)0')
            s.w('C->h.pc = %d; C->h.blk_op = %d; C->h.blk_a0 = %s; C->h.blk_a1 = %s; return; R_%d: ;' % (k, opn, a0, a1, k))
            finish('0', False); return
        if s.coro and name == 'pthread_exit':
            s.w('C->h.done = 1; return;'); return
        if name == '__cxa_throw':
            tid = None
            try: tid = s.typeid_of(av[1])
            except ValueError: pass
            s.w('exc_obj = %s; exc_type = %s; exc_pending = 1;' % (s.v(av[0]), tid if tid is not None else 'ir_typeinfo_id(%s)' % s.v(av[1])))
            finish('(void)0'); return
        if name == '__cxa_rethrow':
            s.w('exc_pending = 1;'); finish('(void)0'); return
        if name == '__cxa_begin_catch': finish(s.v(av[0]), False); return
        if name == '__cxa_end_catch': finish('(void)0', False); return
        if name == '__cxa_allocate_exception': finish('(char*)vr_exc_alloc(%s)' % s.v(av[0]), False); return
        if name == '__cxa_free_exception': finish('(void)0', False); return
        if name == '__clang_call_terminate' or name == '_ZSt9terminatev':
            finish('vr_terminate()', False); return
        # byval copies
        cargs = []
        for a, info in args:
            e = s.v(a)
            if 'byval' in info:
                sz = E.L.size(info['byval']); t = s.tmp()
                s.w('char* %s = (char*)vr_alloca(%d); memcpy(%s, %s, %d);' % (t, sz, t, e, sz)); e = t
            cargs.append(e)
        if name in ('sqrt', 'ceil', 'floor', 'fabs') and name not in E.mod.funcs:
            finish('vr_%s64(%s)' % (name, cargs[0]), False); return
        if name in ('sqrtf', 'fabsf') and name not in E.mod.funcs:
            finish('vr_%s32(%s)' % (name[:-1], cargs[0]), False); return
        if name == 'strlen' and name not in E.mod.funcs:
            finish('(uint64_t)vr_strlen(%s)' % cargs[0], False); return
        if name == 'strcmp' and name not in E.mod.funcs:
            finish('(uint32_t)vr_strcmp(%s, %s)' % (cargs[0], cargs[1]), False); return
        if E.args.typed_malloc and name in ('malloc', 'realloc') and name not in E.mod.funcs:
            # the element type the program gives the block (first bitcast of the result): lets CBMC type the dynamic object,
            # which keeps pointers stored in it precise
            et = s.alloc_elem_type(I.res) or 'uint64_t'   # no cast in sight: 8-byte words (exact size is kept, see VR_MALLOC)
            if et is not None:
                if name == 'malloc': finish('(char*)VR_MALLOC(%s, %s)' % (et, cargs[0]), False)
                else: finish('(char*)VR_REALLOC(%s, %s, %s)' % (et, cargs[0], cargs[1]), False)
                return
        if name in ('memcpy', 'memmove', 'memset') and name not in E.mod.funcs:
            finish('(char*)vr_%s(%s)' % (name, ', '.join(cargs)), False); return
        if name is not None:
            E.ref_global(name)
            cn = E.gname(name)
            if cn in LIBC_PASSTHRU:
                ex = '%s(%s)' % (cn, ', '.join(cargs))
                if rt.k == 'ptr': ex = '(char*)' + ex
                elif rt.k == 'int': ex = '(%s)%s' % (E.ctype(rt), ex)
                finish(ex, False); return
            ex = '%s(%s)' % (cn, ', '.join(cargs))
            finish(ex, name not in NOTHROW_EXT)
        else:
            if fnty is not None and fnty.vararg: raise ValueError('indirect vararg call')
            disp = E.icall(E.ctype(rt), [E.ctype(a[2]) for a in av], False)
            ex = '%s(%s)' % (disp, ', '.join([s.v(callee)] + cargs))
            finish(ex)

    def intrinsic(s, I, r, name, av, finish):
        E = s.E
        if name.startswith(INTRIN_DROP): return
        a = [s.v(x) for x in av]
        base = name.split('.')[1]
        rt = E.L.resolve(I.ty)
        if name.startswith('llvm.memcpy') or name.startswith('llvm.memmove'):
            fn_ = 'memcpy' if 'memcpy' in name else 'memmove'
            if E.args.typed_mem and av[2][0] == 'int' and 0 < av[2][1] <= 512 and fn_ == 'memcpy':
                la = s.typed_leaves(av[0], av[2][1]); lb = s.typed_leaves(av[1], av[2][1])
                if la is not None and la == lb:
                    for o, lt in la:
                        s.access(a[1] + ' + %d' % o, E.L.size(lt), 0); s.access(a[0] + ' + %d' % o, E.L.size(lt), 1)
                        s.w('*(%s*)(%s + %d) = *(%s*)(%s + %d);' % (E.ctype(lt), a[0], o, E.ctype(lt), a[1], o))
                    finish(a[0], False); return
            if s.hook: s.w('vh_access(%s, %s, 1); vh_access(%s, %s, 0);' % (a[0], a[2], a[1], a[2]))
            finish('vr_%s(%s, %s, %s)' % (fn_, a[0], a[1], a[2]), False)
        elif name.startswith('llvm.memset'):
            if E.args.typed_mem and av[2][0] == 'int' and 0 < av[2][1] <= 512 and av[1][0] == 'int' and av[1][1] == 0:
                la = s.typed_leaves(av[0], av[2][1])
                if la is not None:
                    for o, lt in la:
                        s.access(a[0] + ' + %d' % o, E.L.size(lt), 1)
                        s.w('*(%s*)(%s + %d) = %s;' % (E.ctype(lt), a[0], o, '(char*)0' if lt.k == 'ptr' else '0'))
                    finish(a[0], False); return
            if s.hook: s.w('vh_access(%s, %s, 1);' % (a[0], a[2]))
            finish('vr_memset(%s, %s, %s)' % (a[0], a[1], a[2]), False)
        elif name == 'llvm.stacksave': finish('(char*)0', False)
        elif base in ('smax', 'smin', 'umax', 'umin'):
            t = E.L.resolve(av[0][2])
            x, y = (E.sgn(a[0], t), E.sgn(a[1], t)) if base[0] == 's' else (a[0], a[1])
            cmp_ = '>' if base.endswith('max') else '<'
            finish('(%s %s %s) ? %s : %s' % (x, cmp_, y, a[0], a[1]), False)
        elif base == 'abs':
            t = E.L.resolve(av[0][2]); x = E.sgn(a[0], t)
            finish('(%s)((%s < 0) ? (%s)0 - %s : %s)' % (E.ctype(t), x, E.ctype(t), a[0], a[0]), False)
        elif base in ('uadd', 'usub', 'umul', 'sadd', 'ssub', 'smul') and name.split('.')[2] == 'with':
            t = E.L.resolve(av[0][2]); n = t.n
            assert n in (32, 64)
            st = 'int%d_t' % n; ut = 'uint%d_t' % n
            bi = {'add': '__builtin_add_overflow', 'sub': '__builtin_sub_overflow', 'mul': '__builtin_mul_overflow'}[base[1:]]
            ct = st if base[0] == 's' else ut
            tv = s.tmp()
            s.w('%s %s; %s.f1 = (uint8_t)%s((%s)%s, (%s)%s, &%s); %s.f0 = (%s)%s;' % (ct, tv, r, bi, ct, a[0], ct, a[1], tv, r, ut, tv))
            finish('(void)0', False) if False else None
            if I.op == 'invoke': s.w(s.edge(s.cur, I.a[3][0]))
        elif base in ('ctlz', 'cttz', 'ctpop'):
            t = E.L.resolve(av[0][2])
            finish('(%s)vr_%s%d(%s)' % (E.ctype(t), base, t.n, a[0]), False)
        elif base == 'bswap':
            t = E.L.resolve(av[0][2]); finish('__builtin_bswap%d(%s)' % (t.n, a[0]), False)
        elif base in ('fshl', 'fshr'):
            t = E.L.resolve(av[0][2]); finish('(%s)vr_%s%d(%s, %s, %s)' % (E.ctype(t), base, t.n, a[0], a[1], a[2]), False)
        elif base in ('sqrt', 'fabs', 'ceil', 'floor', 'trunc', 'rint', 'nearbyint', 'round', 'exp', 'log', 'pow', 'copysign', 'maxnum', 'minnum'):
            w_ = '64' if rt.k == 'double' else '32'
            finish('vr_%s%s(%s)' % (base, w_, ', '.join(a)), False)
        elif base == 'fmuladd' or base == 'fma':
            w_ = '64' if rt.k == 'double' else '32'
            finish('vr_fadd%s(vr_fmul%s(%s, %s), %s)' % (w_, w_, a[0], a[1], a[2]), False)
        elif name.startswith('llvm.eh.typeid.for'):
            finish('%d' % s.typeid_of(av[0]), False)
        elif base == 'trap': finish('vr_trap()', False)
        elif base == 'expect': finish(a[0], False)
        elif base == 'objectsize': finish('(%s)-1' % E.ctype(rt), False)
        elif name.startswith('llvm.is.constant'): finish('0', False)
        else:
            raise ValueError('intrinsic ' + name)

def demangle_all(names):
    p = subprocess.run(['c++filt'], input='\n'.join(names), capture_output=True, text=True)
    return dict(zip(names, p.stdout.split('\n')))

def resolve_syms(mod, specs, dem):
    """each spec: exact symbol, or /regex/ on the demangled name (may match several)"""
    out = []
    allsyms = list(mod.funcs) + list(mod.decls)
    for sp in specs:
        if sp.startswith('/') and sp.endswith('/'):
            rx = re.compile(sp[1:-1])
            m = [n for n in allsyms if rx.search(dem.get(n, n))]
            if not m: raise SystemExit('ir2c: no symbol matches ' + sp)
            out.extend(m)
        else:
            if sp not in mod.funcs and sp not in mod.decls and sp not in mod.globals:
                raise SystemExit('ir2c: unknown symbol ' + sp)
            out.append(sp)
    return out

def main():
    ap = argparse.ArgumentParser()
    ap.add_argument('input'); ap.add_argument('-o', required=True)
    ap.add_argument('--roots', default=''); ap.add_argument('--cut', default='')
    ap.add_argument('--alias', action='append', default=[])
    ap.add_argument('--coroutine', default=''); ap.add_argument('--hook-access', default='')
    ap.add_argument('--nsw-signed', action='store_true')
    ap.add_argument('--typed-mem', action='store_true', help='lower constant-size memcpy/memset(0) on typed objects to per-field accesses')
    ap.add_argument('--typed-malloc', action='store_true', help='emit VR_MALLOC(T, n) for malloc/realloc results the program casts to T*')
    ap.add_argument('--prologue', action='append', default=[], help='line inserted after the runtime include')
    ap.add_argument('--map')
    a = ap.parse_args()
    mod = parse_module(open(a.input).read())
    allsyms = list(mod.funcs) + list(mod.decls)
    dem = demangle_all(allsyms)
    sp = lambda x: [y for y in x.split(',') if y] if isinstance(x, str) else x
    a.roots = resolve_syms(mod, sp(a.roots), dem); a.cut = resolve_syms(mod, sp(a.cut), dem)
    a.coroutine = resolve_syms(mod, sp(a.coroutine), dem); a.hook_access = resolve_syms(mod, sp(a.hook_access), dem)
    E = Emitter(mod, a)
    for al in a.alias:
        spec, nice = al.rsplit('=', 1)
        m = resolve_syms(mod, [spec], dem)
        if len(set(m)) != 1: raise SystemExit('ir2c: alias %s matches %d symbols: %s' % (spec, len(m), m[:5]))
        E.names[m[0]] = 'ir_' + nice
    text = E.run()
    if E.coro_structs:
        # aggregate types, contexts, step prototypes and initialisers go to a header shared with the scheduler harness
        hname = a.o + '.coro.h'
        open(hname, 'w').write('#ifndef IR_CORO_H\n#define IR_CORO_H\n#include "vrt.h"\n' + E.aggs_text + ''.join(E.coro_structs) + ''.join(E.coro_protos) + '#endif\n')
        text = text.replace('/*AGGS*/\n', '#include "%s"\n' % os.path.basename(hname))
    else:
        text = text.replace('/*AGGS*/\n', E.aggs_text)
    open(a.o, 'w').write(text)
    if a.map:
        json.dump({'names': E.names, 'demangled': {n: dem.get(n, n) for n in E.names}, 'unmodelled': sorted(E.unmodelled),
                   'typeinfos': E.typeinfos, 'fnids': E.fnids, 'icalls': {v: list(map(str, k)) for k, v in E.icalls.items()}, 'cut': a.cut, 'roots': a.roots,
                   'translated': sorted(n for n in E.refd if n in mod.funcs and n not in a.cut)}, open(a.map, 'w'), indent=1)

if __name__ == '__main__':
    main()
