#!/usr/bin/env python3
"""Exact piecewise-polynomial convolution oracle for C14 (own rational polynomial arithmetic, no dependencies).
f(x) = sum_i c_i B_{i,p}(x) on knots t (zero outside), K = unit-area B-spline of order n-2 on the kernel knots y,
h(x) = integral f(x-s) K(s) ds.  h restricted to an open interval between consecutive distinct new knots
(all sums t_k + y_m) is one polynomial whose coefficients are linear in the c_i."""
from fractions import Fraction as F
from math import comb

def padd(a, b):
    r = dict(a)
    for k, v in b.items(): r[k] = r.get(k, 0) + v
    return {k: v for k, v in r.items() if v != 0}
def pscale(a, s): return {k: v * s for k, v in a.items() if v * s != 0}
def pmul(a, b):
    r = {}
    for i, x in a.items():
        for j, y in b.items(): r[i + j] = r.get(i + j, 0) + x * y
    return {k: v for k, v in r.items() if v != 0}

def bspline_pieces(t, j, n):
    """{interval index m: poly in x} of B_{j,n} (Cox-de Boor, 0/0 := 0)"""
    if n == 0: return {j: {0: F(1)}} if t[j] < t[j + 1] else {}
    out = {}
    if t[j + n] != t[j]:
        for m, p in bspline_pieces(t, j, n - 1).items():
            out[m] = padd(out.get(m, {}), pmul({1: F(1) / (t[j + n] - t[j]), 0: -t[j] / (t[j + n] - t[j])}, p))
    if t[j + n + 1] != t[j + 1]:
        for m, p in bspline_pieces(t, j + 1, n - 1).items():
            out[m] = padd(out.get(m, {}), pmul({1: -F(1) / (t[j + n + 1] - t[j + 1]), 0: t[j + n + 1] / (t[j + n + 1] - t[j + 1])}, p))
    return out

def integrate_piece(fpoly, kpoly, lo, hi):
    """integral over s in [lo,hi] of fpoly(x-s)*kpoly(s) ds; lo/hi are (a,b) meaning a*x+b; returns poly in x"""
    # expand f(x-s) = sum_a fa (x-s)^a = sum_a fa sum_r C(a,r) x^r (-s)^(a-r)
    g = {}   # (power of x, power of s) -> coeff
    for a, fa in fpoly.items():
        for r in range(a + 1):
            c = fa * comb(a, r) * (-1) ** (a - r)
            for b, kb in kpoly.items():
                key = (r, a - r + b); g[key] = g.get(key, 0) + c * kb
    res = {}
    def lin_pow(l, e):   # (a*x+b)^e as poly in x
        p = {0: F(1)}
        for _ in range(e): p = pmul(p, {1: F(l[0]), 0: F(l[1])} if l[0] != 0 else {0: F(l[1])})
        return p
    for (px, ps), c in g.items():
        if c == 0: continue
        # integral s^ps ds = (hi^(ps+1) - lo^(ps+1))/(ps+1)
        term = padd(lin_pow(hi, ps + 1), pscale(lin_pow(lo, ps + 1), -1))
        term = pscale(term, c / (ps + 1))
        res = padd(res, pmul({px: F(1)}, term))
    return res

def convolution_oracle(t, order, y):
    """returns (new_knots_sorted, {region r: [poly per coefficient index i]}) where region r is the open interval
    (rho[r], rho[r+1]) with rho[r] < rho[r+1]; each poly maps power -> Fraction (contribution of c_i)"""
    n = len(y); nco = len(t) - order - 1
    rho = sorted(tk + ym for tk in t for ym in y)
    # kernel: unit-area B-spline of order n-2 on y  (M = (n-1)/(y_last-y_0) * B_{0,n-2})
    kp = {m: pscale(p, F(n - 1) / (y[-1] - y[0])) for m, p in bspline_pieces(y, 0, n - 2).items()}
    fp = [bspline_pieces(t, i, order) for i in range(nco)]
    out = {}
    for r in range(len(rho) - 1):
        if not rho[r] < rho[r + 1]: continue
        xm = (rho[r] + rho[r + 1]) / 2
        polys = []
        for i in range(nco):
            tot = {}
            for k, fpoly in fp[i].items():
                for m, kpoly in kp.items():
                    # s in [y_m, y_{m+1}] and x-s in [t_k, t_{k+1}]  <=>  s in [x-t_{k+1}, x-t_k]
                    lo_c = [(0, y[m]), (1, -t[k + 1])]; hi_c = [(0, y[m + 1]), (1, -t[k])]
                    ev = lambda l: l[0] * xm + l[1]
                    lo = max(lo_c, key=ev); hi = min(hi_c, key=ev)
                    if ev(lo) >= ev(hi): continue
                    tot = padd(tot, integrate_piece(fpoly, kpoly, lo, hi))
            polys.append(tot)
        out[r] = polys
    return rho, out

if __name__ == '__main__':
    # self-test: box * box = hat
    rho, o = convolution_oracle([F(0), F(1)], 0, [F(0), F(1)])
    print(rho, o)
