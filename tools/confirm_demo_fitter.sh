#!/bin/bash
# builds and runs a mutant's demo that needs the fitter, against the worktree (with the change) and against /repo (without)
P=$1; W=$2; O=/var/tmp/psprobe/confirm_$P; mkdir -p $O/m $O/o
for side in m o; do SRC=$W; [ $side = o ] && SRC=/repo
  for f in $SRC/src/fitter/*.c; do gcc -std=gnu99 -O1 -w -I$SRC/include -I$SRC/src/fitter -I/usr/include/suitesparse -c $f -o $O/$side/$(basename $f).o; done
  g++ -std=c++17 -O1 -msse4.2 -w -DPHOTOSPLINE_INCLUDES_SPGLAM -I$SRC/include -I/usr/include/suitesparse $W/_mutant/demo.cpp $SRC/src/core/*.cpp $O/$side/*.o -lcfitsio -lcholmod -lspqr -lsuitesparseconfig -llapack -lblas -lpthread -lm -o $O/demo_$side > $O/demo_build_$side.log 2>&1
  (cd $O && OMP_NUM_THREADS=1 timeout 900 ./demo_$side > demo_$side.out 2>&1; echo "demo_$([ $side = m ] && echo with || echo without)_change_rc=$?")
done
