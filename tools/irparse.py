#!/usr/bin/env python3
"""Parser for the textual LLVM-14 IR subset produced by clang -O1 (typed pointers)
after `opt -passes=scalarizer -scalarize-load-store`.  Produces plain Python objects
used by ir2c.py.  Own code; no llvmlite available offline."""
import re, sys

# ---------------------------------------------------------------- types
class Ty:
    __slots__ = ('k', 'n', 'el', 'fields', 'name', 'packed', 'ret', 'params', 'vararg')
    def __init__(s, k, n=0, el=None, fields=None, name=None, packed=False, ret=None, params=None, vararg=False):
        s.k = k; s.n = n; s.el = el; s.fields = fields; s.name = name; s.packed = packed
        s.ret = ret; s.params = params; s.vararg = vararg
    def __repr__(s):
        if s.k == 'int': return 'i%d' % s.n
        if s.k in ('void', 'float', 'double', 'label', 'metadata', 'x86_fp80', 'opaque', 'token'): return s.k
        if s.k == 'ptr': return repr(s.el) + '*'
        if s.k == 'array': return '[%d x %r]' % (s.n, s.el)
        if s.k == 'vector': return '<%d x %r>' % (s.n, s.el)
        if s.k == 'struct': return '{' + ','.join(map(repr, s.fields)) + '}'
        if s.k == 'named': return '%' + s.name
        if s.k == 'func': return '%r(%s)' % (s.ret, ','.join(map(repr, s.params)))
        return s.k
    def key(s): return repr(s)

VOID = Ty('void'); FLOAT = Ty('float'); DOUBLE = Ty('double'); LABEL = Ty('label')
def INT(n): return Ty('int', n)
def PTR(t): return Ty('ptr', el=t)
I8P = PTR(INT(8))

TOK = re.compile(r'''
    \s+ | ;[^\n]* |
    (?P<str>c?"(?:[^"\\]|\\.)*") |
    (?P<lid>%(?:"(?:[^"\\]|\\.)*"|[-a-zA-Z$._0-9]+)) |
    (?P<gid>@(?:"(?:[^"\\]|\\.)*"|[-a-zA-Z$._0-9]+)) |
    (?P<md>![-a-zA-Z$._0-9]*) |
    (?P<attr>\#[0-9]+) |
    (?P<num>-?[0-9]+\.[0-9]*(?:[eE][-+]?[0-9]+)?|0x[KLMHR]?[0-9a-fA-F]+|-?[0-9]+) |
    (?P<word>[a-zA-Z_][a-zA-Z0-9_.]*) |
    (?P<dots>\.\.\.) |
    (?P<p>[()\[\]{}<>,=*:|])
''', re.X)

def tokenize(s):
    out = []; pos = 0; n = len(s)
    while pos < n:
        m = TOK.match(s, pos)
        if not m: raise SyntaxError('tok at %r' % s[pos:pos + 40])
        pos = m.end()
        k = m.lastgroup
        if k: out.append((k, m.group(k)))
    return out

def unq(name):
    """strip sigil and quotes"""
    n = name[1:]
    if n.startswith('"'):
        n = n[1:-1]
        n = re.sub(r'\\([0-9a-fA-F]{2})', lambda m: chr(int(m.group(1), 16)), n)
    return n

class P:
    """token stream"""
    def __init__(s, toks, mod): s.t = toks; s.i = 0; s.mod = mod
    def peek(s, o=0): return s.t[s.i + o] if s.i + o < len(s.t) else ('eof', '')
    def next(s): r = s.peek(); s.i += 1; return r
    def at(s, v): return s.peek()[1] == v
    def eat(s, v):
        if s.peek()[1] == v: s.i += 1; return True
        return False
    def expect(s, v):
        if not s.eat(v): raise SyntaxError('expected %r got %r near %r' % (v, s.peek(), s.t[max(0, s.i - 6):s.i + 4]))
    def eof(s): return s.i >= len(s.t)

    # ---- types
    def type(s):
        k, v = s.next()
        if k == 'word':
            if v == 'void': t = VOID
            elif v == 'float': t = FLOAT
            elif v == 'double': t = DOUBLE
            elif v == 'label': t = LABEL
            elif v == 'metadata': t = Ty('metadata')
            elif v == 'x86_fp80': t = Ty('x86_fp80')
            elif v == 'opaque': t = Ty('opaque')
            elif v == 'token': t = Ty('token')
            elif re.fullmatch(r'i[0-9]+', v): t = INT(int(v[1:]))
            else: raise SyntaxError('type word ' + v)
        elif k == 'lid': t = Ty('named', name=unq(v))
        elif v == '[':
            n = int(s.next()[1]); s.expect('x'); el = s.type(); s.expect(']'); t = Ty('array', n, el)
        elif v == '<':
            if s.at('{'):
                s.next(); f = s.typelist('}'); s.expect('>'); t = Ty('struct', fields=f, packed=True)
            else:
                n = int(s.next()[1]); s.expect('x'); el = s.type(); s.expect('>'); t = Ty('vector', n, el)
        elif v == '{':
            t = Ty('struct', fields=s.typelist('}'))
        else: raise SyntaxError('type at %r %r' % (k, v))
        while True:
            if s.eat('*'): t = PTR(t)
            elif s.at('('):
                s.next(); ps = []; va = False
                while not s.eat(')'):
                    if s.eat('...'): va = True
                    else:
                        ps.append(s.type())
                    s.eat(',')
                t = Ty('func', ret=t, params=ps, vararg=va)
            elif s.peek()[0] == 'word' and s.peek()[1] == 'addrspace':
                s.next(); s.expect('('); s.next(); s.expect(')')
            else: break
        return t
    def typelist(s, close):
        f = []
        while not s.eat(close):
            f.append(s.type()); s.eat(',')
        return f

    PARAM_ATTRS = {'noundef', 'nonnull', 'noalias', 'nocapture', 'readonly', 'writeonly', 'readnone', 'signext', 'zeroext',
                   'immarg', 'returned', 'nofree', 'inreg', 'nest', 'swiftself', 'noundef', 'allocalign', 'allocptr'}
    def skip_param_attrs(s):
        """skip parameter/return attributes; return dict of interesting ones (byval/sret types)"""
        info = {}
        while True:
            k, v = s.peek()
            if k != 'word': break
            if v in s.PARAM_ATTRS: s.next()
            elif v in ('align', 'dereferenceable', 'dereferenceable_or_null'):
                s.next()
                if s.eat('('): s.next(); s.expect(')')
                else: s.next()
            elif v in ('byval', 'sret', 'byref', 'preallocated', 'inalloca', 'elementtype'):
                s.next(); s.expect('('); info[v] = s.type(); s.expect(')')
            else: break
        return info

    # ---- values
    def value(s, ty):
        """parse a value of known type -> Val"""
        k, v = s.next()
        if k == 'lid': return ('local', unq(v), ty)
        if k == 'gid': return ('global', unq(v), ty)
        if k == 'num':
            if ty.k in ('float', 'double', 'x86_fp80'): return ('fp', v, ty)
            return ('int', int(v, 0) if not v.startswith('0x') else int(v, 16), ty)
        if k == 'str': return ('cstr', v, ty)
        if k == 'word':
            if v == 'true': return ('int', 1, ty)
            if v == 'false': return ('int', 0, ty)
            if v == 'null': return ('null', None, ty)
            if v in ('undef', 'poison'): return ('undef', None, ty)
            if v == 'zeroinitializer': return ('zero', None, ty)
            if v in ('getelementptr',):
                inb = s.eat('inbounds'); s.expect('(')
                bt = s.type(); s.expect(',')
                ops = []
                while True:
                    s.eat('inrange')
                    t2 = s.type(); ops.append(s.value(t2))
                    if not s.eat(','): break
                s.expect(')')
                return ('cgep', (bt, ops), ty)
            if v in ('bitcast', 'ptrtoint', 'inttoptr', 'trunc', 'zext', 'sext', 'addrspacecast'):
                s.expect('('); t1 = s.type(); x = s.value(t1); s.expect('to'); t2 = s.type(); s.expect(')')
                return ('ccast', (v, x, t2), ty)
            if v in ('add', 'sub', 'mul', 'and', 'or', 'xor', 'shl', 'lshr', 'ashr', 'udiv', 'sdiv'):
                while s.peek()[1] in ('nsw', 'nuw', 'exact'): s.next()
                s.expect('('); t1 = s.type(); a = s.value(t1); s.expect(','); t2 = s.type(); b = s.value(t2); s.expect(')')
                return ('cbin', (v, a, b), ty)
            if v == 'icmp':
                pred = s.next()[1]
                s.expect('('); t1 = s.type(); a = s.value(t1); s.expect(','); t2 = s.type(); b = s.value(t2); s.expect(')')
                return ('cicmp', (pred, a, b), ty)
            if v == 'select':
                s.expect('('); t0 = s.type(); c = s.value(t0); s.expect(','); t1 = s.type(); a = s.value(t1); s.expect(','); t2 = s.type(); b = s.value(t2); s.expect(')')
                return ('cselect', (c, a, b), ty)
            if v == 'blockaddress': raise SyntaxError('blockaddress')
            if v == 'dso_local_equivalent':
                return s.value(ty)
            raise SyntaxError('value word %s' % v)
        if v == '{' or (v == '<' and s.at('{')):
            packed = v == '<'
            if packed: s.next()
            els = []
            while not s.eat('}'):
                t = s.type(); els.append(s.value(t)); s.eat(',')
            if packed: s.expect('>')
            return ('agg', els, ty)
        if v == '[':
            els = []
            while not s.eat(']'):
                t = s.type(); els.append(s.value(t)); s.eat(',')
            return ('agg', els, ty)
        if v == '<':
            els = []
            while not s.eat('>'):
                t = s.type(); els.append(s.value(t)); s.eat(',')
            return ('agg', els, ty)
        raise SyntaxError('value at %r %r' % (k, v))
    def tvalue(s):
        t = s.type(); return s.value(t)

class Instr:
    __slots__ = ('op', 'res', 'ty', 'a', 'flags', 'line')
    def __init__(s, op, res=None, ty=None, a=None, flags=()):
        s.op = op; s.res = res; s.ty = ty; s.a = a; s.flags = flags; s.line = ''

class Func:
    def __init__(s, name, ret, params, attrs_text):
        s.name = name; s.ret = ret; s.params = params; s.blocks = []; s.attrs = attrs_text
        s.vararg = False; s.param_info = []

class Module:
    def __init__(s):
        s.types = {}      # name -> Ty (struct or opaque)
        s.globals = {}    # name -> dict(ty, init, const, external)
        s.gorder = []
        s.funcs = {}      # name -> Func (defined)
        s.decls = {}      # name -> (ret, params, vararg)
        s.datalayout = ''
        s.attrgroups = {}
        s.aliases = {}

LINKAGE = {'private', 'internal', 'available_externally', 'linkonce', 'weak', 'common', 'appending', 'extern_weak',
           'linkonce_odr', 'weak_odr', 'external', 'dso_local', 'dso_preemptable', 'default', 'hidden', 'protected',
           'local_unnamed_addr', 'unnamed_addr', 'thread_local', 'dllimport', 'dllexport', 'externally_initialized'}
FASTMATH = {'fast', 'nnan', 'ninf', 'nsz', 'arcp', 'contract', 'afn', 'reassoc'}
CCONV = {'ccc', 'fastcc', 'coldcc', 'tailcc'}
BINOPS = {'add', 'sub', 'mul', 'udiv', 'sdiv', 'urem', 'srem', 'and', 'or', 'xor', 'shl', 'lshr', 'ashr',
          'fadd', 'fsub', 'fmul', 'fdiv', 'frem'}
CASTS = {'trunc', 'zext', 'sext', 'fptrunc', 'fpext', 'fptoui', 'fptosi', 'uitofp', 'sitofp', 'ptrtoint', 'inttoptr', 'bitcast', 'addrspacecast'}

def strip_trailing_md(toks):
    """drop ', !tbaa !3' style metadata attachments and trailing attr-group refs handled by caller"""
    out = []
    i = 0
    while i < len(toks):
        if toks[i][0] == 'md' and i > 0 and toks[i - 1][1] == ',':
            # remove the comma and metadata kind + node
            out.pop()
            i += 1
            if i < len(toks) and toks[i][0] == 'md': i += 1
            elif i < len(toks) and toks[i][1] == '!': i += 1
            continue
        out.append(toks[i]); i += 1
    return out

def parse_call_like(p, is_invoke):
    """after 'call'/'invoke' keyword. returns (retty, callee Val, fnty, args[(Val, info)], extra)"""
    while p.peek()[1] in FASTMATH or p.peek()[1] in CCONV or p.peek()[1] in ('tail', 'musttail', 'notail'): p.next()
    p.skip_param_attrs()
    rt = p.type()
    fnty = None
    if rt.k == 'ptr' and rt.el.k == 'func' and p.peek()[0] in ('gid', 'lid', 'word'):
        # full function pointer type given (varargs / indirect)
        pass
    # callee
    if rt.k == 'func':
        fnty = rt; rt = fnty.ret
    k, v = p.peek()
    if k == 'word' and v == 'asm':
        p.next()
        while p.peek()[1] in ('sideeffect', 'alignstack', 'inteldialect', 'unwind'): p.next()
        a = p.next()[1]; p.expect(','); c = p.next()[1]
        callee = ('asm', (a, c), None)
    else:
        callee = p.value(PTR(Ty('func', ret=rt, params=[])))
    p.expect('(')
    args = []
    while not p.eat(')'):
        t = p.type()
        info = p.skip_param_attrs()
        if t.k == 'metadata':
            # metadata argument (dbg intrinsics) -- skip tokens to next , or )
            depth = 0
            while True:
                k2, v2 = p.peek()
                if depth == 0 and v2 in (',', ')'): break
                if v2 in '([{': depth += 1
                if v2 in ')]}': depth -= 1
                p.next()
            args.append((('undef', None, t), info))
        else:
            args.append((p.value(t), info))
        p.eat(',')
    # trailing function attrs / attr group / operand bundles
    while p.peek()[0] in ('attr',) or (p.peek()[0] == 'word' and p.peek()[1] not in ('to', 'unwind')):
        p.next()
    if p.at('['):  # operand bundle
        depth = 0
        while True:
            v2 = p.next()[1]
            if v2 == '[': depth += 1
            if v2 == ']':
                depth -= 1
                if depth == 0: break
    extra = None
    if is_invoke:
        p.expect('to'); p.expect('label'); n = unq(p.next()[1]); p.expect('unwind'); p.expect('label'); u = unq(p.next()[1])
        extra = (n, u)
    return rt, callee, fnty, args, extra

def parse_instr(line, mod):
    toks = strip_trailing_md(tokenize(line))
    p = P(toks, mod)
    res = None
    if p.peek()[0] == 'lid' and p.peek(1)[1] == '=':
        res = unq(p.next()[1]); p.next()
    op = p.next()[1]
    I = Instr(op, res)
    I.line = line.strip()
    if op in BINOPS:
        fl = []
        while p.peek()[1] in ('nsw', 'nuw', 'exact') or p.peek()[1] in FASTMATH: fl.append(p.next()[1])
        t = p.type(); a = p.value(t); p.expect(','); b = p.value(t)
        I.ty = t; I.a = (a, b); I.flags = tuple(fl)
    elif op == 'fneg':
        while p.peek()[1] in FASTMATH: p.next()
        t = p.type(); I.ty = t; I.a = (p.value(t),)
    elif op in CASTS:
        t1 = p.type(); a = p.value(t1); p.expect('to'); t2 = p.type()
        I.ty = t2; I.a = (a,)
    elif op in ('icmp', 'fcmp'):
        while p.peek()[1] in FASTMATH: p.next()
        pred = p.next()[1]; t = p.type(); a = p.value(t); p.expect(','); b = p.value(t)
        I.ty = INT(1); I.a = (pred, a, b)
    elif op == 'alloca':
        p.eat('inalloca')
        t = p.type(); cnt = None; align = 0
        while p.eat(','):
            if p.eat('align'): align = int(p.next()[1])
            elif p.eat('addrspace'): p.expect('('); p.next(); p.expect(')')
            else:
                ct = p.type(); cnt = p.value(ct)
        I.ty = PTR(t); I.a = (t, cnt, align)
    elif op == 'load':
        p.eat('atomic'); vol = p.eat('volatile')
        t = p.type(); p.expect(','); pt = p.type(); ptr = p.value(pt)
        I.ty = t; I.a = (ptr, vol)
    elif op == 'store':
        p.eat('atomic'); vol = p.eat('volatile')
        t = p.type(); v = p.value(t); p.expect(','); pt = p.type(); ptr = p.value(pt)
        I.a = (v, ptr, vol)
    elif op == 'getelementptr':
        inb = p.eat('inbounds')
        bt = p.type(); p.expect(',')
        pt = p.type(); base = p.value(pt); idx = []
        while p.eat(','):
            p.eat('inrange')
            it = p.type(); idx.append(p.value(it))
        I.a = (bt, base, idx, inb); I.ty = None  # result type computed by translator
    elif op == 'phi':
        while p.peek()[1] in FASTMATH: p.next()
        t = p.type(); inc = []
        while True:
            p.expect('['); v = p.value(t); p.expect(','); lb = unq(p.next()[1]); p.expect(']')
            inc.append((v, lb))
            if not p.eat(','): break
        I.ty = t; I.a = inc
    elif op == 'select':
        while p.peek()[1] in FASTMATH: p.next()
        ct = p.type(); c = p.value(ct); p.expect(','); t1 = p.type(); a = p.value(t1); p.expect(','); t2 = p.type(); b = p.value(t2)
        I.ty = t1; I.a = (c, a, b)
    elif op == 'br':
        if p.eat('label'):
            I.a = (unq(p.next()[1]),)
        else:
            t = p.type(); c = p.value(t); p.expect(','); p.expect('label'); a = unq(p.next()[1]); p.expect(','); p.expect('label'); b = unq(p.next()[1])
            I.a = (c, a, b)
    elif op == 'switch':
        t = p.type(); v = p.value(t); p.expect(','); p.expect('label'); d = unq(p.next()[1]); p.expect('[')
        cases = []
        while not p.eat(']'):
            ct = p.type(); cv = p.value(ct); p.expect(','); p.expect('label'); cases.append((cv, unq(p.next()[1])))
        I.a = (v, d, cases)
    elif op == 'ret':
        t = p.type()
        I.a = (None,) if t.k == 'void' else (p.value(t),)
        I.ty = t
    elif op == 'unreachable':
        pass
    elif op in ('call', 'invoke', 'tail', 'musttail', 'notail'):
        if op in ('tail', 'musttail', 'notail'): p.expect('call'); op = I.op = 'call'
        rt, callee, fnty, args, extra = parse_call_like(p, op == 'invoke')
        I.ty = rt; I.a = (callee, fnty, args, extra)
    elif op == 'landingpad':
        t = p.type(); cleanup = False; clauses = []
        while not p.eof():
            if p.eat('cleanup'): cleanup = True
            elif p.eat('catch'):
                ct = p.type(); clauses.append(('catch', p.value(ct)))
            elif p.eat('filter'):
                ct = p.type(); clauses.append(('filter', p.value(ct)))
            else: break
        I.ty = t; I.a = (cleanup, clauses)
    elif op == 'resume':
        t = p.type(); I.a = (p.value(t),)
    elif op == 'extractvalue':
        t = p.type(); v = p.value(t); idx = []
        while p.eat(','): idx.append(int(p.next()[1]))
        I.a = (v, idx); I.ty = None
    elif op == 'insertvalue':
        t = p.type(); v = p.value(t); p.expect(','); t2 = p.type(); e = p.value(t2); idx = []
        while p.eat(','): idx.append(int(p.next()[1]))
        I.a = (v, e, idx); I.ty = t
    elif op == 'freeze':
        t = p.type(); I.ty = t; I.a = (p.value(t),)
    elif op in ('extractelement', 'insertelement', 'shufflevector'):
        raise SyntaxError('vector op survives scalarizer: ' + line)
    elif op in ('fence',):
        I.op = 'nop'
    elif op in ('atomicrmw', 'cmpxchg'):
        # parsed generically: atomicrmw [volatile] op T* ptr, T val ordering
        p.eat('weak'); p.eat('volatile')
        if op == 'atomicrmw':
            sub = p.next()[1]; pt = p.type(); ptr = p.value(pt); p.expect(','); t = p.type(); v = p.value(t)
            I.ty = t; I.a = (sub, ptr, v)
        else:
            pt = p.type(); ptr = p.value(pt); p.expect(','); t = p.type(); c = p.value(t); p.expect(','); t2 = p.type(); n = p.value(t2)
            I.ty = Ty('struct', fields=[t, INT(1)]); I.a = (ptr, c, n)
    else:
        raise SyntaxError('unknown instruction %s in %s' % (op, line))
    return I

def parse_module(text):
    mod = Module()
    lines = text.split('\n')
    i = 0; n = len(lines)
    cur = None; curblock = None
    while i < n:
        line = lines[i]; i += 1
        s = line.strip()
        if not s or s.startswith(';'):
            continue
        if cur is not None:
            if s == '}':
                cur = None; curblock = None; continue
            m = re.match(r'^([-a-zA-Z$._0-9]+|"(?:[^"\\]|\\.)*"):', s)
            if m and not re.match(r'^\s', line):
                lab = m.group(1)
                if lab.startswith('"'): lab = unq('%' + lab)
                curblock = (lab, [])
                cur.blocks.append(curblock); continue
            # switch spans multiple lines
            if re.match(r'switch ', s) and not s.rstrip().endswith(']'):
                while not lines[i - 1].strip().endswith(']'):
                    s += ' ' + lines[i].strip(); i += 1
            # landingpad clauses on following lines
            if ' landingpad ' in ' ' + s:
                while i < n and re.match(r'^\s+(cleanup|catch |filter )', lines[i]):
                    s += ' ' + lines[i].strip(); i += 1
            if re.search(r'(^|= )invoke ', s) and ' unwind label ' not in s:
                s += ' ' + lines[i].strip(); i += 1
            if curblock is None:
                # entry block label = number of params (implicit)
                curblock = (str(cur._entry), []); cur.blocks.append(curblock)
            curblock[1].append(parse_instr(s, mod))
            continue
        if s.startswith('target datalayout'):
            mod.datalayout = s.split('"')[1]; continue
        if s.startswith('target ') or s.startswith('source_filename') or s.startswith('!') or s.startswith('module asm'):
            continue
        if s.startswith('attributes #'):
            m = re.match(r'attributes (#\d+) = \{(.*)\}', s); mod.attrgroups[m.group(1)] = m.group(2); continue
        if s.startswith('$'): continue  # comdat
        if s.startswith('%'):
            toks = tokenize(s); p = P(toks, mod)
            name = unq(p.next()[1]); p.expect('='); p.expect('type')
            mod.types[name] = p.type(); continue
        if s.startswith('@'):
            toks = strip_trailing_md(tokenize(s)); p = P(toks, mod)
            name = unq(p.next()[1]); p.expect('=')
            external = False
            while p.peek()[0] == 'word' and p.peek()[1] in LINKAGE:
                if p.next()[1] in ('external', 'extern_weak'): external = True
            if p.peek()[1] == 'thread_local': p.next()
            if p.peek()[1] == 'alias':
                p.next(); t = p.type(); p.expect(','); tv = p.tvalue(); mod.aliases[name] = tv; continue
            if p.at('addrspace'): p.next(); p.expect('('); p.next(); p.expect(')')
            while p.peek()[0] == 'word' and p.peek()[1] in LINKAGE: p.next()
            kind = p.next()[1]  # global | constant
            t = p.type(); init = None
            if not external and not p.eof() and not p.at(','):
                init = p.value(t)
            mod.globals[name] = dict(ty=t, init=init, const=(kind == 'constant'), external=external)
            mod.gorder.append(name); continue
        if s.startswith('declare') or s.startswith('define'):
            isdef = s.startswith('define')
            toks = tokenize(s); p = P(toks, mod); p.next()
            while p.peek()[0] == 'word' and (p.peek()[1] in LINKAGE or p.peek()[1] in CCONV): p.next()
            p.skip_param_attrs()
            rt = p.type()
            name = unq(p.next()[1]); p.expect('(')
            params = []; pinfo = []; va = False; idx = 0
            while not p.eat(')'):
                if p.eat('...'): va = True; continue
                t = p.type(); info = p.skip_param_attrs()
                pn = None
                if p.peek()[0] == 'lid': pn = unq(p.next()[1])
                elif isdef: pn = str(idx)
                idx += 1
                params.append((t, pn)); pinfo.append(info); p.eat(',')
            rest = ' '.join(v for k, v in toks[p.i:])
            if isdef:
                f = Func(name, rt, params, rest); f.vararg = va; f.param_info = pinfo
                f._entry = idx
                mod.funcs[name] = f; cur = f; curblock = None
            else:
                mod.decls[name] = (rt, [t for t, _ in params], va, rest)
            continue
        raise SyntaxError('top-level: ' + s[:100])
    return mod

if __name__ == '__main__':
    m = parse_module(open(sys.argv[1]).read())
    print(len(m.funcs), 'functions', len(m.decls), 'decls', len(m.globals), 'globals', len(m.types), 'types')
