#!/bin/bash
# builds /repo (no verification guard defined anywhere) in a scratch directory and runs the pinned test suite
set -e
B=$(mktemp -d /var/tmp/psbase.XXXXXX)
trap 'rm -rf "$B"' EXIT
cmake -G Ninja -S /repo -B "$B" -DCMAKE_BUILD_TYPE=RelWithDebInfo -DCMAKE_CXX_FLAGS=-Wno-error > "$B/cmake.log" 2>&1 || { tail -20 "$B/cmake.log"; exit 1; }
cmake --build "$B" > "$B/build.log" 2>&1 || { tail -40 "$B/build.log"; exit 1; }
ctest --test-dir "$B" -j8 --timeout 900
