#!/bin/bash
# builds /repo (no verification guard defined anywhere) in a scratch directory and runs the pinned test suite
set -e
B=$(mktemp -d /var/tmp/psbase.XXXXXX)
trap 'rm -rf "$B"' EXIT
cmake -G Ninja -S /repo -B "$B" -DCMAKE_BUILD_TYPE=RelWithDebInfo -DCMAKE_CXX_FLAGS=-Wno-error > "$B/cmake.log" 2>&1 || { tail -20 "$B/cmake.log"; exit 1; }
# the C wrapper library fails -Werror on the pinned tree too (volatile register asm); the test binaries do not need it
cmake --build "$B" -- -k 0 > "$B/build.log" 2>&1 || true
for t in photospline-test photospline-test-templated photospline-test-fit; do [ -x "$B/$t" ] || { echo "test binary $t was not built"; grep -n "error" "$B/build.log" | head; exit 1; }; done
ctest --test-dir "$B" -j8 --timeout 900
