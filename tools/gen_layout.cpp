// prints the member offsets of photospline::splinetable<> as seen by the C++ compiler, so that the C
// harnesses' mirror struct is checked against the real class on every run.
#include <cstddef>
#include <cstdio>
#include <algorithm>
#include <cassert>
#include <memory>
#include <numeric>
#include <sstream>
#include <vector>
#include <string>
#include <cstdlib>
#include <iostream>
#include <random>
#include <chrono>
#include <stdexcept>
#define private public
#include "photospline/splinetable.h"
#undef private
typedef photospline::splinetable<> ST;
#define O(m) printf("#define PS_OFF_%s %zu\n", #m, (size_t)((char*)&t->m - (char*)t))
int main(){
  ST* t = (ST*)malloc(sizeof(ST));
  O(ndim); O(order); O(knots); O(nknots); O(extents); O(periods); O(coefficients); O(naxes); O(strides); O(naux); O(aux); O(allocator);
  printf("#define PS_SIZEOF_TABLE %zu\n", sizeof(ST));
  printf("#define PS_MAXDIM %d\n", PHOTOSPLINE_MAXDIM);
  return 0;
}
