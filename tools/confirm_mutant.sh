#!/bin/bash
# usage: confirm_mutant.sh <id> <worktree>   -- confirms a seeded change: compiles, existing tests pass with it, demo fails with / passes without
P=$1; W=$2; O=/var/tmp/psprobe/confirm_$P; mkdir -p $O
( cd $W && git diff --stat | tail -1 ) > $O/log.txt
cmake --build $W/_build -- -k 0 > $O/build.log 2>&1
ctest --test-dir $W/_build -j8 --timeout 900 > $O/ctest.log 2>&1; echo "ctest_rc=$?" >> $O/log.txt
grep -E "tests passed|tests failed" $O/ctest.log >> $O/log.txt
EXTRA=""; grep -q "fsanitize" $W/_mutant/notes.txt && EXTRA="-fsanitize=address,undefined -g -UNDEBUG"
g++ -std=c++17 -O1 -msse4.2 -w $EXTRA -DPHOTOSPLINE_INCLUDES_SPGLAM -I$W/include -I/usr/include/suitesparse $W/_mutant/demo.cpp $W/src/core/*.cpp -lcfitsio -o $O/demo_mut > $O/demo_build.log 2>&1
(cd $O && timeout 300 ./demo_mut > demo_mut.out 2>&1; echo "demo_with_change_rc=$?" >> log.txt)
g++ -std=c++17 -O1 -msse4.2 -w $EXTRA -DPHOTOSPLINE_INCLUDES_SPGLAM -I/repo/include -I/usr/include/suitesparse $W/_mutant/demo.cpp /repo/src/core/*.cpp -lcfitsio -o $O/demo_orig >> $O/demo_build.log 2>&1
(cd $O && timeout 300 ./demo_orig > demo_orig.out 2>&1; echo "demo_without_change_rc=$?" >> log.txt)
cat $O/log.txt
