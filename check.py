#!/usr/bin/env python3
"""Entry point: check.py <Cxx> [--tier quick|thorough] [--replay file]"""
import sys, os, argparse, importlib, traceback
HERE = os.path.dirname(os.path.abspath(__file__))
sys.path.insert(0, os.path.join(HERE, 'lib')); sys.path.insert(0, os.path.join(HERE, 'checks')); sys.path.insert(0, os.path.join(HERE, 'tools'))
def main():
    ap = argparse.ArgumentParser()
    ap.add_argument('prop'); ap.add_argument('--tier', default=os.environ.get('VERIF_TIER', 'quick')); ap.add_argument('--replay')
    a = ap.parse_args()
    mod = importlib.import_module(a.prop.lower())
    from common import CheckError
    try:
        if a.replay: rc = mod.replay(a.replay)
        else: rc = mod.run_check(a.tier)
    except CheckError as e:
        print('CHECK-ERROR: ' + str(e)[:3000]); rc = 2
    sys.exit(rc)
if __name__ == '__main__': main()
