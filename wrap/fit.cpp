// extern "C" entry points for fit / grideval (containers built from raw arrays)
#include <algorithm>
#include <cassert>
#include <memory>
#include <numeric>
#include <sstream>
#include <vector>
#include <string>
#include <cstdlib>
#include <iostream>
#include <random>
#include <chrono>
#include <stdexcept>
#define private public
#include "photospline/splinetable.h"
#undef private
typedef photospline::splinetable<> ST;
#define W extern "C" __attribute__((noinline))
// vector-based fit: every container length is an explicit argument so that mismatches can be expressed
W void w_fit(ST* t, const ::ndsparse* data, const double* weights, size_t nweights, const double* const* coords, const size_t* ncoords, size_t ncoordvecs,
             const uint32_t* orders, size_t norders, const double* const* knots, const size_t* nknots, size_t nknotvecs,
             const double* smoothing, size_t nsmoothing, const uint32_t* porder, size_t nporder, uint32_t monodim){
  std::vector<double> w(weights, weights + nweights), sm(smoothing, smoothing + nsmoothing);
  std::vector<std::vector<double>> cv, kv;
  for (size_t i = 0; i < ncoordvecs; i++) cv.emplace_back(coords[i], coords[i] + ncoords[i]);
  for (size_t i = 0; i < nknotvecs; i++) kv.emplace_back(knots[i], knots[i] + nknots[i]);
  std::vector<uint32_t> ov(orders, orders + norders), pv(porder, porder + nporder);
  t->fit(*data, w, cv, ov, kv, sm, pv, monodim, false);
}
W ::ndsparse* w_grideval(const ST* t, const double* const* coords, const size_t* ncoords, size_t ncoordvecs){
  std::vector<std::vector<double>> cv;
  for (size_t i = 0; i < ncoordvecs; i++) cv.emplace_back(coords[i], coords[i] + ncoords[i]);
  return t->grideval(cv).release();
}
W void w_ndsparse_delete(photospline::ndsparse* nd){ delete nd; }
W void w_destroy(ST* t){ t->~ST(); }
