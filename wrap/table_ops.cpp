// extern "C" entry points for whole-table operations (permute, convolve, lifecycle)
#include <algorithm>
#include <cassert>
#include <memory>
#include <numeric>
#include <sstream>
#include <vector>
#include <string>
#include <cstdlib>
#include <iostream>
#include <random>
#include <chrono>
#include <stdexcept>
#define private public
#include "photospline/splinetable.h"
#undef private
typedef photospline::splinetable<> ST;
#define W extern "C" __attribute__((noinline))
W void w_permute(ST* t, const size_t* p, size_t n){ std::vector<size_t> v(p, p + n); t->permuteDimensions(v); }
W void w_convolve(ST* t, uint32_t dim, const double* knots, size_t n){ t->convolve(dim, knots, n); }
W void w_destroy(ST* t){ t->~ST(); }
W void w_move_construct(ST* dst, ST* src){ new (dst) ST(std::move(*src)); }
W void w_move_assign(ST* dst, ST* src){ *dst = std::move(*src); }
W int w_equal(const ST* a, const ST* b){ return *a == *b; }
W void w_default_construct(ST* t){ new (t) ST(); }
