// extern "C" entry points instantiating the evaluation templates of the real headers.
#include <algorithm>
#include <cassert>
#include <memory>
#include <numeric>
#include <sstream>
#include <vector>
#include <string>
#include <cstdlib>
#include <iostream>
#include <random>
#include <chrono>
#include <stdexcept>
#define private public
#include "photospline/splinetable.h"
#undef private

typedef photospline::splinetable<> ST;
#define W extern "C" __attribute__((noinline))

W int w_searchcenters(const ST* t, const double* x, int* centers){ return t->searchcenters(x,centers); }
W double w_eval_f(const ST* t, const double* x, const int* c, int d){ return t->ndsplineeval<float>(x,c,d); }
W double w_eval_d(const ST* t, const double* x, const int* c, int d){ return t->ndsplineeval<double>(x,c,d); }
W double w_call(const ST* t, const double* x){ return (*t)(x); }
W double w_deriv(const ST* t, const double* x, const int* c, const unsigned* d){ return t->ndsplineeval_deriv(x,c,d); }
W void w_grad_f(const ST* t, const double* x, const int* c, double* out){ t->ndsplineeval_gradient<float>(x,c,out); }
W void w_grad_d(const ST* t, const double* x, const int* c, double* out){ t->ndsplineeval_gradient<double>(x,c,out); }

// evaluator object paths
W int w_ev_searchcenters_f(const ST* t, const double* x, int* centers){ auto e=t->get_evaluator<float>(); return e.searchcenters(x,centers); }
W double w_ev_eval_f(const ST* t, const double* x, const int* c, int d){ auto e=t->get_evaluator<float>(); return e.ndsplineeval(x,c,d); }
W double w_ev_eval_d(const ST* t, const double* x, const int* c, int d){ auto e=t->get_evaluator<double>(); return e.ndsplineeval(x,c,d); }
W double w_ev_call_f(const ST* t, const double* x, int d){ auto e=t->get_evaluator<float>(); return e(x,d); }
W double w_ev_call_d(const ST* t, const double* x, int d){ auto e=t->get_evaluator<double>(); return e(x,d); }
W double w_ev_deriv_f(const ST* t, const double* x, const int* c, const unsigned* d){ auto e=t->get_evaluator<float>(); return e.ndsplineeval_deriv(x,c,d); }
W double w_ev_deriv_d(const ST* t, const double* x, const int* c, const unsigned* d){ auto e=t->get_evaluator<double>(); return e.ndsplineeval_deriv(x,c,d); }
W void w_ev_grad_f(const ST* t, const double* x, const int* c, double* out){ auto e=t->get_evaluator<float>(); e.ndsplineeval_gradient(x,c,out); }
W void w_ev_grad_d(const ST* t, const double* x, const int* c, double* out){ auto e=t->get_evaluator<double>(); e.ndsplineeval_gradient(x,c,out); }

// univariate kernels
W void w_bsplvb_simple_f(const double* k, unsigned nk, double x, int left, int degree, float* out){ photospline::bsplvb_simple<float>(k,nk,x,left,degree,out); }
W void w_bsplvb_simple_d(const double* k, unsigned nk, double x, int left, int degree, double* out){ photospline::bsplvb_simple<double>(k,nk,x,left,degree,out); }
W void w_bspline_deriv_nonzero_f(const double* k, unsigned nk, double x, int left, int n, float* out){ photospline::bspline_deriv_nonzero<float>(k,nk,x,left,n,out); }
W void w_bspline_nonzero_f(const double* k, unsigned nk, double x, int left, int n, float* v, float* d){ photospline::bspline_nonzero<float>(k,nk,x,left,n,v,d); }
W void w_bspline_nonzero_d(const double* k, unsigned nk, double x, int left, int n, double* v, double* d){ photospline::bspline_nonzero<double>(k,nk,x,left,n,v,d); }
W double w_bspline_deriv(const double* k, double x, int i, int n, unsigned order){ return photospline::bspline_deriv(k,x,i,n,order); }
W double w_bspline(const double* k, double x, int i, int n){ return photospline::bspline(k,x,i,n); }
