// extern "C" entry points for FITS serialisation
#include <algorithm>
#include <cassert>
#include <memory>
#include <numeric>
#include <sstream>
#include <vector>
#include <string>
#include <cstdlib>
#include <iostream>
#include <random>
#include <chrono>
#include <stdexcept>
#define private public
#include "photospline/splinetable.h"
#undef private
typedef photospline::splinetable<> ST;
#define W extern "C" __attribute__((noinline))
W void w_write_fits(const ST* t, const char* path){ t->write_fits(path); }
W int w_read_fits(ST* t, const char* path){ return t->read_fits(path); }
W void* w_write_fits_mem(const ST* t, size_t* size){ auto r = t->write_fits_mem(); *size = r.second; return r.first; }
W int w_read_fits_mem(ST* t, void* buf, size_t n){ return t->read_fits_mem(buf, n); }
W int w_equal(const ST* a, const ST* b){ return *a == *b; }
W void w_destroy(ST* t){ t->~ST(); }
W void w_construct_path(ST* t, const char* path){ new (t) ST(std::string(path)); }
W size_t w_estimate_memory(const char* path, uint32_t nconv, uint32_t convdim){ return ST::estimateMemory(path, nconv, convdim); }
