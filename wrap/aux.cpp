// extern "C" entry points for the auxiliary key store
#include <algorithm>
#include <cassert>
#include <memory>
#include <numeric>
#include <sstream>
#include <vector>
#include <string>
#include <cstdlib>
#include <iostream>
#include <random>
#include <chrono>
#include <stdexcept>
#define private public
#include "photospline/splinetable.h"
#undef private
typedef photospline::splinetable<> ST;
#define W extern "C" __attribute__((noinline))
W const char* w_get_aux_value(const ST* t, const char* key){ return t->get_aux_value(key); }
W int w_write_key_str(ST* t, const char* key, const char* value){ return t->write_key(key, value); }
W int w_write_key_int(ST* t, const char* key, int value){ return t->write_key(key, value); }
W int w_write_key_double(ST* t, const char* key, double value){ return t->write_key(key, value); }
W int w_read_key_int(const ST* t, const char* key, int* out){ return t->read_key(key, *out); }
W int w_read_key_double(const ST* t, const char* key, double* out){ return t->read_key(key, *out); }
W int w_read_key_str(const ST* t, const char* key, char* out, size_t cap){ std::string s; bool r = t->read_key(key, s); if (r) { size_t n = std::min(cap - 1, s.size()); memcpy(out, s.data(), n); out[n] = 0; } return r; }
W int w_reserved(const char* key){ return photospline::reservedFitsKeyword(key); }
#ifdef WITH_REMOVE_KEY
W int w_remove_key(ST* t, const char* key){ return t->remove_key(key); }
#endif
// micro entry points used to validate the stream model in isolation
W int w_stream_str(const char* v, char* out, size_t cap){ std::ostringstream ss; ss << v; if (ss.fail()) return 0; std::string s = ss.str(); size_t n = std::min(cap - 1, s.size()); memcpy(out, s.data(), n); out[n] = 0; return (int)s.size(); }
W int w_stream_parse_int(const char* v, int* out){ std::istringstream ss(v); ss >> *out; return !ss.fail(); }
