// C19: a table whose allocator reports every request to the harness (vm_tab_alloc / vm_tab_free), as extern "C" entry points
#include <algorithm>
#include <cassert>
#include <memory>
#include <numeric>
#include <sstream>
#include <vector>
#include <string>
#include <cstdlib>
#include <cstring>
#include <iostream>
#include <random>
#include <chrono>
#include <stdexcept>
#define private public
#include "photospline/splinetable.h"
#undef private
extern "C" void* vm_tab_alloc(size_t bytes);
extern "C" void vm_tab_free(void* p, size_t bytes);
template<typename T> struct CountingAlloc {
  typedef T value_type;
  CountingAlloc() {}
  template<typename U> CountingAlloc(const CountingAlloc<U>&) {}
  T* allocate(size_t n){ return static_cast<T*>(vm_tab_alloc(n * sizeof(T))); }
  void deallocate(T* p, size_t n){ vm_tab_free(p, n * sizeof(T)); }
  template<typename U> struct rebind { typedef CountingAlloc<U> other; };
  template<typename U> bool operator==(const CountingAlloc<U>&) const { return true; }
  template<typename U> bool operator!=(const CountingAlloc<U>&) const { return false; }
};
template<> struct CountingAlloc<void> {
  typedef void value_type;
  CountingAlloc() {}
  template<typename U> CountingAlloc(const CountingAlloc<U>&) {}
  template<typename U> struct rebind { typedef CountingAlloc<U> other; };
};
typedef photospline::splinetable<CountingAlloc<void>> CT;
#define W extern "C" __attribute__((noinline))
W void e_construct(CT* t, const char* path){ new (t) CT(std::string(path)); }
W void e_convolve(CT* t, uint32_t dim, const double* knots, size_t n){ t->convolve(dim, knots, n); }
W void e_destroy(CT* t){ t->~CT(); }
W size_t e_estimate(const char* path, uint32_t nconv, uint32_t dim){ return CT::estimateMemory(path, nconv, dim); }
W size_t e_sizeof(void){ return sizeof(CT); }
