// C++ twins of the C interface (C18): the operation each C wrapper claims to forward to, as extern "C" entry points
#include <algorithm>
#include <cassert>
#include <memory>
#include <numeric>
#include <sstream>
#include <vector>
#include <string>
#include <cstdlib>
#include <cstring>
#include <iostream>
#include <random>
#include <chrono>
#include <stdexcept>
#define private public
#include "photospline/splinetable.h"
#undef private
typedef photospline::splinetable<> ST;
#define W extern "C" __attribute__((noinline))
W void* t_write_fits_mem(const ST* t, size_t* size){ auto r = t->write_fits_mem(); *size = r.second; return r.first; }
W int t_read_fits_mem(ST* t, void* buf, size_t n){ return t->read_fits_mem(buf, n); }
W void t_write_fits(const ST* t, const char* path){ t->write_fits(path); }
W void t_construct_path(ST* t, const char* path){ new (t) ST(std::string(path)); }
W void t_default_construct(ST* t){ new (t) ST(); }
W void t_destroy(ST* t){ t->~ST(); }
W int t_equal(const ST* a, const ST* b){ return *a == *b; }
W const char* t_get_aux_value(const ST* t, const char* key){ return t->get_aux_value(key); }
W int t_read_key_int(const ST* t, const char* key, int* out){ return t->read_key(key, *out); }
W int t_write_key_int(ST* t, const char* key, int value){ return t->write_key(key, value); }
W void t_permute(ST* t, const size_t* p, size_t n){ std::vector<size_t> v(p, p + n); t->permuteDimensions(v); }
W void t_convolve(ST* t, uint32_t dim, const double* knots, size_t n){ t->convolve(dim, knots, n); }
W int t_searchcenters(const ST* t, const double* x, int* centers){ return t->searchcenters(x, centers); }
W double t_eval(const ST* t, const double* x, const int* centers, int derivatives){ return t->ndsplineeval(x, centers, derivatives); }
W void t_gradient(const ST* t, const double* x, const int* centers, double* out){ t->ndsplineeval_gradient(x, centers, out); }
W int t_read_fits(ST* t, const char* path){ return t->read_fits(path); }
W void t_move_construct(ST* dst, ST* src){ new (dst) ST(std::move(*src)); }
W void t_move_assign(ST* dst, ST* src){ *dst = std::move(*src); }
W int t_remove_key(ST* t, const char* key){ return t->remove_key(key); }
W int t_write_key_str(ST* t, const char* key, const char* value){ return t->write_key(key, value); }
W int t_ndim(const ST* t){ return t->get_ndim(); }
