"""C07 -- reading any bytes either fails cleanly or yields a well-formed table (E2: the IR-derived reader on container-model files
that an independent writer produced and that were then edited: header cards, resized / dropped extensions, unsorted knots,
foreign images; plus C20's single-fault reads)."""
from checklib import *
import c20

VARIANTS = ['none', 'order_big', 'order_plus1', 'order_missing', 'naxis_small', 'naxis_large', 'knots_missing', 'knots_short', 'knots_long', 'knots_unsorted', 'knots_nan', 'knots_nan_first', 'knots_ninf_first', 'knots_pinf_last', 'extents_short', 'extents_long', 'foreign', 'naxis0']
def build_cases(tier):
    shapes = [([1, 0], [1, 1], 1)] if tier == 'quick' else [([1, 0], [1, 1], 1), ([2], [2], 0), ([0, 1, 2], [1, 0, 1], 2)]
    return [c20.case('C07', 'corrupt:' + v, o, e, a) for (o, e, a) in shapes for v in VARIANTS]

def run_check(tier):
    out = Outcome('C07', tier)
    cases = build_cases(tier) + [c20.case('C07', 'readfaults', [1], [1], 1)]
    c20.evaluate(out, 'C07', cases)
    out.cov['bounds'] = dict(variants=VARIANTS, shapes=sorted({tuple(c[2]['orders']) for c in cases}),
                             after_a_failed_read='the table is empty, reusable (read_fits again succeeds), destructible, ledger balanced, FITS handle closed',
                             after_a_successful_read='per dimension naxes == nknots - order - 1 >= order + 1, knots finite and non-decreasing, strides and coefficient count match the image; comparison and re-serialisation do not crash',
                             symbolic='coefficients uninterpreted; knots concrete rationals (sortedness is decided concretely)')
    out.assumptions = ['files are container-model files: byte-level corruption inside cards or data units surfaces inside cfitsio, which is not encoded (the replay edits real files with real cfitsio)',
                       'memory safety of evaluation on a returned table follows from its well-formedness and C05 (which proves evaluation safe on exactly sized, consistent tables); it is not re-proved here',
                       'NaN and infinite knots are literal constants that can only be compared; BITPIX variants are not covered', 'src/tools/eval.cpp and the inspect tool are not encoded']
    return out.finish()

replay = c20.replay
