"""C03 -- evaluation result is independent of the evaluation path selected
(E2 with the UF domain: every path must build the identical term over uninterpreted float operations)."""
import random, hashlib
from checklib import *
import evalkit, e2, e2cases
from e2cases import Table, CaseSet, knot_family, regions_1d, cover_tuples, fr

PAIRS_SCALAR = [('eval_f', 'ev_eval_f'), ('eval_d', 'ev_eval_d'), ('eval_f', 'call'), ('eval_f', 'ev_call_f'), ('eval_d', 'ev_call_d'), ('eval_f', 'c_eval')]
PAIRS_GRAD = [('grad_f', 'ev_grad_f'), ('grad_d', 'ev_grad_d'), ('grad_f', 'c_grad'), ('grad_f', 'eval_f'), ('grad_d', 'eval_d'), ('ev_grad_f', 'ev_eval_f')]
PAIRS_DERIV = [('deriv', 'ev_deriv_f'), ('deriv', 'c_deriv')]

def patterns(tier):
    pats = []
    dmax = 6 if tier == 'quick' else 9
    for D in range(1, dmax + 1):
        pats.append([2] * D); pats.append([3] * D)
        for k in (0, 1): pats.append([k] * D)
        for k in (4, 5):
            if D <= (2 if tier == 'quick' else 3): pats.append([k] * D)
    pats += [[2, 2, 2, 3, 2, 2], [2, 2, 2, 5, 2, 2], [1, 3, 2], [2, 0, 3, 1]]
    if tier != 'quick': pats += [[2, 3, 2, 3, 2, 3, 2], [1, 2, 1, 2, 1, 2, 1, 2], [3, 2, 2, 2, 2, 2, 2, 2, 2]]
    # keep the native run bounded: at most ~70k products per path
    out = []
    for p in pats:
        n = 1
        for o in p: n *= (o + 1)
        if n <= (20000 if tier == 'quick' else 300000): out.append(p)
    return out

def build_cases(tier, seed=SEED):
    rng = random.Random(seed + 3); sets = []
    for pat in patterns(tier):
        D = len(pat)
        for extra in ((0, 2) if D <= 3 else (0,) if tier == 'quick' else (0, 1)):
            kn = [knot_family('irregular', 2 * o + 2 + (extra if d % 2 == 0 else 0), o, rng) for d, o in enumerate(pat)]
            t = Table(pat, kn); cs = CaseSet(t, 'c03_%s_e%d' % (t.tag(), extra))
            per = []
            for d in range(D):
                regs = regions_1d(kn[d]); o = pat[d]; nk = len(kn[d]); na = nk - o - 1
                # boundary classes: lower margin, lower boundary center, interior, upper boundary center, upper margin, a knot
                cls = {}
                for r in regs:
                    key = ('knot' if r[0] == 'k' else 'lowmargin' if r[1] < o else 'upmargin' if r[1] >= na else 'first' if r[1] == o else 'last' if r[1] == na - 1 else 'interior')
                    cls.setdefault(key, []).append(r)
                per.append([rng.choice(v) for v in cls.values()])
            tuples = cover_tuples(per, rng, n_extra=1) if tier == 'quick' or D > 3 else [tuple(x) for x in __import__('itertools').product(*per)][:400]
            if D >= 5 and tier == 'quick': tuples = tuples[:3]
            for i, tup in enumerate(tuples):
                masks = [0, rng.randrange(1, 1 << D)]
                for a, b in PAIRS_SCALAR:
                    for m in (masks if (a, b) in PAIRS_SCALAR[:2] else [0]):
                        if b in ('call', 'ev_call_f', 'c_eval') and m: continue
                        if i % 2 and (a, b) not in PAIRS_SCALAR[:2]: continue
                        cs.add('pair', a, list(tup), mask=m, uf=True, entry2=b)
                for a, b in (PAIRS_GRAD if D <= 7 else []):        # the gradient refuses 8-D and 9-D tables by exception (C05 / C18)
                    if i % 2 and (a, b) not in PAIRS_GRAD[:2]: continue
                    cs.add('pair', a, list(tup), uf=True, entry2=b)
                dv = [rng.randrange(0, o + 2) for o in pat]
                for a, b in PAIRS_DERIV: cs.add('pair', a, list(tup), derivs=dv, uf=True, entry2=b)
            sets.append(cs)
    return sets

def pair_spec(case):
    t = case['table']; lines = ['nd %d' % t.nd]
    for d in range(t.nd): lines.append('dim %d order %d knots %s' % (d, t.orders[d], ' '.join(fr(k) for k in t.knots[d])))
    lines += ['entry ' + case['entry'], 'entry2 ' + case['entry2'], 'mask %d' % case['mask']]
    if case['derivs']: lines.append('derivs ' + ','.join(map(str, case['derivs'])))
    lines.append('region ' + ' '.join('%s%d' % r for r in case['regions']))
    return '\n'.join(lines) + '\n'

def replay_pair_binary(defines=()):
    def build():
        d = scratch()
        srcs = [REPO + '/src/core/bspline.cpp', REPO + '/src/core/fitsio.cpp', REPO + '/src/core/convolve.cpp', REPO + '/src/cinter/splinetable.cpp',
                REPO + '/src/fitter/glam.c', REPO + '/src/fitter/splineutil.c', REPO + '/src/fitter/cholesky_solve.c', REPO + '/src/fitter/nnls.c']
        ref = build_ref_objects('rpp', srcs)
        out = os.path.join(d, 'replay_pair' + ''.join(defines))
        run(['g++'] + GXX_FLAGS + ['-D' + x for x in defines] + ['-I' + VERIF + '/harness', VERIF + '/harness/replay_pair.cpp', '-o', out] + ref +
            ['-lcfitsio', '-lcholmod', '-lspqr', '-lsuitesparseconfig', '-llapack', '-lblas', '-lpthread', '-lm'])
        return out
    return once(('replay_pair',) + tuple(defines), build)

def run_config(out, sets, budget, eval_defines, tag):
    binary, m = e2.build_harness(tag=tag, eval_defines=eval_defines, cinter=True)
    def runset(cs): return cs, e2.run_cases(binary, cs.text(), tag + '_' + cs.name)
    ran = pmap(runset, sets)
    allcases = {}; dm = []
    for cs, (d, man) in ran:
        allcases.update(cs.cases); dm.append((d, man))
        for e in man:
            if e['kind'] == 'error': out.errors.append('[%s] %s: %s' % (tag, e['case'], e['msg']))
            if e['kind'] == 'poison': out.errors.append('[%s] %s: result depends on uninitialised memory' % (tag, e['case']))
    res = e2.discharge(dm, budget)
    groups = {}
    for q in res:
        if q['kind'] == 'witness': continue
        out.cov['obligations'] += 1; out.cov['solver_time_s'] += q['wall']
        if q.get('cvc5') and q['cvc5'] in ('sat', 'unsat') and q['cvc5'] != q['verdict']: out.errors.append('z3/cvc5 disagree on ' + q['label'])
        if q['verdict'] == 'unsat': out.cov['discharged'] += 1
        elif q['verdict'] == 'sat':
            c = allcases[q['case']]
            groups.setdefault((c['entry'], c['entry2'], tuple(c['table'].orders)), []).append(q)
        else: out.errors.append('[%s] %s: solver answered %s' % (tag, q['label'], q['verdict']))
    todo = [(g, qs[0]) for g, qs in groups.items()]
    def tri(gq):
        g, q = gq; spec = pair_spec(allcases[q['case']])
        path = os.path.join(VERIF, 'replay', 'C03-%s.spec' % hashlib.sha1((spec + tag).encode()).hexdigest()[:10])
        os.makedirs(os.path.dirname(path), exist_ok=True); open(path, 'w').write(spec)
        r = run([replay_pair_binary(eval_defines), path], check=False, timeout=300)
        return path, r['rc'] == 3, (r['out'] + r['err'])[-400:]
    for (g, q), (path, rep, log) in zip(todo, pmap(tri, todo)):
        what = '%s and %s build different float terms for orders %s (%s build); %d obligation(s)' % (g[0], g[1], list(g[2]), tag, len(groups[g]))
        sig = 'C03:%s~%s:orders=%s:%s' % (g[0], g[1], '-'.join(map(str, g[2])), tag)
        if rep: out.add_violation(sig, what + '; bit difference reproduced on the real build', path, log)
        else: out.errors.append(what + '; but no bit difference found on the real build in 3000 trials (%s) -- term identity is sufficient, not necessary' % path)
    return res, allcases, m

def run_check(tier):
    out = Outcome('C03', tier)
    compared, mism, vstat = evalkit.validate_translation()
    sets = build_cases(tier)
    budget = 60 if tier == 'quick' else 300
    res1, cases1, m1 = run_config(out, sets, budget, (), 'templated')
    res2, cases2, m2 = run_config(out, sets if tier != 'quick' else sets[::2], budget, ('PHOTOSPLINE_NO_EVAL_TEMPLATES',), 'notemplates')
    out.cov['queries'] = len(res1) + len(res2); out.cov['e2_cases'] = len(cases1) + len(cases2)
    out.cov['functions_encoded'] = sorted(set(m1['translated']) | set(m2['translated']))
    out.cov['samples'] = [dict(label=q['label'], verdict=q['verdict'], nodes=q.get('nodes'), wall_s=round(q['wall'], 3)) for q in (res1[:4] + res2[:2])] + \
                         [dict(case=k, entry=v['entry'], entry2=v['entry2'], regions=v['regions'], mask=v['mask'], orders=v['table'].orders) for k, v in list(cases1.items())[:4]]
    out.cov['bounds'] = dict(order_patterns=sorted({tuple(c['table'].orders) for c in cases1.values()}), builds=['default (templated cores)', 'PHOTOSPLINE_NO_EVAL_TEMPLATES'],
                             pairs=PAIRS_SCALAR + PAIRS_GRAD + PAIRS_DERIV, symbolic='all coordinates (per region), coefficients, padding: uninterpreted float operations (QF_UF), so the verdict holds for every float semantics')
    out.cov['translator_validation'] = dict(compared=compared, mismatches=mism, status=vstat)
    if vstat != 'ok' and not out.violations: out.errors.append('translator validation inconclusive: ' + vstat)
    out.cov['checker_cmd'] = 'z3 -T:%d q_*.smt2 (QF_UF; sample re-run on cvc5)' % budget
    out.cov['trusted_base'] = ['clang-14 IR (validated vs g++ build)', 'ir2c.py', 'rt_sym.cpp UF mode (commutative fadd/fmul, x-(+0)=x)', 'z3 / cvc5']
    out.assumptions = ['term identity is a sufficient condition for bit identity; a term difference is only reported when a bit difference is reproduced on the real build',
                       'index configurations (centers, strides) are concrete samples of the boundary classes', 'compilers that reassociate float arithmetic (-ffast-math) are outside']
    return out.finish()

def replay(path):
    r = run([replay_pair_binary(), path], check=False, timeout=300)
    print(r['out'] + r['err'])
    return 1 if r['rc'] != 0 else 0
