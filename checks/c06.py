"""C06 -- FITS serialisation round-trips every table, in the documented layout
(E2: IR-derived writer/reader on the validated cfitsio container model, payloads uninterpreted variables)."""
import random, glob
from checklib import *
import evalkit, e2

MODELS = ['/rt/rt_common.c', '/models/stdcxx.c', '/models/alloc_plain.c', '/models/streams.c', '/models/cfitsio_model.c', '/models/libc_stubs.c']
def fits_ir(): return once('fits_ir', lambda: build_ir('fits', [VERIF + '/wrap/fits.cpp', REPO + '/src/core/fitsio.cpp']))
def stream_layout():
    def build():
        d = scratch(); run(['g++', '-std=c++17', VERIF + '/tools/gen_stream_layout.cpp', '-o', d + '/gsl'])
        r = run([d + '/gsl'], check=False)
        if r['rc'] != 0: raise CheckError('libstdc++ stream layout differs from the model: ' + r['err'])
        open(d + '/stream_layout.h', 'w').write(r['out']); return d + '/stream_layout.h'
    return once('stream_layout', build)

def build_objs(tag, define):
    d = scratch(); evalkit.layout_header(); stream_layout()
    c = os.path.join(d, 'fits_%s.c' % tag); m = ir2c(fits_ir(), c, ['/^w_/'])
    objs = []
    for src in [c] + [VERIF + x for x in MODELS]:
        o = os.path.join(d, 'fits%s.%s.o' % (tag, os.path.basename(src)))
        run(['gcc', '-fwrapv', '-falign-functions=16', '-O1', '-D' + define, '-I' + VERIF + '/rt', '-I' + VERIF + '/models', '-I' + d, '-c', src, '-o', o]); objs.append(o)
    return objs, m

def build_harness():
    def build():
        d = scratch(); objs, m = build_objs('sym', 'VR_SYM')
        o = os.path.join(d, 'fits.rt_sym.o'); run(['g++', '-std=c++17', '-O2', '-I' + VERIF + '/rt', '-c', VERIF + '/rt/rt_sym.cpp', '-o', o])
        out = os.path.join(d, 'e2_fits')
        run(['g++', '-std=c++17', '-O1', '-DVR_SYM', '-I' + VERIF + '/rt', '-I' + VERIF + '/harness', '-I' + VERIF + '/models', '-I' + d, VERIF + '/harness/e2_fits.cpp', '-o', out] + objs + [o, '-lgmpxx', '-lgmp', '-lm'])
        return out, m
    return once('fits_harness', build)

def validate():
    """model + translation vs real cfitsio: cards, pixels, readers (incl. shipped files)"""
    def build():
        d = scratch(); objs, m = build_objs('val', 'VR_IEEE')
        ref = build_ref_objects('fitsref', [REPO + '/src/core/bspline.cpp', REPO + '/src/core/fitsio.cpp', REPO + '/src/core/convolve.cpp'])
        out = os.path.join(d, 'val_fits')
        run(['g++'] + GXX_FLAGS + ['-DVR_IEEE', '-I' + VERIF + '/harness', '-I' + VERIF + '/models', '-I' + VERIF + '/rt', VERIF + '/harness/val_fits.cpp', '-o', out] + objs + ref + ['-lcfitsio', '-lm'])
        r = run([out, str(SEED)] + sorted(glob.glob(REPO + '/test/test_data/*.fits')), check=False, timeout=300)
        mm = re.search(r'VALIDATION compared=(\d+) mismatches=(\d+)', r['out'])
        if r['timeout'] or r['rc'] < 0: return (0, 0, 'real build did not finish the validation run')
        if not mm or r['rc'] != 0: raise CheckError('cfitsio model / FITS translator validation failed (generated code on the model disagrees with the real library on real cfitsio):\n' + r['out'][-1500:] + r['err'][-500:])
        return (int(mm.group(1)), int(mm.group(2)), 'ok')
    return once('fits_validate', build)

AUX = [('A', 'v'), ('KEY1', 'hello~world'), ('LONGKEY8', ''), ('UNITS', 'a~value~of~some~length~0123456789'), ('Z9', '12'), ('HIERLONGKEY', 'x')]
def build_cases(tier, faults=False, seed=SEED):
    rng = random.Random(seed + 6); cases = []
    shapes = [([1], [1]), ([2], [0]), ([0], [2]), ([1, 2], [0, 1]), ([2, 0], [1, 1]), ([0, 1, 2], [1, 0, 0])]
    if tier != 'quick': shapes += [([3, 1], [2, 0]), ([5], [3]), ([1, 1, 1, 1], [0, 1, 2, 0]), ([2, 1, 0, 1, 2], [0, 0, 1, 0, 0]), ([1] * 6, [0, 1, 0, 2, 0, 1]), ([0] * 9, [1 - d if d % 2 else 2 - d for d in range(9)])]     # 9-D with axes of 2 and 3 coefficients (the d-dependent default would give 2.3 million coefficients)
    if faults: shapes = shapes[:4] if tier == 'quick' else shapes[:8]
    for si, (orders, extras) in enumerate(shapes):
        for periods in (0, 1):
            for mem in ((0, 1) if not faults else (0,)):
                if faults and periods and si % 2: continue
                naux = (si + periods + mem) % 4 if not faults else si % 2
                name = 'c%s_s%d_p%d_m%d' % ('08' if faults else '06', si, periods, mem)
                txt = 'fits %s nd %d periods %d mem %d%s\n' % (name, len(orders), periods, mem, ' faults' if faults else '')
                for d, (o, e) in enumerate(zip(orders, extras)): txt += 'dim %d order %d nknots %d\n' % (d, o, 2 * o + 2 + e + d)   # pairwise different axis lengths
                for k, v in rng.sample(AUX, naux): txt += 'aux %s|%s\n' % (k, v)
                cases.append((name, txt + 'end\n', dict(orders=orders)))
    return cases

def evaluate(out, pid, cases, budget=20):
    binary, m = build_harness()
    ran = pmap(lambda c: e2.run_cases(binary, c[1], c[0]), cases)
    errs = {}
    for d, man in ran:
        for e in man:
            if e['kind'] == 'error': errs.setdefault(e['case'], e['msg'])
    res = e2.discharge(ran, budget, cvc5_fraction=0.01)
    fails = {}
    for q in res:
        if q['kind'] == 'witness': continue
        out.cov['obligations'] += 1; out.cov['solver_time_s'] += q['wall']
        if q['verdict'] == 'unsat': out.cov['discharged'] += 1
        elif q['verdict'] == 'sat': fails.setdefault(re.sub(r'^\S+ ', '', q['label']), []).append(q)
        else: out.errors.append('%s: solver answered %s' % (q['label'], q['verdict']))
    for cid, msg in errs.items(): fails.setdefault('symbolic run aborted: ' + msg, []).append(dict(case=cid, label=cid))
    out.cov['queries'] = len(res); out.cov['e2_cases'] = len(cases); out.cov['functions_encoded'] = m['translated']
    out.cov['samples'] = [dict(label=q['label'], verdict=q['verdict']) for q in res[:8]] + [cases[0][1][:300]]
    return res, fails

def replay_binary():
    def build():
        d = scratch(); ref = build_ref_objects('rpfits', [REPO + '/src/core/bspline.cpp', REPO + '/src/core/fitsio.cpp', REPO + '/src/core/convolve.cpp'])
        out = os.path.join(d, 'replay_fits'); run(['g++'] + GXX_FLAGS + ['-I' + VERIF + '/harness', VERIF + '/harness/replay_fits.cpp', '-o', out] + ref + ['-lcfitsio', '-lm']); return out
    return once('replay_fits', build)

def triage(out, pid, cases, fails):
    import hashlib
    meta = {c[0]: c for c in cases}
    for what, qs in fails.items():
        cid = qs[0]['case']; spec = meta[cid][1] + 'what %s\n' % what
        path = os.path.join(VERIF, 'replay', '%s-%s.spec' % (pid, hashlib.sha1(spec.encode()).hexdigest()[:10])); os.makedirs(os.path.dirname(path), exist_ok=True); open(path, 'w').write(spec)
        r = run([replay_binary(), path], check=False, timeout=120)
        rep = r['rc'] == 3 or r['rc'] < 0 or r['timeout']
        gen = re.sub(r'#\d+ of \d+', '#k', re.sub(r'#\d+:', '#k:', what))
        sig = '%s:%s' % (pid, re.sub(r'[^A-Za-z0-9=_#\[\]() -]', '', gen)[:90])
        msg = '"%s" fails (%d obligation(s), first case %s)' % (what, len(qs), cid)
        if rep: out.add_violation(sig, msg, path, (r['out'] + r['err'])[-500:])
        else: out.errors.append(msg + ' -- not reproduced on the real build with real cfitsio (%s): %s' % (path, (r['out'] + r['err'])[-200:].replace('\n', ' ')))

def run_check(tier):
    out = Outcome('C06', tier)
    compared, mism, vstat = validate()
    cases = build_cases(tier)
    res, fails = evaluate(out, 'C06', cases)
    triage(out, 'C06', cases, fails)
    out.cov['bounds'] = dict(shapes=sorted({tuple(c[2]['orders']) for c in cases}), axis_lengths='pairwise different', periods='present / absent', back_ends='disk path and memory buffer', aux_keys='0..3 concrete key/value strings incl. empty, blank-containing, long, HIERARCH-length',
                             layouts_read='library writer; independent writer: standard, no EXTENTS, reversed extension order, single ORDER card', symbolic='every coefficient, knot (incl. padding), extent and period is an uninterpreted variable, so NaN/inf/-0/denormal patterns are covered')
    out.cov['translator_validation'] = dict(compared=compared, mismatches=mism, status=vstat, what='generated writer/reader on the container model vs real library on real cfitsio: cards, pixels, loaded tables, shipped reference files')
    if vstat != 'ok' and not out.violations: out.errors.append('validation inconclusive: ' + vstat)
    out.cov['checker_cmd'] = 'z3 -in -t:20000 (QF_UF obligations batched)'
    out.cov['trusted_base'] = ['clang-14 IR', 'ir2c.py', 'rt_sym.cpp', 'models/cfitsio_model.c and models/streams.c (validated against libcfitsio / libstdc++ every run)', 'z3']
    out.assumptions = ["cfitsio's byte encoding of cards and pixels is trusted (checked differentially on sampled tables and the shipped files)", 'copying code is data-independent: distinct payload variables stand for all bit patterns', 'auxiliary key/value strings are concrete samples; quote-containing values are excluded here (see C16)']
    return out.finish()

def replay(path):
    r = run([replay_binary(), path], check=False, timeout=120); print(r['out'] + r['err']); return 1 if r['rc'] != 0 else 0
