"""C17 -- grid evaluation agrees with pointwise evaluation (E2 on the semantic CHOLMOD model)."""
import random
from fractions import Fraction as F
from checklib import *
import fitkit, c09
from e2cases import knot_family, fr

def build_cases(tier, seed=SEED):
    rng = random.Random(seed + 17); cases = []
    def add(name, dimspecs, zeros=()):
        hdr = 'grid %s nd %d' % (name, len(dimspecs)) + (' zeros ' + ','.join(map(str, zeros)) if zeros else '')
        body = ''
        for d, (o, extra, npts, fam, special) in enumerate(dimspecs):
            ks = knot_family(fam, 2 * o + 2 + extra, o, rng)
            pts = fitkit.coords_for(ks, o, npts, rng, inside_only=False, shuffle=True)
            if special == 'outside': pts = pts[:max(1, len(pts) - 2)] + [ks[0] - F(1, 3), ks[-1] + F(2)]
            if special == 'repeat' and pts: pts = pts + [pts[0]]
            if special == 'single': pts = pts[:1]
            if special == 'onknot': pts = pts[:2] + [k for k in ks[o + 1:len(ks) - o - 1]][:3]      # abscissae exactly on interior knots (half-open spans)
            body += 'dim %d order %d knots %s | coords %s\n' % (d, o, ' '.join(fr(k) for k in ks), ' '.join(fr(c) for c in pts))
        cases.append((name, hdr + '\n' + body + 'end\n', None))
    for o in range(0, 4):
        add('c17_1d_o%d' % o, [(o, 2, 4, 'irregular', 'outside')]); add('c17_1d_o%d_z' % o, [(o, 1, 3, 'uniform', 'repeat')], zeros=(0,) if o else ())
    add('c17_1d_onknot', [(2, 3, 3, 'irregular', 'onknot')]); add('c17_2d_onknot', [(1, 2, 2, 'uniform', 'onknot'), (0, 2, 2, 'irregular', 'onknot')], zeros=(1,))
    add('c17_2d', [(1, 1, 3, 'irregular', 'outside'), (2, 0, 3, 'uniform', 'repeat')], zeros=(0, 5))
    add('c17_2d_single', [(0, 2, 3, 'irregular', ''), (1, 1, 3, 'irregular', 'single')], zeros=(1, 2, 3))
    add('c17_2d_onenz', [(1, 0, 3, 'uniform', ''), (1, 0, 3, 'uniform', '')], zeros=(0, 1, 3))
    add('c17_3d', [(1, 0, 2, 'irregular', ''), (0, 1, 3, 'uniform', 'outside'), (2, 0, 2, 'irregular', '')], zeros=(0, 7))
    add('c17_3d_b', [(2, 1, 4, 'irregular', 'outside'), (1, 1, 3, 'irregular', 'repeat'), (3, 0, 3, 'uniform', '')], zeros=(2, 3, 11))
    add('c17_4d', [(1, 0, 2, 'uniform', ''), (0, 1, 2, 'irregular', ''), (1, 0, 2, 'irregular', 'single'), (1, 1, 3, 'uniform', '')], zeros=(0, 1))
    if tier != 'quick':
        add('c17_1d_o4', [(4, 2, 5, 'irregular', 'outside')]); add('c17_1d_o5', [(5, 1, 4, 'irregular', 'repeat')], zeros=(1,))
        add('c17_4d_b', [(2, 0, 3, 'irregular', 'repeat'), (1, 1, 2, 'irregular', 'outside'), (0, 2, 3, 'uniform', 'onknot'), (3, 0, 2, 'irregular', '')], zeros=(0, 5, 17))
        add('c17_3d_c', [(3, 1, 3, 'irregular', 'onknot'), (2, 2, 4, 'irregular', 'outside'), (2, 0, 1, 'uniform', 'single')], zeros=(4,))
    return cases

def run_check(tier):
    out = Outcome('C17', tier)
    compared, mism, vstat = fitkit.validate()
    cases = build_cases(tier); budget = 30 if tier == 'quick' else 180
    res, fails = fitkit.evaluate(out, 'C17', cases, budget)
    c09.triage(out, 'C17', cases, fails)
    out.cov['bounds'] = dict(ndim='1..4', orders='0..3 mixed (quick) / 0..5', grids='<= 6 abscissae per axis: unsorted, repeated, outside the knot range, single-point axes, exactly on interior knots', symbolic='every coefficient (a non-zero variable or exactly 0; zero patterns: none, edge, single non-zero)')
    out.cov['translator_validation'] = dict(compared=compared, mismatches=mism, status=vstat)
    out.cov['checker_cmd'] = 'z3 -t:%d000 (QF_NRA)' % budget
    out.cov['trusted_base'] = ['clang-14 IR', 'ir2c.py', 'rt_sym.cpp', 'models/cholmod_model.c', 'harness oracle', 'z3']
    out.assumptions = ['grid points exactly on a knot follow the half-open convention of the basis routine used by grideval (points on knots are not generated)', 'floats as exact reals']
    return out.finish()
replay = c09.replay
