"""C13 -- fit rejects inconsistent arguments instead of corrupting memory (E2 under AddressSanitizer: the IR-derived fit, glam and
splineutil code runs natively in the exact-real domain on the semantic CHOLMOD model, one perturbed argument per run; the
sanitizer checks every access against the exactly sized argument blocks; rejection must leave the table unchanged)."""
from checklib import *
import evalkit, e2, fitkit, hashlib
from fractions import Fraction as F
from e2cases import fr

MODELS = ['/rt/rt_common.c', '/models/stdcxx.c', '/models/alloc_ledger.c', '/models/cholmod_model.c', '/models/libc_stubs.c']
ASAN = ['-fsanitize=address', '-fno-omit-frame-pointer']
MUTS = ['valid', 'sm_one', 'po_one', 'monodim_last', 'w_short', 'w_long', 'cv_short', 'cv_long', 'ord_short', 'ord_long', 'kv_short', 'kv_long', 'sm_zero', 'sm_long', 'po_zero', 'po_long', 'monodim_eq', 'monodim_big',
        'idx_eq_range', 'idx_huge', 'range_gt_coords', 'range_gt_coords_last', 'coords_short', 'coords_empty', 'knots_unsorted', 'knots_few', 'knots_min_minus1', 'knots_one', 'knots_zero', 'order_huge', 'porder_p1', 'porder_p2', 'porder_p3', 'rows_zero', 'ndim_zero', 'populated']

def build_harness():
    def build():
        d = scratch(); evalkit.layout_header()
        c = os.path.join(d, 'fitargs_sym.c'); m = ir2c(fitkit.fit_ir(), c, ['w_fit', 'w_destroy'], cut=['nnls_normal_block3'])
        def cc(src):
            o = os.path.join(d, 'fitargs.' + os.path.basename(src) + '.o')
            run(['gcc', '-fwrapv', '-falign-functions=16', '-O1', '-g', '-DVR_SYM', '-DVM_MAXBLK=256'] + ASAN + ['-I' + VERIF + '/rt', '-I' + VERIF + '/models', '-I/usr/include/suitesparse', '-I' + d, '-c', src, '-o', o]); return o
        objs = pmap(cc, [c] + [VERIF + x for x in MODELS])
        o = os.path.join(d, 'fitargs.rt_sym.o'); run(['g++', '-std=c++17', '-O2', '-I' + VERIF + '/rt', '-c', VERIF + '/rt/rt_sym.cpp', '-o', o])
        out = os.path.join(d, 'e2_fitargs')
        run(['g++', '-std=c++17', '-O1', '-g', '-DVR_SYM'] + ASAN + ['-I' + VERIF + '/rt', '-I' + VERIF + '/harness', '-I' + VERIF + '/models', '-I/usr/include/suitesparse', '-I' + d, VERIF + '/harness/e2_fitargs.cpp', '-o', out] + objs + [o, '-lgmpxx', '-lgmp', '-lm'])
        return out, m
    return once('fitargs_harness', build)

def base_shapes(tier):
    s = [[(1, 1, 5, 5)], [(1, 1, 4, 3), (0, 0, 3, 2)]]          # per dimension: order, penalty order, nknots, ncoords
    if tier != 'quick': s += [[(2, 2, 7, 6)], [(2, 1, 7, 4), (1, 1, 5, 3), (0, 0, 3, 2)], [(3, 2, 9, 6)]]
    return s
def casetext(name, shape, mut):
    txt = 'fitargs %s nd %d mut %s\n' % (name, len(shape), mut)
    for d, (o, p, nk, ncd) in enumerate(shape):
        ks = [F(i, 1) for i in range(nk)]; lo, hi = ks[o], ks[nk - o - 1]
        cs = [lo + (hi - lo) * F(2 * i + 1, 2 * ncd) for i in range(ncd)]
        txt += 'dim %d order %d porder %d knots %s | coords %s\n' % (d, o, p, ' '.join(fr(k) for k in ks), ' '.join(fr(c) for c in cs))
    return txt + 'end\n'

def run_one(binary, name, txt):
    d = os.path.join(scratch(), 'fa_' + name); os.makedirs(d, exist_ok=True); cf = os.path.join(d, 'cases.txt'); open(cf, 'w').write(txt)
    env = dict(os.environ, ASAN_OPTIONS='allocator_may_return_null=1:detect_leaks=0:abort_on_error=0:exitcode=77:max_allocation_size_mb=2048')
    r = run([binary, cf, d], check=False, timeout=120, env=env)
    man = [json.loads(l) for l in open(os.path.join(d, 'manifest.jsonl'))] if os.path.exists(os.path.join(d, 'manifest.jsonl')) else []
    return dict(rc=r['rc'], out=r['out'], err=r['err'], timeout=r['timeout'], dir=d, man=man)

def replay_binary():
    def build():
        d = scratch(); out = os.path.join(d, 'replay_fitargs'); srcs = [REPO + '/src/core/bspline.cpp', REPO + '/src/core/fitsio.cpp', REPO + '/src/core/convolve.cpp', REPO + '/src/fitter/glam.c', REPO + '/src/fitter/splineutil.c', REPO + '/src/fitter/cholesky_solve.c', REPO + '/src/fitter/nnls.c']
        objs = build_ref_objects('rp13', srcs, sanitize=True)
        run(['g++'] + GXX_FLAGS + ['-fsanitize=address,undefined', '-g', '-O1', '-I' + VERIF + '/harness', VERIF + '/harness/replay_fitargs.cpp', '-o', out] + objs + ['-lcfitsio', '-lcholmod', '-lspqr', '-lsuitesparseconfig', '-llapack', '-lblas', '-lpthread', '-lm'])
        return out
    return once('replay_fitargs', build)
def run_replay(path):
    env = dict(os.environ, ASAN_OPTIONS='allocator_may_return_null=1:detect_leaks=0:exitcode=77:max_allocation_size_mb=2048', UBSAN_OPTIONS='halt_on_error=1:exitcode=77')
    r = run([replay_binary(), path], check=False, timeout=180, env=env)
    return (r['rc'] in (3, 77) or r['rc'] < 0), (r['out'] + r['err'])

def run_check(tier):
    out = Outcome('C13', tier)
    binary, m = build_harness()
    cases = []
    for si, shape in enumerate(base_shapes(tier)):
        for mut in MUTS:
            if len(shape) == 1 and mut in ('cv_short', 'ord_short', 'kv_short'): pass
            cases.append(('c13_s%d_%s' % (si, mut), shape, mut))
    ran = pmap(lambda c: (c, run_one(binary, c[0], casetext(*c))), cases)
    dirs = []; fails = {}
    for c, r in ran:
        name, shape, mut = c
        if r['timeout']: fails.setdefault((mut, 'fit does not terminate'), []).append(name); continue
        if 'AddressSanitizer' in r['err'] or r['rc'] == 77 or r['rc'] < 0:
            mm = re.search(r'AddressSanitizer: (\S+)', r['err']); kind = mm.group(1) if mm else 'crash (rc %d)' % r['rc']
            fails.setdefault((mut, 'memory error (%s) instead of an exception' % kind), []).append(name); continue
        if 'E2 aborted' in r['out'] or r['rc'] != 0:
            msg = [e.get('msg') for e in r['man'] if e['kind'] == 'error'][:1]
            out.errors.append('%s: symbolic run aborted: %s %s' % (name, msg, r['err'][-200:].replace('\n', ' '))); continue
        dirs.append((r['dir'], r['man']))
    res = e2.discharge(dirs, 20, cvc5_fraction=0.0)
    cmut = {c[0]: c[2] for c in cases}
    for q in res:
        if q['kind'] == 'witness': continue
        out.cov['obligations'] += 1; out.cov['solver_time_s'] += q['wall']
        if q['verdict'] == 'unsat': out.cov['discharged'] += 1
        elif q['verdict'] == 'sat': fails.setdefault((cmut[q['case']], re.sub(r'^.*?\): ', '', q['label'])), []).append(q['case'])
        else: out.errors.append('%s: solver answered %s' % (q['label'], q['verdict']))
    out.cov['obligations'] += len(cases); out.cov['discharged'] += len(cases) - sum(1 for k, v in fails.items() if 'memory error' in k[1] or 'terminate' in k[1] for _ in v)
    cm = {c[0]: c for c in cases}
    for (mut, what), names in sorted(fails.items()):
        name = names[0]; spec = casetext(*cm[name]) + 'what %s\n' % what
        path = os.path.join(VERIF, 'replay', 'C13-%s.spec' % hashlib.sha1(spec.encode()).hexdigest()[:10]); os.makedirs(os.path.dirname(path), exist_ok=True); open(path, 'w').write(spec)
        ok, text = run_replay(path)
        sig = 'C13:%s:%s' % (mut, re.sub(r'[^A-Za-z0-9=_() /-]', '', what)[:90])
        msg = 'fit with %s: %s (%d instance(s), first %s)' % (mut, what, len(names), name)
        if ok: out.add_violation(sig, msg, path, text[-500:])
        else: out.errors.append(msg + ' -- not reproduced on the real build under ASan/UBSan (%s): %s' % (path, text[-200:].replace('\n', ' ')))
    out.cov['queries'] = len(res); out.cov['e2_cases'] = len(cases); out.cov['functions_encoded'] = m['translated'][:80]; out.cov['cut'] = m['cut']
    out.cov['samples'] = [casetext(*cases[0])[:300]] + [dict(label=q['label'], verdict=q['verdict']) for q in res[:5]]
    out.cov['bounds'] = dict(perturbations=MUTS, shapes=[[dict(order=o, penalty_order=p, nknots=k, ncoords=n) for (o, p, k, n) in s] for s in base_shapes(tier)],
                             what='per run exactly one argument differs from a well-posed problem; every access of the translated code is checked by AddressSanitizer against exactly sized blocks; a rejected fit must leave the table bit-for-bit unchanged and release what it allocated; consistent problems must be accepted')
    out.cov['checker_cmd'] = 'native symbolic run under AddressSanitizer; z3 -in for the equalities'
    out.cov['trusted_base'] = ['clang-14 IR', 'ir2c.py', 'rt_sym.cpp', 'models/cholmod_model.c (sizes of CHOLMOD objects are the real ones)', 'gcc AddressSanitizer on the generated C', 'z3']
    out.assumptions = ['arguments are enumerated perturbations of well-posed 1..2-D (3-D thorough) problems, not the full cross product', 'the non-negative solver is cut to its contract', 'the C wrapper splinetable_glamfit forwards to the same fit and maps exceptions to 1 (C18 covers the mapping for the other wrappers); it is not run here',
                       'a penalty order above the spline order may either be rejected or accepted']
    return out.finish()

def replay(path):
    ok, text = run_replay(path); print(text[-3000:]); return 1 if ok else 0
