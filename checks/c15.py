"""C15 -- permuting dimensions relabels axes without changing the function
(E2: native run of the IR-derived permuteDimensions over uninterpreted payloads; one obligation per relocated item)."""
import itertools, random
from checklib import *
import evalkit, e2

def shapes(tier):
    # pairwise different axis lengths (naxes = nknots-order-1), different orders
    base = {1: [(2, 7)], 2: [(1, 5), (2, 8)], 3: [(0, 3), (2, 8), (1, 6)], 4: [(0, 3), (1, 6), (2, 6), (3, 9)], 5: [(0, 3), (1, 5), (2, 8), (0, 2), (1, 4)],
            6: [(0, 2), (1, 5), (0, 3), (2, 9), (1, 4), (0, 5)]}
    return base

def build_casefile(tier, seed=SEED):
    rng = random.Random(seed + 15); files = []
    sh = shapes(tier)
    for nd in range(1, 7):
        dims = sh[nd]
        hdr = 'table nd %d\n' % nd + ''.join('dim %d order %d nknots %d\n' % (d, o, k) for d, (o, k) in enumerate(dims))
        perms = list(itertools.permutations(range(nd)))
        if nd == 6: perms = rng.sample(perms, 40 if tier == 'quick' else 240)
        if nd == 5 and tier == 'quick': perms = rng.sample(perms, 40)
        lines = []
        for i, p in enumerate(perms):
            lines.append('perm p%d_%d%s %s' % (nd, i, ' periods' if i % 2 == 0 else '', ' '.join(map(str, p))))
        # malformed arguments: wrong length, duplicate, out of range, huge, empty
        bad = [list(range(nd))[:-1], list(range(nd)) + [0], [0] * nd if nd > 1 else [1], list(range(nd - 1)) + [nd], list(range(nd - 1)) + [2 ** 63], []]
        if nd > 2: bad += [[1, 1] + list(range(2, nd)), [nd - 1] + list(range(1, nd))]
        for i, b in enumerate(bad):
            if len(b) == nd and sorted(b) == list(range(nd)): continue
            lines.append('perm bad%d_%d periods %s' % (nd, i, ' '.join(map(str, b))))
        # split into chunks so harness runs go parallel
        for c in range(0, len(lines), 30): files.append(('c15_nd%d_%d' % (nd, c), hdr + '\n'.join(lines[c:c + 30]) + '\n', nd))
    return files

def build_harness():
    def build():
        d = scratch(); evalkit.layout_header()
        ll = build_ir('tops', [VERIF + '/wrap/table_ops.cpp', REPO + '/src/core/convolve.cpp'])
        c = os.path.join(d, 'tops_sym.c'); m = ir2c(ll, c, ['w_permute'])
        objs = []
        for src in [c, VERIF + '/rt/rt_common.c', VERIF + '/models/stdcxx.c', VERIF + '/models/alloc_ledger.c']:
            o = os.path.join(d, 'c15.' + os.path.basename(src) + '.o')
            run(['gcc', '-fwrapv', '-falign-functions=16', '-O1', '-DVR_SYM', '-DVM_MAXBLK=64', '-I' + VERIF + '/rt', '-I' + VERIF + '/models', '-I' + d, '-c', src, '-o', o]); objs.append(o)
        o = os.path.join(d, 'c15.rt_sym.o'); run(['g++', '-std=c++17', '-O2', '-I' + VERIF + '/rt', '-c', VERIF + '/rt/rt_sym.cpp', '-o', o])
        out = os.path.join(d, 'e2_permute')
        run(['g++', '-std=c++17', '-O1', '-DVR_SYM', '-I' + VERIF + '/rt', '-I' + VERIF + '/harness', '-I' + VERIF + '/models', '-I' + d, VERIF + '/harness/e2_permute.cpp', '-o', out] + objs + [o, '-lgmpxx', '-lgmp', '-lm'])
        return out, m
    return once('c15_harness', build)

def run_check(tier):
    out = Outcome('C15', tier)
    binary, m = build_harness()
    files = build_casefile(tier)
    crashed = []
    def runfile(f):
        try: return e2.run_cases(binary, f[1], f[0])
        except CheckError as e:
            # the native symbolic run died (heap corruption by the code under test shows up later than the faulty write):
            # decided by running the same permutations on the real build under AddressSanitizer
            if 'rc=-' in str(e): crashed.append((f, str(e))); return None
            raise
    ran = [r for r in pmap(runfile, files) if r is not None]
    for f, msg in crashed:
        hdr = ''.join(x + '\n' for x in f[1].split('\n') if x.startswith(('table', 'dim'))); hit = None
        for l in [x for x in f[1].split('\n') if x.startswith('perm ')][:12]:
            spec = hdr + l + '\n'; import hashlib
            path = os.path.join(VERIF, 'replay', 'C15-%s.spec' % hashlib.sha1(spec.encode()).hexdigest()[:10]); os.makedirs(os.path.dirname(path), exist_ok=True); open(path, 'w').write(spec)
            r = run([replay_binary(), path], check=False, timeout=60, env=dict(os.environ, ASAN_OPTIONS='detect_leaks=0:exitcode=77'))
            if r['rc'] in (3, 77) or r['rc'] < 0: hit = (path, l, (r['out'] + r['err'])[-600:]); break
            os.remove(path)
        if hit: out.add_violation('C15:crash:nd%d' % f[2], 'permuteDimensions corrupts memory or produces a wrong table for "%s" (%d-D): the symbolic run crashed and the real build fails under AddressSanitizer' % (hit[1], f[2]), hit[0], hit[2])
        else: out.errors.append('symbolic run of %s crashed (%s) and no permutation of that file fails on the real build' % (f[0], msg[-120:]))
    for d, man in ran:
        for e in man:
            if e['kind'] == 'error': out.errors.append('%s: %s' % (e['case'], e['msg']))
    res = e2.discharge(ran, 20, cvc5_fraction=0.01)
    groups = {}
    for q in res:
        if q['kind'] == 'witness': continue
        out.cov['obligations'] += 1; out.cov['solver_time_s'] += q['wall']
        if q['verdict'] == 'unsat': out.cov['discharged'] += 1
        elif q['verdict'] == 'sat':
            what = re.sub(r'^\S+ ', '', q['label'])
            groups.setdefault(what, []).append(q)
        else: out.errors.append('%s: solver answered %s' % (q['label'], q['verdict']))
    for what, qs in groups.items():
        q = qs[0]
        # replay: the case line itself, run against the real library by replay_permute
        path, rep, log = replay_case(q['case'], ran)
        sig = 'C15:' + re.sub(r'[^A-Za-z0-9=\[\]_ -]', '', what)
        if rep: out.add_violation(sig, 'permuteDimensions: "%s" fails (%d obligation(s), first case %s)' % (what, len(qs), q['case']), path, log)
        else: out.errors.append('obligation "%s" fails symbolically (%s) but the replay on the real build does not show it: %s' % (what, q['case'], log[-200:]))
    out.cov['queries'] = len(res); out.cov['e2_cases'] = sum(f[1].count('\nperm ') + f[1].startswith('perm ') for f in files)
    out.cov['functions_encoded'] = m['translated']
    out.cov['samples'] = [dict(label=q['label'], verdict=q['verdict']) for q in res[:8]] + [files[0][1][:300]]
    out.cov['bounds'] = dict(ndim='1..6', permutations='all for ndim<=4 (quick: 40 sampled at 5 and 6; thorough: all 120 at 5, 240 at 6)', malformed='wrong length, duplicate, out of range, huge, empty',
                             payloads='every coefficient / extent / period a distinct uninterpreted variable; integer attributes distinct concrete values (copying code is data-independent)')
    out.cov['checker_cmd'] = 'z3 -in -t:20000 (QF_UF obligations batched per process)'
    out.cov['trusted_base'] = ['clang-14 IR', 'ir2c.py', 'rt_sym.cpp', 'models/alloc_ledger.c', 'z3']
    out.assumptions = ['data independence of copying code: distinct payload values stand for all values', 'std::vector / unique_ptr storage through operator new/delete is modelled by the ledger allocator']
    return out.finish()

def replay_binary():
    def build():
        d = scratch()
        ref = build_ref_objects('rp15', [REPO + '/src/core/bspline.cpp', REPO + '/src/core/fitsio.cpp', REPO + '/src/core/convolve.cpp'], sanitize=True)
        out = os.path.join(d, 'replay_permute')
        run(['g++'] + GXX_FLAGS + ['-fsanitize=address,undefined', '-g', '-O1', '-I' + VERIF + '/harness', VERIF + '/harness/replay_permute.cpp', '-o', out] + ref + ['-lcfitsio', '-lm'])
        return out
    return once('replay_permute', build)

def replay_case(case_id, ran):
    import hashlib
    for d, man in ran:
        txt = open(os.path.join(d, 'cases.txt')).read()
        for l in txt.split('\n'):
            if l.startswith('perm %s ' % case_id) or l == 'perm %s' % case_id:
                hdr = ''.join(x + '\n' for x in txt.split('\n') if x.startswith(('table', 'dim')))
                spec = hdr + l + '\n'
                path = os.path.join(VERIF, 'replay', 'C15-%s.spec' % hashlib.sha1(spec.encode()).hexdigest()[:10])
                os.makedirs(os.path.dirname(path), exist_ok=True); open(path, 'w').write(spec)
                r = run([replay_binary(), path], check=False, timeout=60, env=dict(os.environ, ASAN_OPTIONS='detect_leaks=0:exitcode=77'))
                return path, r['rc'] in (3, 77), (r['out'] + r['err'])[-600:]
    return '', False, 'case not found'

def replay(path):
    r = run([replay_binary(), path], check=False, timeout=60, env=dict(os.environ, ASAN_OPTIONS='detect_leaks=0:exitcode=77'))
    print((r['out'] + r['err'])[-3000:]); return 1 if r['rc'] != 0 else 0
