"""C05 -- lookup and evaluation are memory-safe for every coordinate vector (E1, order keys incl. NaN)."""
import math
from checklib import *
import evalkit, ordreplay

HARNESS = VERIF + '/harness/c05_safe.c'
GROUPS = ['EVAL', 'DERIV', 'GRAD', 'CALL', 'EV_EVAL', 'EV_DERIV', 'EV_GRAD']

def grid(tier):
    cfgs = []
    for o in range(0, 6):
        for e in (((0, 1) if o < 4 else (0,)) if tier == 'quick' else (0, 1, 2, 3, 4)):
            cfgs.append(([o], [2 * o + 2 + e]))
    if tier == 'quick': cfgs.append(([2], [9]))
    cfgs += [([0, 2], [2, 6]), ([2, 2], [6, 7]), ([3, 1], [9, 4]), ([1, 0], [5, 3]), ([1, 1, 1], [4, 5, 4])]
    # 8-D / 9-D: the gradient must be refused (quick: gradient groups only; the other groups are thorough)
    # 7-D is the largest table the SIMD gradient serves (all lanes of the basis cell in use)
    hi = [([0, 0, 0, 0, 0, 0, 1], [2, 2, 2, 2, 2, 2, 4]), ([1, 0, 0, 0, 0, 0, 0, 1], [4, 2, 2, 2, 2, 2, 2, 5]), ([0, 0, 0, 0, 1, 0, 0, 0, 1], [2, 2, 2, 2, 4, 2, 2, 2, 4])]
    if tier != 'quick':
        cfgs += hi + [([2, 2, 2], [6, 6, 6]), ([1, 0, 2], [4, 2, 7]), ([3, 3], [8, 10]), ([5, 2], [12, 7]), ([4, 4], [10, 11]), ([3, 3, 3], [8, 8, 9]), ([2, 3, 1], [7, 8, 4]),
                 ([2, 2, 2, 2], [6, 6, 6, 6]), ([2, 2, 2, 2, 2], [6, 6, 6, 6, 6]), ([2, 2, 2, 3, 2, 2], [6, 6, 6, 8, 6, 6]),
                 ([1, 1, 1, 1, 1, 1, 1], [4, 4, 4, 4, 4, 4, 5]), ([2, 1, 1, 1, 1, 1, 1, 1], [6, 4, 4, 4, 4, 4, 4, 4])]
    g = []
    for o, nk in cfgs:
        for grp in GROUPS:
            g.append(dict(nd=len(o), orders=o, nks=nk, entry=grp))
        if len(o) == 1: g.append(dict(nd=1, orders=o, nks=nk, entry='UNIT_DERIV'))
    if tier == 'quick':
        for o, nk in hi:
            for grp in ('GRAD', 'EV_GRAD'): g.append(dict(nd=len(o), orders=o, nks=nk, entry=grp))
    return g

def inst_name(c): return 'c05_%s_o%s_k%s' % (c['entry'], '-'.join(map(str, c['orders'])), '-'.join(map(str, c['nks'])))

def bounds(c, loose=False):
    o, nk, nd = c['orders'], c['nks'], c['nd']
    hb = max(max(n + 2 * q for n, q in zip(nk, o)), nd + 1) + 2
    nch = 1
    for q in o[:-1]: nch *= (q + 1)
    mo = max(o)
    kern = mo + 3
    core = max(nch, mo + 1, nd + 1, 8) + 2
    search = max(nd, int(math.log2(max(nk))) + 2) + 1
    other = max(nd + 1, mo + 1, search, 8) + 2
    glob = max(hb, mo + 4, 12)          # harness loops and the bspline/bspline_deriv recursion depth
    if loose:
        big = max(glob, core)
        return glob, (lambda fn: big)
    def f(fn):
        if any(k in fn for k in ('bsplvb', 'bspline_nonzero', 'bspline_deriv_nonzero')): return kern
        if 'ndsplineeval_core' in fn or 'ndsplineeval_multibasis_core' in fn: return core
        if 'searchcenters' in fn: return max(search, nd + 1)
        return other
    return glob, f

def run_check(tier):
    out = Outcome('C05', tier)
    compared, mism, vstat = evalkit.validate_translation()
    lib = evalkit.ord_lib(['/^w_/'], 'c05', cut_strings=True)
    BD = r'/^photospline::bspline_deriv\(/'
    lib_d = evalkit.ord_lib(['/^w_/'], 'c05d', cut=[BD], alias=[BD + '=bspline_deriv'], cut_strings=True)
    def lib_for(c): return lib_d if c['entry'] in ('DERIV', 'EV_DERIV') else lib
    cases = grid(tier)
    budget = 240 if tier == 'quick' else 1200
    def defs(c, witness=False):
        d = ['ND=%d' % c['nd'], 'ORDS=' + ','.join(map(str, c['orders'])), 'NKS=' + ','.join(map(str, c['nks'])), 'E_' + c['entry']]
        if c['entry'] in ('DERIV', 'EV_DERIV'): d.append('CUT_BSPLINE_DERIV')
        if witness: d.append('WITNESS')
        return d
    def one(c, loose=False):
        glob, f = bounds(c, loose)
        r = run_instance(lib_for(c), HARNESS, inst_name(c) + ('_loose' if loose else ''), defs(c), unwind=glob, ir_unwind=f, timeout=budget)
        r['case'] = c
        return r
    wit = [c for c in cases if c['orders'] in ([2], [0, 2]) and c['entry'] in ('EVAL', 'GRAD')][:4]
    def onew(c):
        glob, f = bounds(c)
        r = run_instance(lib, HARNESS, inst_name(c) + '_wit', defs(c, True), unwind=glob, ir_unwind=f, timeout=budget)
        return any('assertion 0' in x[1] for x in r['failed'])
    wres = pmap(onew, wit)
    out.cov['witness_ok'] = all(wres) and len(wres) > 0
    if not out.cov['witness_ok']: out.errors.append('vacuity witness not reachable')
    res = ordreplay.run_grid(out, 'C05', cases, one, 'battery', True, budget)
    out.cov['samples'] = [dict(instance=r['name'], defines=r['defines'], verdict=r['verdict'], properties=r['nprops'], wall_s=round(r['wall'], 2)) for r in res[:8]]
    out.cov['slowest'] = sorted([(round(r['wall'], 1), r['name']) for r in res], reverse=True)[:12]
    out.cov['assume_guarantee'] = 'DERIV/EV_DERIV instances replace photospline::bspline_deriv by its memory contract (asserted at each call); UNIT_DERIV instances prove the contract on the real bspline_deriv/bspline'
    out.cov['functions_encoded'] = lib.map['translated']
    out.cov['cut'] = dict(all_instances=lib.map['cut'], deriv_groups=lib_d.map['cut'])
    out.cov['queries'] = len(res) + len(wres)
    out.cov['bounds'] = dict(configs=sorted({(tuple(c['orders']), tuple(c['nks'])) for c in cases}), entry_groups=GROUPS,
                             coordinates='any order key or NaN per dimension (+-inf = extreme keys)', padding='any key or NaN', coefficients='any')
    out.cov['translator_validation'] = dict(compared=compared, mismatches=mism, status=vstat)
    if vstat != 'ok' and not out.violations: out.errors.append('translator validation inconclusive: ' + vstat)
    out.cov['checker_cmd'] = 'cbmc <instance>.gb --function harness ' + ' '.join(CBMC_FLAGS)
    out.cov['trusted_base'] = ['clang-14 IR as source semantics (validated bit-for-bit vs g++ build)', 'ir2c.py', 'rt_ord.h small-model argument', 'cbmc 6.11']
    out.assumptions = ['table satisfies the representation invariant with exactly sized blocks', 'pointer arithmetic that is never dereferenced is not checked (compiler-hoisted GEPs)',
                       'zero-length VLAs are not asserted against', 'sizes outside the grid are not covered']
    return out.finish()

def replay(path):
    binary = ordreplay.replay_binary(True)
    r = run([binary, path], check=False, timeout=120, env=dict(os.environ, ASAN_OPTIONS='detect_leaks=0', UBSAN_OPTIONS='halt_on_error=1'))
    print((r['out'] + r['err'])[-3000:] + ('\nREPLAY TIMEOUT (non-termination)' if r['timeout'] else ''))
    return 1 if (r['rc'] != 0 or r['timeout']) else 0
