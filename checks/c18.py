"""C18 -- the C interface is a faithful, leak-free wrapper (E2: IR-derived src/cinter/splinetable.cpp next to C++ twins on the
cfitsio container model and the operator new/delete ledger; payloads symbolic)."""
import random
from checklib import *
import evalkit, e2, c06, hashlib

MODELS = ['/rt/rt_common.c', '/models/stdcxx.c', '/models/alloc_ledger.c', '/models/streams.c', '/models/cfitsio_model.c', '/models/cholmod_model.c', '/models/libc_stubs.c']
CROOTS = ['splinetable_init', 'splinetable_free', 'readsplinefitstable', 'writesplinefitstable', 'readsplinefitstable_mem', 'writesplinefitstable_mem', 'splinetable_get_key', 'splinetable_read_key',
          'splinetable_write_key', 'splinetable_ndim', 'splinetable_order', 'splinetable_nknots', 'splinetable_knots', 'splinetable_knot', 'splinetable_lower_extent', 'splinetable_upper_extent',
          'splinetable_period', 'splinetable_ncoeffs', 'splinetable_total_ncoeffs', 'splinetable_stride', 'splinetable_coefficients', 'tablesearchcenters', 'ndsplineeval', 'ndsplineeval_gradient',
          'ndsplineeval_deriv', 'splinetable_convolve', 'splinetable_permute', 'splinetable_glamfit', 'splinetable_grideval', 'ndsparse_destroy', 'w_fit', 'w_grideval', 'w_ndsparse_delete']
def cinter_ir(): return once('cinter_ir', lambda: build_ir('cinter', [VERIF + '/wrap/cinter.cpp', VERIF + '/wrap/estimate.cpp', REPO + '/src/cinter/splinetable.cpp', REPO + '/src/core/fitsio.cpp', REPO + '/src/core/convolve.cpp', REPO + '/src/core/bspline.cpp',
                                                             VERIF + '/wrap/fit.cpp', REPO + '/src/fitter/glam.c', REPO + '/src/fitter/splineutil.c', REPO + '/src/fitter/cholesky_solve.c', REPO + '/src/fitter/nnls.c']))

def build_objs():
    d = scratch(); evalkit.layout_header(); c06.stream_layout()
    c = os.path.join(d, 'cinter_sym.c'); m = ir2c(cinter_ir(), c, ['/^t_/', '/^e_/'] + CROOTS, cut=['nnls_normal_block3'])
    def cc(src):
        o = os.path.join(d, 'cinter.%s.o' % os.path.basename(src))
        run(['gcc', '-fwrapv', '-falign-functions=16', '-O1', '-DVR_SYM', '-DVM_MAXBLK=256', '-I' + VERIF + '/rt', '-I' + VERIF + '/models', '-I/usr/include/suitesparse', '-I' + d, '-c', src, '-o', o]); return o
    objs = pmap(cc, [c] + [VERIF + x for x in MODELS])
    o = os.path.join(d, 'cinter.rt_sym.o'); run(['g++', '-std=c++17', '-O2', '-I' + VERIF + '/rt', '-c', VERIF + '/rt/rt_sym.cpp', '-o', o])
    return objs, o, m

def build_harness(harness='e2_cinter'):
    def build():
        d = scratch(); objs, o, m = once('cinter_objs', build_objs)
        out = os.path.join(d, harness)
        run(['g++', '-std=c++17', '-O1', '-DVR_SYM', '-I' + VERIF + '/rt', '-I' + VERIF + '/harness', '-I' + VERIF + '/models', '-I/usr/include/suitesparse', '-I' + d, VERIF + '/harness/%s.cpp' % harness, '-o', out] + objs + [o, '-lgmpxx', '-lgmp', '-lm'])
        return out, m
    return once('cinter_harness_' + harness, build)

AUX = [('A', 'v'), ('KEY1', 'hello~world'), ('Z9', '12'), ('NUMBER', '42')]
def build_cases(tier):
    cases = []
    def add(scen, orders, extras, naux=0):
        name = 'c18_%s_%s' % (scen, ''.join(map(str, orders)))
        txt = 'cinter %s scen %s nd %d\n' % (name, scen, len(orders))
        for d, (o, e) in enumerate(zip(orders, extras)): txt += 'dim %d order %d nknots %d\n' % (d, o, 2 * o + 2 + e + d)
        for k, v in AUX[:naux]: txt += 'aux %s|%s\n' % (k, v)
        cases.append((name, txt + 'end\n', dict(scen=scen, orders=orders)))
    shapes = [([1], [1]), ([2, 0], [0, 1]), ([0, 1, 2], [1, 0, 0])]
    if tier != 'quick': shapes += [([3, 1], [2, 0]), ([1, 1, 1, 1], [0, 1, 0, 0])]
    for i, (o, e) in enumerate(shapes):
        add('mem', o, e, naux=i % 3 + 1); add('disk', o, e, naux=(i + 1) % 3); add('keys', o, e, naux=2); add('ops', o, e, naux=1)
    add('memfail', [1], [0], naux=1); add('opsfail', [1, 0], [0, 0], naux=0)
    if tier != 'quick': add('memfail', [1, 0], [0, 1], naux=2); add('opsfail', [2], [1], naux=1)
    add('eval', [0] * 8, [0] * 8)
    add('fitgrid', [1], [1]); add('fitgrid', [1, 0], [0, 1])
    if tier != 'quick': add('fitgrid', [2, 1], [1, 0])
    return cases

def replay_binary():
    def build():
        d = scratch(); ref = build_ref_objects('rp18', [REPO + '/src/core/bspline.cpp', REPO + '/src/core/fitsio.cpp', REPO + '/src/core/convolve.cpp', REPO + '/src/cinter/splinetable.cpp', REPO + '/src/fitter/glam.c', REPO + '/src/fitter/splineutil.c', REPO + '/src/fitter/cholesky_solve.c', REPO + '/src/fitter/nnls.c'])
        out = os.path.join(d, 'replay_cinter'); run(['g++'] + GXX_FLAGS + ['-I' + VERIF + '/harness', VERIF + '/harness/replay_cinter.cpp', '-o', out] + ref + ['-lcfitsio', '-lcholmod', '-lspqr', '-lsuitesparseconfig', '-llapack', '-lblas', '-lpthread', '-lm']); return out
    return once('replay_cinter', build)

def run_check(tier):
    out = Outcome('C18', tier)
    binary, m = build_harness()
    cases = build_cases(tier)
    ran = pmap(lambda c: e2.run_cases(binary, c[1], c[0]), cases)
    errs = {}
    for d, man in ran:
        for e in man:
            if e['kind'] == 'error': errs.setdefault(e['case'], e['msg'])
    res = e2.discharge(ran, 20, cvc5_fraction=0.01)
    fails = {}
    for q in res:
        if q['kind'] == 'witness': continue
        out.cov['obligations'] += 1; out.cov['solver_time_s'] += q['wall']
        if q['verdict'] == 'unsat': out.cov['discharged'] += 1
        elif q['verdict'] == 'sat': fails.setdefault(re.sub(r'^\S+ ', '', q['label']), []).append(q)
        else: out.errors.append('%s: solver answered %s' % (q['label'], q['verdict']))
    for cid, msg in errs.items(): out.errors.append('symbolic run of %s aborted: %s' % (cid, msg))
    meta = {c[0]: c for c in cases}
    for what, qs in fails.items():
        cid = qs[0]['case']; spec = meta[cid][1] + 'what %s\n' % what
        path = os.path.join(VERIF, 'replay', 'C18-%s.spec' % hashlib.sha1(spec.encode()).hexdigest()[:10]); os.makedirs(os.path.dirname(path), exist_ok=True); open(path, 'w').write(spec)
        r = run([replay_binary(), path], check=False, timeout=120)
        gen = re.sub(r'allocation #\d+', 'allocation #k', re.sub(r'call #\d+', 'call #k', re.sub(r'dim \d+', 'dim d', what)))
        sig = 'C18:%s:%s' % (meta[cid][2]['scen'], re.sub(r'[^A-Za-z0-9=_#\[\]() -]', '', gen)[:100])
        msg = '"%s" fails (%d obligation(s), first case %s)' % (what, len(qs), cid)
        if r['rc'] == 3 or r['rc'] < 0: out.add_violation(sig, msg, path, (r['out'] + r['err'])[-500:])
        else: out.errors.append(msg + ' -- not reproduced on the real build (%s): %s' % (path, (r['out'] + r['err'])[-200:].replace('\n', ' ')))
    out.cov['queries'] = len(res); out.cov['e2_cases'] = len(cases); out.cov['functions_encoded'] = m['translated']
    out.cov['samples'] = [dict(label=q['label'], verdict=q['verdict']) for q in res[:8]] + [cases[0][1][:300]]
    out.cov['bounds'] = dict(scenarios=sorted({c[2]['scen'] for c in cases}), shapes=sorted({tuple(c[2]['orders']) for c in cases}),
                             sequences='init / read (memory, disk, missing file, occupied handle) / every accessor / key get-read-write (present, missing, rejected) / write (memory, disk, each failing I/O call) / permute (valid, invalid) / convolve (each dimension) / free (twice); allocation failure at every allocation position of the memory sequence and of convolve; gradient wrapper on an 8-D table',
                             symbolic='coefficients, knots and extents are variables (uninterpreted floats; exact reals with concrete rational knots where convolution sorts them)')
    out.cov['checker_cmd'] = 'z3 -in -t:20000 (obligations batched)'
    out.cov['trusted_base'] = ['clang-14 IR', 'ir2c.py (exception flag protocol: an exception pending after an extern "C" function returned has left it)', 'rt_sym.cpp', 'models/cfitsio_model.c, alloc_ledger.c, streams.c, stdcxx.c', 'z3']
    out.assumptions = ['call sequences are the listed scenarios, not arbitrary histories (the wrappers keep no state besides the table the handle owns, whose histories are C20)', 'splinetable_glamfit / splinetable_grideval / ndsparse_destroy run on the semantic CHOLMOD model with the non-negative solver cut to its contract; the memory behind an ndsparse (malloc in splineutil.c) is not in the ledger: ndsparse_destroy is only required not to crash',
                       'double-valued keys are not modelled (formatting)', 'handles are valid: initialised by splinetable_init, not used after a failed readsplinefitstable left them empty']
    return out.finish()

def replay(path):
    r = run([replay_binary(), path], check=False, timeout=120); print(r['out'] + r['err']); return 1 if r['rc'] != 0 else 0
