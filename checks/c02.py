"""C02 -- derivative bitmask, gradient and arbitrary-order derivatives are the true partial derivatives
(E2: the oracle is the symbolic derivative of the C01 oracle term)."""
import random, itertools
from checklib import *
import evalkit, e2, e2cases
from e2cases import Table, CaseSet, knot_family, regions_1d, cover_tuples

def build_cases(tier, seed=SEED):
    rng = random.Random(seed + 2); sets = []
    extras = (0, 2) if tier == 'quick' else (0, 1, 2, 4)
    for o in range(0, 6):
        for e in extras:
            nk = 2 * o + 2 + e
            for fam in (('irregular', 'uniform') if tier == 'quick' else ('irregular', 'uniform', 'repeated')):
                if fam == 'repeated' and (o >= 2 or e == 0 or o == 0): continue   # strictly increasing knots when order >= 2
                if fam == 'uniform' and e != 0 and tier == 'quick': continue
                ks = knot_family(fam, nk, o, rng)
                t = Table([o], [ks]); cs = CaseSet(t, 'c02_1d_%s_%s' % (t.tag(), fam))
                for r in regions_1d(ks):
                    cs.add('value', 'eval_f', [r], mask=1)
                    cs.add('grad', 'grad_f', [r])
                    for n in range(0, o + 2): cs.add('deriv', 'deriv', [r], derivs=[n])
                    if fam == 'irregular' and e == 2:
                        cs.add('value', 'eval_d', [r], mask=1); cs.add('value', 'ev_eval_f', [r], mask=1); cs.add('value', 'ev_call_d', [r], mask=1)
                        cs.add('grad', 'grad_d', [r]); cs.add('grad', 'ev_grad_f', [r]); cs.add('grad', 'ev_grad_d', [r])
                        cs.add('deriv', 'ev_deriv_f', [r], derivs=[min(2, o + 1)]); cs.add('deriv', 'ev_deriv_d', [r], derivs=[1])
                sets.append(cs)
    md = [([2, 1], [1, 0]), ([0, 2], [1, 1]), ([1, 2, 3], [0, 1, 0]), ([1, 1, 1, 1], [0, 1, 0, 0]), ([1, 0, 1, 1, 0, 1, 1], [0, 0, 0, 1, 0, 0, 0])]
    if tier != 'quick': md += [([3, 3], [1, 2]), ([2, 2, 2], [0, 1, 2]), ([4, 1], [0, 1]), ([2, 2, 2, 2], [0, 0, 0, 1]), ([1, 1, 1, 1, 1], [0] * 5), ([1, 1, 1, 1, 1, 1], [1] + [0] * 5), ([2, 1, 1, 1, 1, 1, 1], [0] * 7)]
    for orders, es in md:
        kn = [knot_family('irregular' if d % 2 == 0 else 'uniform', 2 * o + 2 + e, o, rng) for d, (o, e) in enumerate(zip(orders, es))]
        t = Table(orders, kn); cs = CaseSet(t, 'c02_md_%s' % t.tag()); nd = len(orders)
        per = [regions_1d(k) for k in kn]
        tuples = cover_tuples(per, rng, n_extra=1 if tier == 'quick' else 6)
        masks = list(range(1, 1 << nd)) if nd <= 3 else [1 << d for d in range(nd)] + [(1 << nd) - 1]
        for i, tup in enumerate(tuples):
            for m in (masks if i < 2 else [masks[i % len(masks)]]):
                cs.add('value', 'eval_f' if i % 3 else 'eval_d', list(tup), mask=m)
            cs.add('grad', 'grad_f' if i % 2 else 'ev_grad_f', list(tup))
            cs.add('deriv', 'deriv', list(tup), derivs=[rng.randrange(0, o + 2) for o in orders])
        sets.append(cs)
    return sets

def run_check(tier):
    out = Outcome('C02', tier)
    compared, mism, vstat = evalkit.validate_translation()
    sets = build_cases(tier)
    budget = 20 if tier == 'quick' else 120
    res, allcases = e2cases.evaluate(out, 'C02', sets, budget)
    out.cov['samples'] = [dict(label=q['label'], kind=q['kind'], verdict=q['verdict'], nodes=q.get('nodes'), wall_s=round(q['wall'], 3)) for q in res[:6]] + \
                         [dict(case=k, kind=v['kind'], regions=v['regions'], entry=v['entry'], mask=v['mask'], derivs=v['derivs'], orders=v['table'].orders) for k, v in list(allcases.items())[:4]]
    out.cov['bounds'] = dict(one_d='orders 0..5, nknots 2*order+2 + %s, every region; mask, gradient, derivative orders 0..order+1' % (extras_text(tier),),
                             multi_d=sorted({tuple(c['table'].orders) for c in allcases.values() if c['table'].nd > 1}), solver_budget_s=budget,
                             symbolic='coordinates within their region, all coefficients, padding knots; knots concrete rationals; oracle = exact symbolic derivative (vs_diff) of the Cox-de Boor sum')
    out.cov['translator_validation'] = dict(compared=compared, mismatches=mism, status=vstat)
    if vstat != 'ok' and not out.violations: out.errors.append('translator validation inconclusive: ' + vstat)
    out.cov['checker_cmd'] = 'z3 -T:%d q_*.smt2 (QF_NRA; 5%% sample re-run on cvc5)' % budget
    out.cov['trusted_base'] = ['clang-14 IR (validated vs g++ build)', 'ir2c.py', 'rt_sym.cpp incl. vs_diff', 'harness oracle', 'z3 / cvc5']
    out.assumptions = ['floats as exact reals (rounding outside)', 'knots strictly increasing when some order >= 2', 'concrete rational knot families']
    return out.finish()

def extras_text(tier): return '{0,2}' if tier == 'quick' else '{0,1,2,4}'

def replay(path):
    r = run([e2cases.replay_value_binary(), path], check=False, timeout=60)
    print(r['out'] + r['err'])
    return 1 if r['rc'] != 0 else 0
