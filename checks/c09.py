"""C09 -- the unconstrained fit minimises the penalised weighted least-squares objective
(E2: the system handed to CHOLMOD's solve is proved equal to the normal equations of the stated objective)."""
import random
from checklib import *
import fitkit
from fitkit import dimline, coords_for
from e2cases import knot_family

def build_cases(tier, seed=SEED, mono=False):
    rng = random.Random(seed + (10 if mono else 9)); cases = []
    def add(name, dimspecs, monodim=-1, one_sm=False, one_po=False, skip=(), zero=(), rev=False):
        hdr = 'fit %s nd %d monodim %d smoothing %s porder %s' % (name, len(dimspecs), monodim, 'one' if one_sm else 'per', 'one' if one_po else 'per')
        if skip: hdr += ' skip ' + ','.join(map(str, skip))
        if zero: hdr += ' zero ' + ','.join(map(str, zero))
        if rev: hdr += ' rev'
        body = ''
        for d, (o, p, lam, extra, npts, fam) in enumerate(dimspecs):
            ks = knot_family(fam, 2 * o + 2 + extra, o, rng); body += dimline(d, o, p, lam, ks, coords_for(ks, o, npts, rng, shuffle=True))
        cases.append((name, hdr + '\n' + body + 'end\n', dict(dims=dimspecs, monodim=monodim)))
    orders = range(0, 5)
    for o in orders:
        for p in range(0, o + 1):
            for lam in (True, False):
                if not lam and p: continue
                add('c%s_1d_o%d_p%d_l%d' % ('10' if mono else '09', o, p, lam), [(o, p, lam, 1 + (o + p) % 2, o + 4, 'irregular')], monodim=0 if mono else -1)
    add('c_1d_zero_w', [(2, 1, True, 2, 6, 'irregular')], zero=(1, 4), monodim=0 if mono else -1)
    add('c_1d_rev', [(1, 1, True, 2, 5, 'uniform')], rev=True, monodim=0 if mono else -1)
    # abscissae exactly on interior knots: the basis must use half-open spans there
    ks = knot_family('irregular', 8, 2, rng); cases.append(('c_1d_onknot', 'fit c_1d_onknot nd 1 monodim %d smoothing per porder per\n' % (0 if mono else -1) + dimline(0, 2, 1, True, ks, coords_for(ks, 2, 3, rng) + [ks[3], ks[4]]) + 'end\n', dict(dims=[(2, 1, True, 2, 5, 'irregular')], monodim=0 if mono else -1)))
    for m in ((0, 1) if mono else (-1,)):
        add('c_2d_a_m%d' % m, [(1, 1, True, 1, 4, 'irregular'), (2, 0, False, 0, 4, 'uniform')], monodim=m)
        add('c_2d_missing_m%d' % m, [(0, 0, True, 1, 3, 'irregular'), (1, 1, True, 1, 4, 'irregular')], skip=(2, 7), zero=(3,), monodim=m)
        add('c_2d_shared_m%d' % m, [(1, 1, True, 0, 3, 'uniform'), (1, 1, True, 1, 4, 'irregular')], one_sm=True, one_po=True, monodim=m)
    # the smallest 3-D shape: two dimensions precede / follow the monotonic one (stride arithmetic of the cumulative sum)
    for m in ((0, 1, 2) if mono else (-1,)):
        add('c_3d_small_m%d' % m, [(0, 0, True, 1, 2, 'uniform'), (1, 1, False, 0, 3, 'irregular'), (0, 0, True, 1, 2, 'irregular')], monodim=m)
    for m in ((0, 2) if mono else (-1,)):
        add('c_3d_m%d' % m, [(1, 1, True, 0, 3, 'irregular'), (0, 0, False, 1, 3, 'uniform'), (1, 0, True, 0, 3, 'irregular')], monodim=m)
        add('c_3d_b_m%d' % m, [(2, 2, True, 0, 4, 'irregular'), (1, 1, True, 0, 3, 'uniform'), (0, 0, True, 1, 2, 'irregular')], skip=(1, 5), monodim=m)
    add('c_2d_o3', [(3, 2, True, 0, 5, 'irregular'), (2, 1, True, 1, 5, 'irregular')], monodim=1 if mono else -1)
    if tier != 'quick':
        # 4-D: the array-arithmetic reshaping with two dimensions on either side; a monotonic dimension in every position
        for m in ((0, 1, 2, 3) if mono else (-1,)):
            add('c_4d_m%d' % m, [(0, 0, True, 1, 2, 'uniform'), (1, 1, False, 0, 2, 'irregular'), (0, 0, True, 0, 2, 'irregular'), (1, 0, True, 0, 3, 'uniform')], monodim=m)
        add('c_3d_o2', [(2, 1, True, 1, 4, 'irregular'), (2, 2, False, 0, 3, 'irregular'), (1, 1, True, 1, 3, 'uniform')], skip=(0, 9), zero=(4,), monodim=1 if mono else -1)
        add('c_2d_o4', [(4, 3, True, 0, 6, 'irregular'), (1, 1, True, 2, 5, 'irregular')], monodim=0 if mono else -1)
    return cases

def replay_binary():
    def build():
        d = scratch()
        ref = build_ref_objects('rpfit', [REPO + '/src/core/bspline.cpp', REPO + '/src/core/fitsio.cpp', REPO + '/src/core/convolve.cpp', REPO + '/src/fitter/glam.c', REPO + '/src/fitter/splineutil.c', REPO + '/src/fitter/cholesky_solve.c', REPO + '/src/fitter/nnls.c'])
        out = os.path.join(d, 'replay_fit')
        run(['g++'] + GXX_FLAGS + ['-I' + VERIF + '/harness', VERIF + '/harness/replay_fit.cpp', '-o', out] + ref + ['-lcfitsio', '-lcholmod', '-lspqr', '-lsuitesparseconfig', '-llapack', '-lblas', '-lpthread', '-lm'])
        return out
    return once('replay_fit', build)

def triage(out, pid, cases, fails):
    import hashlib
    meta = {c[0]: c for c in cases}; bywhat = {}
    for (cid, what), qs in fails.items(): bywhat.setdefault(what, []).append((cid, len(qs)))
    for what, items in bywhat.items():
        cid = items[0][0]; spec = meta[cid][1]
        path = os.path.join(VERIF, 'replay', '%s-%s.spec' % (pid, hashlib.sha1(spec.encode()).hexdigest()[:10])); os.makedirs(os.path.dirname(path), exist_ok=True); open(path, 'w').write(spec)
        r = run([replay_binary(), path], check=False, timeout=300, env=dict(os.environ, OMP_NUM_THREADS='2'))
        rep = r['rc'] == 3 or r['rc'] < 0 or r['timeout']
        msg = '"%s" fails in %d case(s), first %s' % (what, len(items), cid)
        sig = '%s:%s' % (pid, re.sub(r'[^A-Za-z0-9=_^+ -]', '', what)[:70])
        if rep: out.add_violation(sig, msg, path, (r['out'] + r['err'])[-500:])
        else: out.errors.append(msg + ' -- not reproduced on the real build (%s): %s' % (path, (r['out'] + r['err'])[-200:].replace('\n', ' ')))

def run_check(tier, pid='C09', mono=False):
    out = Outcome(pid, tier)
    compared, mism, vstat = fitkit.validate()
    cases = build_cases(tier, mono=mono)
    budget = 30 if tier == 'quick' else 180
    res, fails = fitkit.evaluate(out, pid, cases, budget)
    triage(out, pid, cases, fails)
    out.cov['bounds'] = dict(ndim='1..3 (quick) / ..4', orders='0..4', penalty_orders='0..order', shapes='<= 6 abscissae and <= 5 splines per axis; dense, missing-cell, reversed listings; zero weights; per-dimension and shared smoothing/penalty arguments',
                             symbolic='every data value, every weight (w>0 or exactly 0), every smoothing strength (>0 or exactly 0)', solver_budget_s=budget)
    out.cov['translator_validation'] = dict(compared=compared, mismatches=mism, status=vstat, what='generated C fit on the CHOLMOD model (Gaussian elimination) vs real library with real CHOLMOD, coefficients to 2e-4')
    if vstat != 'ok' and not out.violations: out.errors.append('translator validation inconclusive: ' + vstat)
    out.cov['checker_cmd'] = 'z3 -t:%d000 (QF_NRA obligations; sample re-run on cvc5)' % budget
    out.cov['trusted_base'] = ['clang-14 IR', 'ir2c.py', 'rt_sym.cpp', 'models/cholmod_model.c (semantic CHOLMOD model, validated against libcholmod)', 'harness oracle (Cox-de Boor, iterated derivative coefficients)', 'z3 / cvc5']
    out.assumptions = ['CHOLMOD solves the system it is given (its numerics and conditioning are outside)', 'floats as exact reals; "to single-precision accuracy" is outside',
                       'minimiser / projection / spline and polynomial reproduction follow from the proved normal equations and the contract of the solve', 'concrete shapes, knots and abscissae']
    if mono: out.assumptions.append('the non-negative solver is replaced by its contract (returns some s >= 0 for the system it receives); that contract is C11')
    return out.finish()

def replay(path):
    r = run([replay_binary(), path], check=False, timeout=300); print(r['out'] + r['err']); return 1 if r['rc'] != 0 else 0
