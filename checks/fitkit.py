"""shared by C09 / C10 / C17: E2 harness for fit / grideval on the semantic CHOLMOD model"""
import os, random, hashlib
from common import *
import evalkit, e2
from e2cases import knot_family, fr

FIT_SRC = lambda: [VERIF + '/wrap/fit.cpp', REPO + '/src/fitter/glam.c', REPO + '/src/fitter/splineutil.c', REPO + '/src/fitter/cholesky_solve.c', REPO + '/src/fitter/nnls.c', REPO + '/src/core/bspline.cpp']
MODELS = ['/rt/rt_common.c', '/models/stdcxx.c', '/models/alloc_plain.c', '/models/cholmod_model.c', '/models/libc_stubs.c']

def fit_ir(): return once('fit_ir', lambda: build_ir('fit', FIT_SRC()))

def build_harness():
    def build():
        d = scratch(); evalkit.layout_header()
        c = os.path.join(d, 'fit_sym.c'); m = ir2c(fit_ir(), c, ['w_fit', 'w_grideval', 'w_ndsparse_delete'], cut=['nnls_normal_block3'])
        objs = []
        for src in [c] + [VERIF + x for x in MODELS]:
            o = os.path.join(d, 'fitsym.' + os.path.basename(src) + '.o')
            run(['gcc', '-fwrapv', '-falign-functions=16', '-O1', '-DVR_SYM', '-I' + VERIF + '/rt', '-I' + VERIF + '/models', '-I/usr/include/suitesparse', '-I' + d, '-c', src, '-o', o]); objs.append(o)
        o = os.path.join(d, 'fitsym.rt_sym.o'); run(['g++', '-std=c++17', '-O2', '-I' + VERIF + '/rt', '-c', VERIF + '/rt/rt_sym.cpp', '-o', o])
        out = os.path.join(d, 'e2_fit')
        run(['g++', '-std=c++17', '-O1', '-DVR_SYM', '-I' + VERIF + '/rt', '-I' + VERIF + '/harness', '-I' + VERIF + '/models', '-I/usr/include/suitesparse', '-I' + d, VERIF + '/harness/e2_fit.cpp', '-o', out] + objs + [o, '-lgmpxx', '-lgmp', '-lm'])
        return out, m
    return once('fit_harness', build)

def validate():
    """generated C fit on the CHOLMOD model (R-ieee, Gaussian elimination) vs the real library with real CHOLMOD"""
    def build():
        d = scratch(); c = os.path.join(d, 'fit_val.c'); ir2c(fit_ir(), c, ['w_fit', 'w_grideval', 'w_ndsparse_delete'], cut=['nnls_normal_block3'])
        objs = []
        for src in [c] + [VERIF + x for x in MODELS]:
            o = os.path.join(d, 'fitval.' + os.path.basename(src) + '.o')
            run(['gcc', '-fwrapv', '-falign-functions=16', '-O1', '-DVR_IEEE', '-I' + VERIF + '/rt', '-I' + VERIF + '/models', '-I/usr/include/suitesparse', '-I' + d, '-c', src, '-o', o]); objs.append(o)
        ref = build_ref_objects('fitref', [REPO + '/src/core/bspline.cpp', REPO + '/src/core/fitsio.cpp', REPO + '/src/core/convolve.cpp', REPO + '/src/fitter/glam.c', REPO + '/src/fitter/splineutil.c', REPO + '/src/fitter/cholesky_solve.c', REPO + '/src/fitter/nnls.c'])
        out = os.path.join(d, 'val_fit')
        run(['g++'] + GXX_FLAGS + ['-I' + VERIF + '/harness', VERIF + '/harness/val_fit.cpp', '-o', out] + objs + ref + ['-lcfitsio', '-lcholmod', '-lspqr', '-lsuitesparseconfig', '-llapack', '-lblas', '-lpthread', '-lm'])
        r = run([out, str(SEED)], check=False, timeout=300)
        mm = re.search(r'VALIDATION compared=(\d+) mismatches=(\d+)', r['out'])
        if r['timeout'] or r['rc'] < 0: return (0, 0, 'real build did not finish the validation run')
        if not mm or r['rc'] != 0: raise CheckError('fit translator/model validation failed:\n' + r['out'][-1500:] + r['err'][-800:])
        return (int(mm.group(1)), int(mm.group(2)), 'ok')
    return once('fit_validate', build)

def dimline(d, order, porder, lam, knots, coords):
    return 'dim %d order %d porder %d lam %s knots %s | coords %s\n' % (d, order, porder, 'v' if lam else '0', ' '.join(fr(k) for k in knots), ' '.join(fr(c) for c in coords))

def coords_for(ks, order, n, rng, inside_only=True, shuffle=False):
    from fractions import Fraction as F
    lo, hi = (ks[order], ks[len(ks) - order - 1]) if inside_only else (ks[0], ks[-1])
    pts = [lo + (hi - lo) * F(2 * i + 1, 2 * n) + F(rng.randrange(-3, 4), 97) * (hi - lo) / n for i in range(n)]
    pts = [p for p in pts if ks[0] < p < ks[-1] and p not in ks]
    if shuffle: rng.shuffle(pts)
    return pts

def evaluate(out, pid, cases, budget):
    binary, m = build_harness()
    ran = pmap(lambda c: e2.run_cases(binary, c[1], c[0]), cases)
    errs = {}
    for d, man in ran:
        for e in man:
            if e['kind'] == 'error': errs.setdefault(e['case'], e['msg'])
            if e['kind'] == 'poison': errs.setdefault(e['case'], 'result depends on uninitialised memory: ' + e['label'])
    res = e2.discharge(ran, budget)
    fails = {}
    for q in res:
        if q['kind'] == 'witness':
            if q['verdict'] != 'sat': out.errors.append('vacuous obligation: ' + q['label'])
            continue
        out.cov['obligations'] += 1; out.cov['solver_time_s'] += q['wall']
        if q['verdict'] == 'unsat': out.cov['discharged'] += 1
        elif q['verdict'] == 'sat': fails.setdefault((q['case'], re.sub(r'^\S+ ', '', q['label'])), []).append(q)
        else: out.errors.append('%s: solver answered %s' % (q['label'], q['verdict']))
    for cid, msg in errs.items(): fails.setdefault((cid, 'symbolic run aborted: ' + msg), []).append(dict(case=cid))
    out.cov['queries'] = len(res); out.cov['e2_cases'] = len(cases); out.cov['functions_encoded'] = m['translated']; out.cov['cut'] = m['cut']
    out.cov['samples'] = [dict(label=q['label'], verdict=q['verdict'], nodes=q.get('nodes')) for q in res[:6]] + [cases[0][1][:500]]
    return res, fails
