"""C01 -- evaluation equals the tensor-product B-spline sum (E2: exact-real symbolic run + z3)."""
import random
from checklib import *
import evalkit, e2, e2cases
from e2cases import Table, CaseSet, knot_family, regions_1d, cover_tuples

def build_cases(tier, seed=SEED):
    rng = random.Random(seed); sets = []
    extras = (0, 1, 3) if tier == 'quick' else (0, 1, 2, 3, 4, 6)
    fams = ('uniform', 'irregular', 'repeated') if tier == 'quick' else ('uniform', 'irregular', 'repeated', 'scaled')
    # 1-D: every order, every region of every table
    for o in range(0, 6):
        for e in extras:
            nk = 2 * o + 2 + e
            for fam in fams:
                if fam == 'repeated' and (e == 0 or o == 0): continue
                ks = knot_family(fam, nk, o, rng)
                t = Table([o], [ks]); cs = CaseSet(t, 'c01_1d_%s_%s' % (t.tag(), fam))
                regs = regions_1d(ks)
                for r in regs:
                    cs.add('value', 'eval_f', [r])
                    if e == 1 or tier != 'quick':
                        cs.add('value', 'eval_d', [r])
                    if fam == 'irregular' and e == 1:
                        for ent in ('call', 'ev_eval_f', 'ev_eval_d', 'ev_call_f', 'ev_call_d'): cs.add('value', ent, [r])
                full = [r for r in regs if r[0] == 'i' and o <= r[1] < nk - o - 1]
                if full: cs.add('value', 'eval_f', [full[len(full) // 2]], ones=True)
                sets.append(cs)
    # multi-D: mixed orders, seeded region tuples covering every per-dimension region
    md = [([2, 3], [1, 0]), ([0, 1], [1, 2]), ([1, 2], [0, 1]), ([1, 2, 0], [1, 0, 1]), ([1, 1, 1, 1], [0, 1, 0, 1]), ([3, 1], [0, 0]),
          ([1, 0, 0, 0, 0, 0, 0, 0, 1], [0, 0, 0, 0, 0, 0, 0, 0, 1])]
    if tier != 'quick':
        md += [([3, 3], [2, 1]), ([2, 2, 2], [1, 2, 0]), ([4, 2], [0, 2]), ([5, 1], [1, 1]), ([2, 2, 2, 2], [0, 0, 1, 1]), ([1, 1, 1, 1, 1], [0, 1, 0, 1, 0]),
               ([2, 1, 1, 1, 1, 1], [0, 0, 0, 0, 0, 1]), ([1, 1, 1, 1, 1, 1, 1], [0] * 7), ([1, 1, 1, 1, 1, 1, 1, 1], [0] * 8)]
    for orders, es in md:
        kn = [knot_family('irregular' if d % 2 == 0 else 'uniform', 2 * o + 2 + e, o, rng) for d, (o, e) in enumerate(zip(orders, es))]
        t = Table(orders, kn); cs = CaseSet(t, 'c01_md_%s' % t.tag())
        per = [regions_1d(k) for k in kn]
        for tup in cover_tuples(per, rng, n_extra=2 if tier == 'quick' else 8):
            cs.add('value', 'eval_f', list(tup))
            if rng.random() < 0.3: cs.add('value', 'eval_d', list(tup))
            if rng.random() < 0.2: cs.add('value', 'ev_eval_f', list(tup))
        sets.append(cs)
    return sets

def run_check(tier):
    out = Outcome('C01', tier)
    compared, mism, vstat = evalkit.validate_translation()
    sets = build_cases(tier)
    budget = 20 if tier == 'quick' else 120
    res, allcases = e2cases.evaluate(out, 'C01', sets, budget)
    out.cov['samples'] = [dict(label=q['label'], kind=q['kind'], verdict=q['verdict'], nodes=q.get('nodes'), wall_s=round(q['wall'], 3)) for q in res[:6]] + \
                         [dict(case=k, regions=v['regions'], entry=v['entry'], orders=v['table'].orders, nknots=[len(x) for x in v['table'].knots]) for k, v in list(allcases.items())[:4]]
    out.cov['bounds'] = dict(one_d='orders 0..5, nknots 2*order+2 + %s, families uniform/irregular/repeated%s, every region (open knot intervals and knots)' % ((0, 1, 3) if tier == 'quick' else (0, 1, 2, 3, 4, 6), '' if tier == 'quick' else '/scaled'),
                             multi_d=sorted({tuple(c['table'].orders) for c in allcases.values() if c['table'].nd > 1}), solver_budget_s=budget,
                             symbolic='coordinates (within their region), all coefficients, all padding knots; knots concrete rationals')
    out.cov['translator_validation'] = dict(compared=compared, mismatches=mism, status=vstat)
    if vstat != 'ok' and not out.violations: out.errors.append('translator validation inconclusive: ' + vstat)
    out.cov['checker_cmd'] = 'z3 -T:%d q_*.smt2 (QF_NRA; 5%% sample re-run on cvc5)' % budget
    out.cov['trusted_base'] = ['clang-14 IR as source semantics (validated bit-for-bit vs g++ build)', 'ir2c.py', 'rt_sym.cpp (exact rationals, floats as reals)', 'harness Cox-de Boor oracle', 'z3 4.8.12 / cvc5 1.0']
    out.assumptions = ['floats are interpreted as exact reals: rounding-error magnitude is outside the claim', 'knot vectors are the listed concrete rational families', 'NaN/inf coefficients are outside']
    return out.finish()

def replay(path):
    r = run([e2cases.replay_value_binary(), path], check=False, timeout=60)
    print(r['out'] + r['err'])
    return 1 if r['rc'] != 0 else 0
