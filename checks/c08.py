"""C08 -- interrupted or failing writes never pass as success or load as another table
(E2 on the faulty cfitsio container model: every single failing call position, every operation-granularity prefix)."""
from checklib import *
import c06

def run_check(tier):
    out = Outcome('C08', tier)
    compared, mism, vstat = c06.validate()
    cases = c06.build_cases(tier, faults=True)
    res, fails = c06.evaluate(out, 'C08', cases)
    c06.triage(out, 'C08', cases, fails)
    out.cov['bounds'] = dict(shapes=sorted({tuple(c[2]['orders']) for c in cases}), faults='each cfitsio call of the write sequence (create, create_img, write_pix, write_key, update_key, close) failing once with an I/O error status',
                             prefixes='the container frozen after each operation of the write sequence, then read back', symbolic='payloads (coefficients, knots, extents, periods) uninterpreted')
    out.cov['translator_validation'] = dict(compared=compared, mismatches=mism, status=vstat)
    out.cov['checker_cmd'] = 'z3 -in -t:20000 (QF_UF obligations batched)'
    out.cov['trusted_base'] = ['clang-14 IR', 'ir2c.py', 'rt_sym.cpp', 'models/cfitsio_model.c fault injection', 'z3']
    out.assumptions = ['operation granularity only: byte-granularity prefixes and OS-level faults surface inside cfitsio, which is not encoded; operation prefixes stand for byte prefixes only if cfitsio reports a truncated header or short data unit as an error',
                       'src/python/photosplinemodule.cpp is not built here', 'the replay limits the file size with RLIMIT_FSIZE so that the flush at close fails']
    return out.finish()
replay = c06.replay
