"""C19 -- estimateMemory bounds the memory requested while loading and convolving (E2: the IR-derived reader, convolve and
estimateMemory run on the cfitsio container model with a table whose allocator reports every request)."""
from checklib import *
import e2, c18, hashlib

def build_cases(tier):
    cases = []
    AUX = [('A', 'v'), ('KEY1', 'hello~world'), ('LONGKEY8', ''), ('UNITS', 'a~value~of~some~length~0123456789~0123456789~0123456789'), ('Z9', '12'), ('HIERLONGKEYWORD', 'x'), ('HIERARCHICAL.LONG.KEYWORD.NAME', 'y')]
    def add(orders, extras, nconv, cdim, naux):
        name = 'c19_%s_k%d_d%d_a%d' % (''.join(map(str, orders)), nconv, cdim, naux)
        txt = 'cinter %s scen estimate nd %d nconv %d cdim %d\n' % (name, len(orders), nconv, cdim)
        for d, (o, e) in enumerate(zip(orders, extras)): txt += 'dim %d order %d nknots %d\n' % (d, o, 2 * o + 2 + e + d)
        for i in range(naux):
            k, v = AUX[i % len(AUX)]; txt += 'aux %s%s|%s\n' % (k, '' if i < len(AUX) else str(i), v)
        cases.append((name, txt + 'end\n', dict(orders=orders, nconv=nconv, cdim=cdim, naux=naux)))
    shapes = [([1], [1]), ([2, 0], [0, 1]), ([0, 1, 2], [1, 0, 0]), ([3], [4])]
    if tier != 'quick': shapes += [([1, 1, 1, 1], [0, 1, 0, 0]), ([2, 1, 0, 1, 2], [0, 0, 1, 0, 0]), ([1, 0, 1, 0, 1, 0], [0, 1, 0, 1, 0, 1]), ([5, 2], [3, 1])]
    for si, (o, e) in enumerate(shapes):
        add(o, e, 0, 0, si % 3)
        for cdim in range(len(o)):
            for nconv in ((2, 3) if tier == 'quick' else (2, 3, 5, 8)): add(o, e, nconv, cdim, (si + cdim) % 4)
    add([1], [1], 0, 0, 7); add([2, 0], [0, 1], 3, 1, 12)
    # tables large enough that the kilobyte of slack in the estimate does not hide a missing term
    add([2], [500], 0, 0, 1); add([1, 1], [36, 5], 0, 0, 0); add([1, 1], [36, 5], 2, 1, 2); add([1, 1], [36, 5], 3, 1, 0); add([1, 0, 1], [8, 7, 2], 2, 2, 1)
    # convolution in a dimension of order >= 1 with many coefficients across the other axes: a shortfall of order*(n-1) rows of the convolved axis must exceed the slack
    add([3, 1], [14, 196], 4, 0, 1); add([2, 2], [100, 10], 5, 1, 0); add([1, 2, 1], [3, 20, 14], 3, 2, 2)
    if tier != 'quick': add([3, 1], [14, 196], 8, 0, 0); add([1, 4], [150, 6], 6, 1, 3); add([2, 1, 0, 1], [4, 6, 5, 3], 4, 0, 1)
    add([1], [0], 0, 0, 50)         # many auxiliary keys: their count must come from the primary header
    if tier != 'quick': add([1], [0], 2, 0, 50); add([1, 0], [1, 1], 3, 1, 50)
    return cases

def replay_binary():
    def build():
        d = scratch(); ref = build_ref_objects('rp19', [REPO + '/src/core/bspline.cpp', REPO + '/src/core/fitsio.cpp', REPO + '/src/core/convolve.cpp'])
        out = os.path.join(d, 'replay_estimate'); run(['g++'] + GXX_FLAGS + ['-I' + VERIF + '/harness', VERIF + '/harness/replay_estimate.cpp', '-o', out] + ref + ['-lcfitsio', '-lm']); return out
    return once('replay_estimate', build)

def run_check(tier):
    out = Outcome('C19', tier)
    binary, m = c18.build_harness()
    cases = build_cases(tier)
    ran = pmap(lambda c: e2.run_cases(binary, c[1], c[0]), cases)
    notes = []
    for d, man in ran:
        for e in man:
            if e['kind'] == 'error': out.errors.append('symbolic run of %s aborted: %s' % (e['case'], e['msg']))
            if e['kind'] == 'note' and e.get('key') == 'memory': notes.append(e.get('value'))
    res = e2.discharge(ran, 20, cvc5_fraction=0.0)
    fails = {}
    for q in res:
        if q['kind'] == 'witness': continue
        out.cov['obligations'] += 1; out.cov['solver_time_s'] += q['wall']
        if q['verdict'] == 'unsat': out.cov['discharged'] += 1
        elif q['verdict'] == 'sat': fails.setdefault(q['case'], []).append(q)
        else: out.errors.append('%s: solver answered %s' % (q['label'], q['verdict']))
    meta = {c[0]: c for c in cases}
    for cid, qs in fails.items():
        what = re.sub(r'^\S+ ', '', qs[0]['label']); spec = meta[cid][1] + 'what %s\n' % what
        path = os.path.join(VERIF, 'replay', 'C19-%s.spec' % hashlib.sha1(spec.encode()).hexdigest()[:10]); os.makedirs(os.path.dirname(path), exist_ok=True); open(path, 'w').write(spec)
        r = run([replay_binary(), path], check=False, timeout=120)
        c = meta[cid][2]; sig = 'C19:nd%d:nconv%d:cdim%d:naux%d:%s' % (len(c['orders']), c['nconv'], c['cdim'], c['naux'], re.sub(r'\(.*\)', '', what)[:60].strip())
        if r['rc'] == 3: out.add_violation(sig, '%s: %s' % (cid, what), path, (r['out'] + r['err'])[-400:])
        else: out.errors.append('%s: %s -- not reproduced on the real build (%s): %s' % (cid, what, path, (r['out'] + r['err'])[-200:].replace('\n', ' ')))
    out.cov['queries'] = len(res); out.cov['e2_cases'] = len(cases); out.cov['functions_encoded'] = [f for f in m['translated'] if 'estimateMemory' in f or 'CountingAlloc' in f or 'convolve' in f or 'read_fits' in f][:40]
    out.cov['samples'] = notes[:10] + [cases[0][1][:300]]
    out.cov['bounds'] = dict(shapes=sorted({tuple(c[2]['orders']) for c in cases}), kernels=sorted({c[2]['nconv'] for c in cases}), aux_keys=sorted({c[2]['naux'] for c in cases}),
                             what='peak of bytes simultaneously requested through the allocator template parameter (constructor from a path, then convolve as declared to estimateMemory) <= estimateMemory(path, n, dim); every block returned with its requested size')
    out.cov['checker_cmd'] = 'z3 -in -t:20000 (obligations batched; sizes are concrete per instance, so the obligations are ground)'
    out.cov['trusted_base'] = ['clang-14 IR', 'ir2c.py', 'rt_sym.cpp', 'models/cfitsio_model.c (header cards and image sizes as cfitsio reports them)', 'z3']
    out.assumptions = ['table shapes, kernel sizes and auxiliary keys are enumerated concretely (sizes drive allocation); payloads are symbolic but do not influence sizes', 'only requests made through the allocator template parameter count (temporaries from operator new are outside, as in the property)', 'the file is one written by the library itself']
    return out.finish()

def replay(path):
    r = run([replay_binary(), path], check=False, timeout=120); print(r['out'] + r['err']); return 1 if r['rc'] != 0 else 0
