"""C12 -- the parallel line search terminates with the same result under every schedule (E1).
walk_descents + evaluate_descent + get_nthreads + double_rcmp are translated from clang IR in ir2c's coroutine mode (a thread
runs from one blocking pthread call to the next), linked with the pthread scheduler model (models/pthread_seq.c) and run by
CBMC under a symbolic schedule.  Per instance: workers NW (what OMP_NUM_THREADS says), free coefficients NF and which of them
yield a trial step (MASK) are concrete; the schedule, the residuals deciding which trial wins and the feasibility of the
trial points are symbolic."""
from checklib import *
import hashlib

HARNESS = VERIF + '/harness/c12_sched.c'
FLAGS = ['--unwinding-assertions', '--drop-unused-functions', '--no-malloc-may-fail', '--no-standard-checks', '--object-bits', '12', '--slice-formula']
PROLOGUE = ['#include "pthread_seq.h"', '#define free ps_free']
ROOTS = ['walk_descents', 'evaluate_descent']

def steps_bound(nw, ntrials):
    """scheduler steps of the longest schedule (derivation in DESIGN.md): per block the coordinator takes 2 + NW steps (start the
    block, look, wait once per reporting worker), a worker 3 + (NW-1) (run, report, go back to waiting; woken once more by each
    other worker's report); plus start-up (1 + 2 per worker) and shut-down (2 + NW for the coordinator's joins, 1 per worker)"""
    blocks = -(-ntrials // nw)
    return 1 + 2 * nw + blocks * ((2 + nw) + nw * (3 + (nw - 1))) + (1 + nw) + nw

def grid(tier):
    g = []
    def add(nw, nf, mask, mode='sync', k=None):
        nt = 2 + bin(mask).count('1')
        g.append(dict(nw=nw, nf=nf, mask=mask, mode=mode, K=k or steps_bound(nw, nt), ntrials=nt))
    add(1, 1, 0)                    # 1 worker, 2 trials -> 2 blocks
    add(1, 1, 0, 'det')
    add(2, 1, 0)                    # 2 workers, 1 full block (about 6 minutes, 5 GB)
    if tier != 'quick':
        add(1, 1, 1)                # 3 blocks
        add(1, 2, 3)                # 4 blocks, two competing interior step lengths
        add(3, 1, 0)                # more workers than trial steps: one worker never runs
        add(2, 1, 1)                # 2 workers, 2 blocks, second block half empty
        add(1, 1, 1, 'det')
    return g
def name(c, suffix=''): return 'c12_%s_w%d_f%d_m%d_k%d%s' % (c['mode'], c['nw'], c['nf'], c['mask'], c['K'], suffix)

def generated(hook):
    def build():
        ll = once('c12_ir', lambda: build_ir('cs', [REPO + '/src/fitter/cholesky_solve.c'], noinline=True))
        d = os.path.join(scratch(), 'c12race' if hook else 'c12gen'); os.makedirs(d, exist_ok=True)
        c = os.path.join(d, 'c12_gen.c')
        extra = ['--coroutine', ','.join(ROOTS), '--typed-malloc', '--typed-mem'] + (['--hook-access', ','.join(ROOTS)] if hook else [])
        for p in PROLOGUE: extra += ['--prologue', p]
        m = ir2c(ll, c, ROOTS, cut=['calc_residual'], extra=extra)
        return d, c, m
    return once('c12_gen_%d' % hook, build)

def lib_for(nw, race):
    def build():
        d, c, m = generated(race)
        defs = ['VR_UF', 'VR_POOL_ALLOC', 'PS_MAXT=%d' % (nw + 1)] + (['PS_RACE'] if race else [])
        return GotoLib('c12_w%d_%d' % (nw, race), [c, VERIF + '/models/pthread_seq.c', VERIF + '/models/libc_stubs.c', VERIF + '/rt/rt_common.c'], defs, [d, '/usr/include/suitesparse'])
    return once('c12_lib_%d_%d' % (nw, race), build)

def unwindset(binary, c):
    # loops of the translated code run over free coefficients, workers, trial steps or blocks: the largest of these plus the exit test
    # (unwinding assertions report a bound that is too small); a loose bound costs junk iterations in every re-executed segment
    irb = max(c['nf'], c['nw'], c['ntrials']) + 2
    us = []
    for lid, fn in list_loops(binary):
        if fn.startswith(('ir_walk', 'ir_eval', 'ir_get')): b = irb
        elif fn.startswith('ir_qsort'): b = c['nf'] + 2
        elif fn.startswith('vr_mem'): b = 18
        elif fn == 'harness': b = c['K'] + 2
        elif fn in ('ps_region', 'vh_access', 'ps_unregion'): b = 100
        else: b = 24
        us.append('%s:%d' % (lid, b))
    return us

def run_one(c, timeout, witness=False, trace_prop=None):
    race = c['mode'] == 'race'
    lib = lib_for(c['nw'], race)
    defs = ['NW=%d' % c['nw'], 'NF=%d' % c['nf'], 'MASK=%d' % c['mask'], 'K=%d' % c['K'], 'KB=%d' % c['K']]
    if c['mode'] == 'det': defs.append('DETERMINISM')
    if witness: defs.append('WITNESS')
    nm = name(c, '_wit' if witness else '')
    out = os.path.join(lib.d, nm + '.gb')
    once('link_' + nm, lambda: lib.link(out, HARNESS, defs))
    us = unwindset(out, c)
    extra = []
    if trace_prop: extra = ['--property', trace_prop, '--trace']
    r = cbmc(out, function='harness', unwindset=us, timeout=timeout, extra=extra, flags=FLAGS, memlimit_gb=24)
    r['name'] = nm; r['case'] = c; r['defines'] = defs; r['binary'] = out
    return r

def schedule_from_trace(text):
    return [0] + [int(v) for v in re.findall(r'^  c12_pick=(-?\d+) ', text, re.M)]

def replay_binary(tsan=False):
    def build():
        d = scratch(); out = os.path.join(d, 'replay_sched' + ('_tsan' if tsan else ''))
        cc = ['clang-14', '-fsanitize=thread', '-g', '-O1'] if tsan else ['gcc', '-O2']
        obj = os.path.join(d, 'cs_real%s.o' % ('_tsan' if tsan else ''))
        run(cc + ['-std=gnu99', '-w', '-I' + REPO + '/include', '-I' + REPO + '/src/fitter', '-I/usr/include/suitesparse', '-c', REPO + '/src/fitter/cholesky_solve.c', '-o', obj])
        run(cc + ['-w', '-I/usr/include/suitesparse', VERIF + '/harness/replay_sched.c', obj,
                  '-Wl,--wrap=pthread_mutex_lock,--wrap=pthread_cond_wait,--wrap=pthread_create,--wrap=pthread_join', '-lcholmod', '-lpthread', '-lm', '-o', out])
        return out
    return once('replay_sched_%d' % tsan, build)

def run_replay(path, quiet=False):
    """-> (reproduced, text).  A schedule is tried with both data sets (the trial that wins is symbolic in the counterexample)."""
    spec = open(path).read(); kind = re.search(r'^kind (\S+)', spec, re.M).group(1)
    texts = []
    for data in (0, 1):
        p2 = path + '.d%d' % data; open(p2, 'w').write(spec + 'data %d\n' % data)
        try:
            if kind == 'deadlock':
                r = run([replay_binary(), p2], check=False, timeout=120); texts.append(r['out'] + r['err'])
                if r['rc'] == 1 and 'HANG' in r['out']: return True, '\n'.join(texts)
            elif kind == 'race':
                r = run([replay_binary(True), p2], check=False, timeout=180, env=dict(os.environ, TSAN_OPTIONS='halt_on_error=0 exitcode=66')); texts.append((r['out'] + r['err'])[-3000:])
                if 'ThreadSanitizer: data race' in r['err'] + r['out']: return True, '\n'.join(texts)
            elif kind == 'result':
                r = run([replay_binary(), p2], check=False, timeout=120); a = re.sub(r'segments=.*', '', r['out'])
                canon = re.sub(r'^sched .*$', 'sched ' + re.search(r'^canonical (.*)$', spec, re.M).group(1), spec, flags=re.M)
                p3 = p2 + '.canon'; open(p3, 'w').write(canon + 'data %d\n' % data)
                r2 = run([replay_binary(), p3], check=False, timeout=120); b = re.sub(r'segments=.*', '', r2['out']); os.remove(p3)
                texts.append('given schedule: %s\ncanonical:      %s' % (a.strip(), b.strip()))
                if r['rc'] != 0 or r2['rc'] != 0 or a != b: return True, '\n'.join(texts)
        finally:
            os.remove(p2)
    return False, '\n'.join(texts)

def run_check(tier):
    out = Outcome('C12', tier)
    budget = 900 if tier == 'quick' else 5400
    cases = grid(tier)
    d, csrc, m = generated(False)
    # vacuity: a complete run must be reachable in the smallest instance
    w = run_one(cases[0], budget, witness=True)
    out.cov['witness_ok'] = any('witness' in f[1] for f in w['failed'])
    if not out.cov['witness_ok']: out.errors.append('vacuity witness: no complete run reachable (%s)' % w['verdict'])
    res = pmap(lambda c: run_one(c, budget), cases, jobs=3 if tier == 'quick' else 2)
    for r in res:
        c = r['case']; out.cov['obligations'] += 1; out.cov['solver_time_s'] += r['wall']
        if r['verdict'] == 'SUCCESS': out.cov['discharged'] += 1; continue
        if (r['verdict'] == 'TIMEOUT' or (r['verdict'] == 'ERROR' and 'out of memory' in (r['out'] + r['err']).lower())) and tier != 'quick':
            # a multi-worker instance that does not come back within the budget is not explored: said so, neither held nor failed
            print('NOT-EXPLORED: %s did not finish within %d s / %d GB' % (r['name'], budget, 24)); out.cov.setdefault('not_explored', []).append(r['name']); out.cov['obligations'] -= 1; continue
        if r['verdict'] != 'FAILED': out.errors.append('%s: %s %s' % (r['name'], r['verdict'], r['err'][-160:].strip().replace('\n', ' '))); continue
        fl = [(f[0], re.sub(r'^line \d+ ', '', f[1])) for f in r['failed']]
        viol = [f for f in fl if f[1].startswith('C12 ')]
        other = [f for f in fl if not f[1].startswith('C12 ')]
        if not viol:
            out.errors.append('%s: %s' % (r['name'], '; '.join(f[1] for f in other[:3]))); continue
        prop, desc = viol[0]
        kind = 'deadlock' if 'deadlock' in desc else ('race' if 'data race' in desc else ('result' if 'schedule-dependent' in desc else 'protocol'))
        t = run_one(c, budget, trace_prop=prop)
        sched = schedule_from_trace(t['out'])
        spec = 'kind %s\nnw %d\nnf %d\nmask %d\nsched %s\ncanonical %s\nfailed %s\n' % (kind, c['nw'], c['nf'], c['mask'], ' '.join(map(str, sched)), canonical_schedule(c), desc)
        path = os.path.join(VERIF, 'replay', 'C12-%s.spec' % hashlib.sha1(spec.encode()).hexdigest()[:10]); os.makedirs(os.path.dirname(path), exist_ok=True); open(path, 'w').write(spec)
        sig = 'C12:%s:w%d:f%d:m%d:%s' % (kind, c['nw'], c['nf'], c['mask'], re.sub(r'[^A-Za-z0-9 ()-]', '', desc)[:70])
        if kind == 'protocol':
            # misuse of the mutex / condition variable (e.g. unlocking a mutex the thread does not hold): undefined behaviour that
            # a native run cannot be made to exhibit reliably; reported on the strength of the trace
            out.add_violation(sig, '%s: %s' % (r['name'], desc), path, 'schedule ' + ' '.join(map(str, sched)))
            continue
        ok, text = run_replay(path)
        if ok: out.add_violation(sig, '%s: %s' % (r['name'], desc), path, text[-500:])
        else: out.errors.append('%s: %s -- found by CBMC, not reproduced on the real code under the prescribed schedule (%s)' % (r['name'], desc, path))
    out.cov['samples'] = [dict(instance=r['name'], defines=r['defines'], verdict=r['verdict'], wall_s=round(r['wall'], 1), sat_vars=r.get('sat_vars')) for r in res[:8]]
    out.cov['functions_encoded'] = m['translated']; out.cov['queries'] = len(res) + 1
    out.cov['bounds'] = dict(instances=[dict(workers=c['nw'], free_coefficients=c['nf'], trial_steps=c['ntrials'], blocks=-(-c['ntrials'] // c['nw']), scheduler_steps=c['K'], mode=c['mode']) for c in cases],
                             schedule='every interleaving at the granularity of pthread_mutex_lock / pthread_cond_wait / pthread_join / thread start (symbolic choice per step among the enabled threads), no spurious wake-ups',
                             step_bound='K from steps_bound(); the assertion "scheduler step bound K sufficient" fails if a schedule needs more', unwinding='per-loop --unwindset with unwinding assertions')
    out.cov['checker_cmd'] = 'cbmc <instance>.gb --function harness ' + ' '.join(FLAGS) + ' --unwindset <per loop>'
    out.cov['trusted_base'] = ['clang-14 IR (-O1 -fno-inline)', 'ir2c.py coroutine mode', 'models/pthread_seq.c (mutex / condition variable / create / join semantics, vector clocks)', 'rt/rt_uf.h (free-term float arithmetic, uninterpreted comparison)', 'cbmc 6.11 / minisat']
    out.assumptions = ['data races are covered through their sequentially consistent effects only (termination, protocol misuse, schedule-dependent results): the happens-before instances (mode race, models/pthread_seq.c -DPS_RACE) did not finish within the budget and are not part of the grid',
                       'calc_residual is a function of the trial point only (cut; its CHOLMOD calls use the shared cholmod_common, see DESIGN.md)',
                       'one mutex and one condition variable; broadcast is issued with the mutex held (otherwise the instance reports "abstraction insufficient")',
                       'worker-side heap blocks are static per worker (realloc in place); lifetime errors inside a worker are outside',
                       'float data: x = 1..NF+1, x_F = -1 or +1 per MASK bit; residual comparisons and the sign of interior trial points are uninterpreted; no NaN data',
                       'sched_setaffinity, printf, clock have no effect; OMP_NUM_THREADS is the worker count; worker counts 1..32 on real fits are outside']
    return out.finish()

def canonical_schedule(c):
    # lowest enabled thread first, as in the DETERMINISM part of the harness: long enough prefix of zeros and increasing ids is
    # produced by the replay itself falling back to free running; the canonical reference for replays is "coordinator first"
    return ' '.join(['0'] * 2)

def replay(path):
    ok, text = run_replay(path); print(text); return 1 if ok else 0
