"""C20 -- a table object stays valid and leak-free across failing operations (E2: the IR-derived member functions on the cfitsio
container model and the operator new/delete ledger; one injected I/O or allocation failure per position; inductive over one
operation from the empty and from a populated object)."""
from checklib import *
import e2, c18, hashlib

AUX = [('A', 'v'), ('KEY1', 'hello~world'), ('Z9', '12')]
def case(pid, scen, orders, extras, naux=1, cdim=0):
    name = '%s_%s_%s_a%d_d%d' % (pid.lower(), re.sub(r'[^a-z_]', '_', scen), ''.join(map(str, orders)), naux, cdim)
    txt = 'state %s scen %s nd %d cdim %d\n' % (name, scen, len(orders), cdim)
    for d, (o, e) in enumerate(zip(orders, extras)): txt += 'dim %d order %d nknots %d\n' % (d, o, 2 * o + 2 + e + d)
    for k, v in AUX[:naux]: txt += 'aux %s|%s\n' % (k, v)
    return (name, txt + 'end\n', dict(scen=scen, orders=orders))

def build_cases(tier):
    c = [case('C20', 'readfaults', [1], [1], 1), case('C20', 'readfaultsmem', [1, 0], [0, 1], 2), case('C20', 'occupied', [1, 0], [0, 1], 1), case('C20', 'keys', [1], [0], 2), case('C20', 'keys', [1], [0], 0),
         case('C20', 'convolve', [1, 0], [0, 0], 0, 0), case('C20', 'permute', [1, 0], [0, 1], 1), case('C20', 'fitfaults', [1], [1], 0)]
    if tier != 'quick':
        c += [case('C20', 'readfaults', [2, 0, 1], [0, 1, 0], 3), case('C20', 'readfaultsmem', [0], [2], 0), case('C20', 'occupied', [2], [1], 3), case('C20', 'keys', [1, 1], [0, 0], 3),
              case('C20', 'convolve', [1, 0], [0, 0], 1, 1), case('C20', 'convolve', [2], [1], 0, 0), case('C20', 'permute', [0, 1, 2], [1, 0, 0], 2), case('C20', 'fitfaults', [1, 0], [0, 1], 0)]
    return c

def replay_binary():
    def build():
        # AddressSanitizer build: glibc notices only some double frees, the sanitizer all of them (and reads of released blocks)
        d = scratch(); ref = build_ref_objects('rp20', [REPO + '/src/core/bspline.cpp', REPO + '/src/core/fitsio.cpp', REPO + '/src/core/convolve.cpp', REPO + '/src/fitter/glam.c', REPO + '/src/fitter/splineutil.c', REPO + '/src/fitter/cholesky_solve.c', REPO + '/src/fitter/nnls.c'], sanitize=True)
        out = os.path.join(d, 'replay_state'); run(['g++'] + GXX_FLAGS + ['-fsanitize=address,undefined', '-g', '-O1', '-I' + VERIF + '/harness', VERIF + '/harness/replay_state.cpp', '-o', out] + ref + ['-lcfitsio', '-lcholmod', '-lspqr', '-lsuitesparseconfig', '-llapack', '-lblas', '-lpthread', '-lm', '-ldl']); return out
    return once('replay_state', build)

def evaluate(out, pid, cases):
    binary, m = c18.build_harness('e2_state')
    ran = pmap(lambda c: e2.run_cases(binary, c[1], c[0]), cases)
    for d, man in ran:
        for e in man:
            if e['kind'] == 'error': out.errors.append('symbolic run of %s aborted: %s' % (e['case'], e['msg']))
    res = e2.discharge(ran, 20, cvc5_fraction=0.0)
    fails = {}
    for q in res:
        if q['kind'] == 'witness': continue
        out.cov['obligations'] += 1; out.cov['solver_time_s'] += q['wall']
        if q['verdict'] == 'unsat': out.cov['discharged'] += 1
        elif q['verdict'] == 'sat':
            what = re.sub(r'^\S+ ', '', q['label']); gen = re.sub(r'#\d+', '#k', what)
            gen = re.sub(r'(unchanged[^:]*): .*$', r'\1', gen)            # which field differs is detail
            fails.setdefault((q['case'], gen), []).append(q)
        else: out.errors.append('%s: solver answered %s' % (q['label'], q['verdict']))
    meta = {c[0]: c for c in cases}
    for (cid, gen), qs in sorted(fails.items()):
        spec = meta[cid][1] + 'what %s\n' % gen
        path = os.path.join(VERIF, 'replay', '%s-%s.spec' % (pid, hashlib.sha1(spec.encode()).hexdigest()[:10])); os.makedirs(os.path.dirname(path), exist_ok=True); open(path, 'w').write(spec)
        r = run([replay_binary(), path], check=False, timeout=300, env=dict(os.environ, ASAN_OPTIONS='detect_leaks=0:exitcode=77:allocator_may_return_null=1'))
        sig = '%s:%s:%s' % (pid, meta[cid][2]['scen'], re.sub(r'[^A-Za-z0-9=_#\[\]() /,-]', '', gen)[:110])
        msg = '%s: "%s" fails (%d obligation(s))' % (cid, gen, len(qs))
        if r['rc'] == 3: out.add_violation(sig, msg, path, (r['out'] + r['err'])[-500:])
        else: out.errors.append(msg + ' -- not reproduced on the real build (%s): %s' % (path, (r['out'] + r['err'])[-200:].replace('\n', ' ')))
    out.cov['queries'] = len(res); out.cov['e2_cases'] = len(cases); out.cov['functions_encoded'] = [f for f in m['translated'] if 'splinetable' in f][:60]
    out.cov['samples'] = [dict(label=q['label'], verdict=q['verdict']) for q in res[:6]] + [cases[0][1][:300]]
    out.cov['checker_cmd'] = 'z3 -in -t:20000 (obligations batched)'
    out.cov['trusted_base'] = ['clang-14 IR', 'ir2c.py (exception flag protocol)', 'rt_sym.cpp', 'models/cfitsio_model.c (fault injection per call), alloc_ledger.c (fault injection per allocation, double/foreign delete detection), streams.c, stdcxx.c', 'z3']
    return res

def run_check(tier):
    out = Outcome('C20', tier)
    cases = build_cases(tier)
    evaluate(out, 'C20', cases)
    out.cov['bounds'] = dict(operations='read_fits / read_fits_mem into an empty table with every single failing cfitsio call and every single failing allocation; reads into a populated table; move construction / assignment / self-assignment; write_key (append, overwrite, rejected) and remove_key (present, absent), convolve, permuteDimensions and fit with every single failing allocation',
                             shapes=sorted({tuple(c[2]['orders']) for c in cases}), after_each='unchanged or empty if the operation failed; inspectable; destructor neither crashes nor deletes twice; ledger balance; FITS handle closed',
                             symbolic='coefficients, knots (ranked variables), extents uninterpreted; concrete rational knots where convolution sorts them')
    out.assumptions = ['histories are covered by induction over one operation from the empty and from a populated object; the abstract state is (empty | populated with exactly the blocks the ledger shows)',
                       'allocation failures are injected through operator new (std::allocator); temporaries and table storage are not distinguished', 'fit() runs on the semantic CHOLMOD model with every single failing operator-new allocation (CHOLMOD-internal allocation failures are outside); its argument handling is C13, its results C09/C10',
                       'reads that report success under an ignored I/O error (unreadable header space, unreadable EXTENTS -> defaults) are by design and only required to be destructible']
    return out.finish()

def replay(path):
    r = run([replay_binary(), path], check=False, timeout=300, env=dict(os.environ, ASAN_OPTIONS='detect_leaks=0:exitcode=77:allocator_may_return_null=1')); print((r['out'] + r['err'])[-3000:]); return 1 if r['rc'] != 0 else 0
