"""C10 -- a monotonic fit is non-decreasing along the requested dimension (E2): the system captured at the non-negative
solver is the T-spline normal-equation system, the returned coefficients are the cumulative sums of its non-negative
solution, hence non-decreasing for every data set, weight pattern and smoothing."""
import c09
def run_check(tier): return c09.run_check(tier, pid='C10', mono=True)
replay = c09.replay
