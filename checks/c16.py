"""C16 -- the auxiliary key store behaves as an insertion-ordered string map (E1: CBMC inductive step from an arbitrary store;
string lengths and the match structure are enumerated per instance, every character is symbolic)."""
from checklib import *
import evalkit, c06

HARNESS = VERIF + '/harness/c16_aux.c'
def grid(tier):
    g = []
    def add(op, naux, kl, vl, extra=(), pkls=(3, 2, 1), pvls=(2, 3, 0), digits=3): g.append(dict(op=op, naux=naux, kl=kl, vl=vl, extra=list(extra), pkls=pkls, pvls=pvls, digits=digits))
    for naux in range(0, 4 if tier != 'quick' else 3):
        add('OP_GET', naux, 3, 0, ['FIRST=78'])
        for m in range(naux): add('OP_GET', naux, 0, 0, ['MATCH=%d' % m])
    add('OP_GET', 2, 2, 0, ['FIRST=97']); add('OP_GET', 1, 0, 0, ['FIRST=78'])
    for naux, m, pv in [(1, 0, (1, 3, 0)), (2, 1, (2, 3, 0)), (2, 0, (3, 1, 0))]: add('OP_READ_INT', naux, 0, 0, ['MATCH=%d' % m], pvls=pv)
    add('OP_READ_INT', 1, 3, 0, ['FIRST=78']); add('OP_READ_INT', 1, 0, 0, ['MATCH=0'], pvls=(0, 1, 1))
    # string writes: append (fresh first character), overwrite (MATCH), each key/value length class
    for naux, kl, vl in [(0, 1, 0), (0, 4, 3), (1, 8, 1), (2, 4, 3), (2, 2, 8)]: add('OP_WRITE_STR', naux, kl, vl, ['FIRST=78'])
    for naux, m, vl in [(1, 0, 0), (2, 1, 2), (2, 0, 4)]: add('OP_WRITE_STR', naux, 0, vl, ['MATCH=%d' % m])
    for k in range(8): add('OP_WRITE_STR', 1, 7 if k != 7 else 8, 1, ['RESERVED=%d' % k])        # reserved prefixes
    add('OP_WRITE_STR', 1, 3, 1, ['FIRST=97']); add('OP_WRITE_STR', 0, 2, 0, ['FIRST=61']); add('OP_WRITE_STR', 1, 0, 1, ['FIRST=78'])   # lower case, '=', empty key
    for digits, neg, naux, ex in [(1, 0, 0, ['FIRST=78']), (3, 1, 1, ['MATCH=0']), (10, 0, 1, ['FIRST=78']), (10, 1, 0, ['FIRST=78']), (5, 0, 2, ['MATCH=1'])]:
        add('OP_WRITE_INT', naux, 2, 0, ex + (['NEGATIVE'] if neg else []), digits=digits)
    for naux, ex in [(1, ['MATCH=0']), (2, ['MATCH=0']), (2, ['MATCH=1']), (3, ['MATCH=1']), (2, ['FIRST=78']), (0, ['FIRST=78'])]: add('OP_REMOVE', naux, 3, 0, ex)
    if tier != 'quick':
        # long (HIERARCH) keys that are rejected before anything is stored; accepted long keys, values at the card limit and larger
        # stores exceed the 12 GB given to one CBMC instance: the card-capacity boundary is decided by the E2 keylimits scenario below
        add('OP_WRITE_STR', 1, 12, 2, ['FIRST=97']); add('OP_WRITE_STR', 0, 9, 1, ['FIRST=61'])
        add('OP_WRITE_STR', 3, 4, 3, ['FIRST=78'], pkls=(4, 1, 3), pvls=(0, 5, 2))
    return g

def name(c): return 'c16_%s_n%d_k%d_v%d_d%d_p%s_%s' % (c['op'][3:], c['naux'], c['kl'], c['vl'], c['digits'], ''.join(map(str, c['pvls'])), '_'.join(x.replace('=', '') for x in c['extra']))

def run_check(tier):
    out = Outcome('C16', tier)
    d = scratch(); evalkit.layout_header(); c06.stream_layout()
    # remove_key must be usable at all: instantiation probe (C16 says removal deletes exactly that key)
    pr = run(['clang++-14'] + CLANG_FLAGS + ['-DWITH_REMOVE_KEY', '-fsyntax-only', VERIF + '/wrap/aux.cpp'], check=False)
    has_remove = pr['rc'] == 0
    ll = once('aux_ir', lambda: build_ir('aux', [VERIF + '/wrap/aux.cpp', REPO + '/src/core/fitsio.cpp'], defines=['WITH_REMOVE_KEY'] if has_remove else []))
    c = os.path.join(d, 'aux_c16.c'); m = ir2c(ll, c, ['/^w_/'], cut=evalkit.STR_CUT, extra=['--nsw-signed'])
    lib = GotoLib('c16', [c, VERIF + '/rt/rt_common.c', VERIF + '/models/stdcxx.c', VERIF + '/models/alloc_ledger.c', VERIF + '/models/streams.c', VERIF + '/models/strstubs.c'], ['VR_ORD', 'VM_MAXBLK=16', 'STREAM_CAP=24'], [])
    budget = 400 if tier == 'quick' else 1800
    cases = [c for c in grid(tier) if has_remove or c['op'] != 'OP_REMOVE']
    def defs(c, witness=False):
        x = ['NAUX=%d' % c['naux'], 'KL=%d' % c['kl'], 'VL=%d' % c['vl'], 'PKLS=%s' % ','.join(map(str, c['pkls'])), 'PVLS=%s' % ','.join(map(str, c['pvls'])), 'DIGITS=%d' % c['digits'], c['op']] + c['extra']
        return x + (['WITNESS'] if witness else [])
    def one(c, loose=False):
        r = run_instance(lib, HARNESS, name(c) + ('_loose' if loose else ''), defs(c), unwind=max(c['kl'], c['vl'], 16, c['digits']) + (12 if loose else 6), timeout=budget)
        r['case'] = c; return r
    wres = pmap(lambda c: any('assertion 0' in f[1] for f in run_instance(lib, HARNESS, name(c) + '_wit', defs(c, True), unwind=24, timeout=budget)['failed']), [c for c in cases if c['op'] in ('OP_GET', 'OP_WRITE_INT')][:3])
    out.cov['witness_ok'] = all(wres) and len(wres) > 0
    if not out.cov['witness_ok']: out.errors.append('vacuity witness not reachable')
    res = pmap(one, cases)
    for r in res:
        out.cov['obligations'] += 1; out.cov['solver_time_s'] += r['wall']
        if r['verdict'] == 'SUCCESS': out.cov['discharged'] += 1
        elif r['verdict'] == 'FAILED':
            prop, desc = sorted(r['failed'], key=lambda f: (0 if 'assertion' in f[0] and 'unwind' not in f[0] else 1))[0]
            spec = 'op %s naux %d kl %d vl %d digits %d %s\nfailed %s\n' % (r['case']['op'], r['case']['naux'], r['case']['kl'], r['case']['vl'], r['case']['digits'], ' '.join(r['case']['extra']), desc)
            import hashlib
            path = os.path.join(VERIF, 'replay', 'C16-%s.spec' % hashlib.sha1(spec.encode()).hexdigest()[:10]); os.makedirs(os.path.dirname(path), exist_ok=True); open(path, 'w').write(spec)
            rp = run([replay_binary(), path], check=False, timeout=120)
            sig = 'C16:%s:%s' % (r['case']['op'], re.sub(r'[^A-Za-z0-9=_<>!&|. -]', '', desc)[:80])
            if rp['rc'] == 3 or rp['rc'] < 0: out.add_violation(sig, '%s fails: %s' % (r['name'], desc), path, (rp['out'] + rp['err'])[-400:])
            else: out.errors.append('%s: %s -- found by CBMC, not reproduced by the concrete replay (%s)' % (r['name'], desc, path))
        else: out.errors.append('%s: %s %s' % (r['name'], r['verdict'], r['err'][-160:].strip().replace('\n', ' ')))
    # card-capacity boundary of string writes (E2 on the table harness shared with C20): CBMC runs out of memory on 58-character values
    import c20
    kc = [c20.case('C16', 'keylimits', [1], [0], 1)]
    kout = Outcome.__new__(Outcome); kout.__dict__.update(pid='C16', tier=tier, t0=out.t0, violations=out.violations, errors=out.errors, cov=dict(out.cov), assumptions=[])
    c20.evaluate(kout, 'C16', kc)
    out.cov['obligations'] += kout.cov['obligations'] - out.cov['obligations']; out.cov['discharged'] += kout.cov['discharged'] - out.cov['discharged']; out.cov['card_limit_cases'] = 'key lengths 1, 8, 9, 10, 21, 30 x value length at the card limit and one above (E2, concrete lengths)'
    out.cov['remove_key_instantiates'] = has_remove
    if pr['rc'] != 0:
        path = os.path.join(VERIF, 'replay', 'C16-remove-key-does-not-compile.txt'); open(path, 'w').write(pr['err'][-3000:])
        out.add_violation('C16:remove_key:does-not-compile', 'splinetable::remove_key cannot be instantiated (compile error), so a key can never be removed', path, pr['err'][-400:])
    out.cov['samples'] = [dict(instance=r['name'], defines=r['defines'], verdict=r['verdict'], wall_s=round(r['wall'], 1)) for r in res[:8]]
    out.cov['slowest'] = sorted([(round(r['wall'], 1), r['name']) for r in res], reverse=True)[:6]
    out.cov['functions_encoded'] = m['translated']; out.cov['queries'] = len(res) + len(wres)
    out.cov['bounds'] = dict(store='0..2 entries (3 thorough) with keys/values of concrete lengths <= 4 and symbolic characters', operation_key='lengths 0..8 (short) quick, 9..12 (HIERARCH) thorough; first character fixed per instance so that symex decides which stored key matches, all other characters symbolic over {A,O,Z,7,a,-,=,quote,blank}',
                             values='lengths 0..8 quick, 12/68/69 thorough', integers='1, 3, 5, 10 decimal digits, both signs, every value with that many digits')
    out.cov['checker_cmd'] = 'cbmc <instance>.gb --function harness ' + ' '.join(CBMC_FLAGS)
    out.cov['trusted_base'] = ['clang-14 IR', 'ir2c.py', 'models/streams.c + stdcxx.c (libstdc++ stringstream/string model, validated against the real library by harness/val_aux.cpp)', 'models/alloc_ledger.c', 'string-length registry of rt_common.c (asserted)', 'cbmc 6.11']
    out.assumptions = ['operation sequences are covered by induction over one operation from an arbitrary store of the listed shapes', 'double formatting/parsing is not modelled', 'the FITS card round trip of accepted entries is part of C06',
                       'write_key<int> is checked for the stored decimal string; reading a decimal string back is a separate instance (the composed read-back through the stream exceeded memory)', 'remove_key is checked only when it can be instantiated at all (otherwise that is the reported violation)']
    return out.finish()

def replay_binary():
    def build():
        d = scratch(); ref = build_ref_objects('rp16', [REPO + '/src/core/bspline.cpp', REPO + '/src/core/fitsio.cpp', REPO + '/src/core/convolve.cpp'])
        out = os.path.join(d, 'replay_aux'); run(['g++'] + GXX_FLAGS + ['-I' + VERIF + '/harness', VERIF + '/harness/replay_aux.cpp', '-o', out] + ref + ['-lcfitsio', '-lm']); return out
    return once('replay_aux', build)
def replay(path):
    if open(path).read().startswith('state '):
        import c20; return c20.replay(path)
    r = run([replay_binary(), path], check=False, timeout=120); print(r['out'] + r['err']); return 1 if r['rc'] != 0 else 0
