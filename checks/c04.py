"""C04 -- center lookup accepts exactly the knot range and brackets the point (E1, order keys)."""
import math
from checklib import *
import evalkit, ordreplay

HARNESS = VERIF + '/harness/c04_search.c'

def grid(tier):
    g = []
    extras = range(0, 4) if tier == 'quick' else range(0, 9)
    for o in range(0, 6):
        for e in extras:
            nk = 2 * o + 2 + e
            g.append(dict(nd=1, orders=[o], nks=[nk], entry='ir_w_searchcenters', callop=(e == 1)))
            if e in (0, 2): g.append(dict(nd=1, orders=[o], nks=[nk], entry='ir_w_ev_searchcenters_f', callop=False))
    two = [([0, 1], [0, 0]), ([2, 1], [1, 0]), ([1, 3], [0, 1]), ([0, 0], [1, 1])]
    if tier != 'quick': two += [([3, 2], [2, 3]), ([5, 0], [0, 4]), ([2, 2], [4, 4]), ([4, 1], [1, 2])]
    for os_, es in two:
        g.append(dict(nd=2, orders=os_, nks=[2 * o + 2 + e for o, e in zip(os_, es)], entry='ir_w_searchcenters', callop=False))
    return g

def inst_name(c): return 'c04_%s_o%s_k%s%s' % (c['entry'][5:], '-'.join(map(str, c['orders'])), '-'.join(map(str, c['nks'])), '_call' if c['callop'] else '')

def run_check(tier):
    out = Outcome('C04', tier)
    compared, mism, vstat = evalkit.validate_translation()
    EV = [r'/splinetable<.*>::ndsplineeval<float>\(/', r'/evaluator_type<float>::ndsplineeval\(/', r'/evaluator_type<double>::ndsplineeval\(/']
    lib = evalkit.ord_lib(['w_searchcenters', 'w_ev_searchcenters_f', 'w_call', 'w_ev_call_f', 'w_ev_call_d'], 'c04', cut=EV,
                          alias=[EV[0] + '=member_eval_f', EV[1] + '=evaluator_eval_f', EV[2] + '=evaluator_eval_d'])
    lib_small = evalkit.ord_lib(['w_searchcenters', 'w_ev_searchcenters_f'], 'c04s')
    cases = grid(tier)
    budget = 120 if tier == 'quick' else 900
    def defs(c, witness=False):
        d = ['ND=%d' % c['nd'], 'ORDS=' + ','.join(map(str, c['orders'])), 'NKS=' + ','.join(map(str, c['nks'])), 'ENTRY=' + c['entry']]
        if c['callop']: d += ['CALLOP']
        if witness: d.append('WITNESS')
        return d
    def one(c, loose=False):
        hb = max(c['nks'][d] + 2 * c['orders'][d] for d in range(c['nd'])) + 2
        # termination bound for the library loops: dimension loop (nd) and bisection (<= log2(nknots)+1 halvings)
        irb = max(c['nd'], int(math.log2(max(c['nks']))) + 2) + 1
        if loose: irb = hb
        r = run_instance(lib if c['callop'] else lib_small, HARNESS, inst_name(c), defs(c), unwind=hb, ir_unwind=irb, timeout=budget)
        r['case'] = c; r['unwind'] = hb
        return r
    # vacuity witnesses: the final assert(0) must be reachable
    wit = [c for c in cases if c['orders'][0] in (0, 3) and c['nks'][0] == 2 * c['orders'][0] + 3 and not c['callop']][:3]
    def onew(c):
        hb = max(c['nks'][d] + 2 * c['orders'][d] for d in range(c['nd'])) + 2
        r = run_instance(lib_small, HARNESS, inst_name(c) + '_wit', defs(c, True), unwind=hb, ir_unwind=hb, timeout=budget)
        return any('assertion 0' in f[1] for f in r['failed'])
    wres = pmap(onew, wit)
    out.cov['witness_ok'] = all(wres) and len(wres) > 0
    if not out.cov['witness_ok']: out.errors.append('vacuity witness not reachable')
    res = ordreplay.run_grid(out, 'C04', cases, one, 'search', False, budget)
    out.cov['samples'] = [dict(instance=r['name'], defines=r['defines'], verdict=r['verdict'], properties=r['nprops'], wall_s=round(r['wall'], 2)) for r in res[:6]]
    out.cov['functions_encoded'] = lib.map['translated']
    out.cov['queries'] = len(res) + len(wres)
    out.cov['bounds'] = dict(ndim=[1, 2], orders='0..5', nknots='2*order+2 + 0..%d' % (3 if tier == 'quick' else 8), keys='order type of all doubles (knots even keys, x any key)',
                             unwind='bisection loop: floor(log2 nknots)+3 with unwinding assertions')
    out.cov['translator_validation'] = dict(compared=compared, mismatches=mism, status=vstat)
    if vstat != 'ok' and not out.violations: out.errors.append('translator validation inconclusive: ' + vstat)
    out.cov['checker_cmd'] = 'cbmc <instance>.gb --function harness ' + ' '.join(CBMC_FLAGS)
    out.cov['trusted_base'] = ['clang-14 IR as source semantics (validated bit-for-bit vs g++ build)', 'ir2c.py', 'rt_ord.h small-model argument', 'cbmc 6.11']
    out.assumptions = ['coordinates are non-NaN for the iff (NaN is C05)', 'knot vectors non-decreasing with nknots >= 2*order+2', 'sizes outside the grid are not covered']
    return out.finish()

def replay(path):
    binary = ordreplay.replay_binary(False)
    r = run([binary, path], check=False, timeout=120)
    print((r['out'] + r['err'])[-2000:] + ('\nREPLAY TIMEOUT (non-termination)' if r['timeout'] else ''))
    return 1 if (r['rc'] != 0 or r['timeout']) else 0
