"""C14 -- convolution produces the true convolution with the unit-area kernel spline
(E2: exact-real symbolic run of convolve + exact piecewise-polynomial oracle, z3 decides every interval identity)."""
import random
from fractions import Fraction as F
from checklib import *
import evalkit, e2
from e2cases import knot_family, fr
sys.path.insert(0, os.path.join(VERIF, 'tools'))
import oracle_conv

KERNELS = {2: [[F(-1, 2), F(1, 2)], [F(0), F(3, 4)]], 3: [[F(-1), F(0), F(1)], [F(-1, 4), F(1, 3), F(2)]], 4: [[F(-1), F(-1, 3), F(1, 2), F(1)], [F(0), F(1, 5), F(2, 5), F(3)]],
           5: [[F(-2), F(-1), F(0), F(1), F(2)]], 6: [[F(-1), F(-1, 2), F(0), F(1, 4), F(1), F(3, 2)]]}

def build_cases(tier, seed=SEED):
    rng = random.Random(seed + 14); out = []
    orders = range(0, 4) if tier == 'quick' else range(0, 6)
    ns = (2, 3, 4) if tier == 'quick' else (2, 3, 4, 5, 6)
    def add(name, orders_, knots, cdim, kern):
        hdr = 'table nd %d\n' % len(orders_) + ''.join('dim %d order %d knots %s\n' % (d, o, ' '.join(fr(k) for k in knots[d])) for d, o in enumerate(orders_))
        rho, polys = oracle_conv.convolution_oracle(knots[cdim], orders_[cdim], kern)
        body = 'conv %s dim %d kernel %s\n' % (name, cdim, ' '.join(fr(k) for k in kern))
        for r, pl in polys.items():
            for i, p in enumerate(pl):
                if p: body += 'poly %d %d %s\n' % (r, i, ' '.join(fr(p.get(k, F(0))) for k in range(max(p) + 1)))
        out.append((name, hdr + body + 'end\n', dict(orders=orders_, knots=knots, dim=cdim, kernel=kern)))
    for o in orders:
        for n in ns:
            if o + n - 1 > 6: continue
            for ki, kern in enumerate(KERNELS[n]):
                for extra in ((0, 2) if tier == 'quick' else (0, 1, 3)):
                    ks = knot_family('irregular' if extra else 'uniform', 2 * o + 2 + extra, o, rng)
                    add('c14_1d_o%d_n%d_k%d_e%d' % (o, n, ki, extra), [o], [ks], 0, kern)
    # multi-D: both dimension indices, other dimensions untouched
    md = [([1, 2], 0, 2), ([1, 2], 1, 3), ([2, 0, 1], 1, 2), ([0, 1], 0, 3)]
    md += [([2, 2], 0, 4), ([1, 1, 1], 2, 3), ([1, 0, 1, 1], 1, 2), ([3, 1], 0, 3)]
    for ords, cdim, n in md:
        kn = [knot_family('irregular', 2 * o + 2 + (1 if d == cdim else 0), o, rng) for d, o in enumerate(ords)]
        add('c14_md_o%s_d%d_n%d' % ('-'.join(map(str, ords)), cdim, n), ords, kn, cdim, KERNELS[n][0])
    return out

def build_harness():
    def build():
        d = scratch(); evalkit.layout_header()
        ll = build_ir('tops', [VERIF + '/wrap/table_ops.cpp', REPO + '/src/core/convolve.cpp'])
        c = os.path.join(d, 'tops14_sym.c'); m = ir2c(ll, c, ['w_convolve', 'w_destroy'])
        objs = []
        for src in [c, VERIF + '/rt/rt_common.c', VERIF + '/models/stdcxx.c', VERIF + '/models/alloc_ledger.c']:
            o = os.path.join(d, 'c14.' + os.path.basename(src) + '.o')
            run(['gcc', '-fwrapv', '-falign-functions=16', '-O1', '-DVR_SYM', '-DVM_MAXBLK=256', '-I' + VERIF + '/rt', '-I' + VERIF + '/models', '-I' + d, '-c', src, '-o', o]); objs.append(o)
        o = os.path.join(d, 'c14.rt_sym.o'); run(['g++', '-std=c++17', '-O2', '-I' + VERIF + '/rt', '-c', VERIF + '/rt/rt_sym.cpp', '-o', o])
        out = os.path.join(d, 'e2_convolve')
        run(['g++', '-std=c++17', '-O1', '-DVR_SYM', '-I' + VERIF + '/rt', '-I' + VERIF + '/harness', '-I' + VERIF + '/models', '-I' + d, VERIF + '/harness/e2_convolve.cpp', '-o', out] + objs + [o, '-lgmpxx', '-lgmp', '-lm'])
        return out, m
    return once('c14_harness', build)

def replay_binary():
    def build():
        d = scratch()
        ref = build_ref_objects('rp14', [REPO + '/src/core/bspline.cpp', REPO + '/src/core/fitsio.cpp', REPO + '/src/core/convolve.cpp'])
        out = os.path.join(d, 'replay_convolve')
        run(['g++'] + GXX_FLAGS + ['-I' + VERIF + '/harness', VERIF + '/harness/replay_convolve.cpp', '-o', out] + ref + ['-lcfitsio', '-lm'])
        return out
    return once('replay_convolve', build)

def run_check(tier):
    out = Outcome('C14', tier)
    binary, m = build_harness()
    cases = build_cases(tier)
    meta = {c[0]: c for c in cases}
    ran = pmap(lambda c: e2.run_cases(binary, c[1], c[0]), cases)
    errcases = {}
    for d, man in ran:
        for e in man:
            if e['kind'] == 'error': errcases.setdefault(e['case'], e['msg'])
    budget = 30 if tier == 'quick' else 180
    res = e2.discharge(ran, budget)
    groups = {}
    for q in res:
        if q['kind'] == 'witness':
            if q['verdict'] != 'sat': out.errors.append('vacuous obligation: ' + q['label'])
            continue
        out.cov['obligations'] += 1; out.cov['solver_time_s'] += q['wall']
        if q['verdict'] == 'unsat': out.cov['discharged'] += 1
        elif q['verdict'] == 'sat':
            what = re.sub(r'^\S+ ', '', q['label']); what = re.sub(r'slice \d+ interval \d+: ', '', what)
            groups.setdefault((q['case'], what), []).append(q)
        else: out.errors.append('%s: solver answered %s' % (q['label'], q['verdict']))
    for cid, msg in errcases.items(): groups.setdefault((cid, 'symbolic run aborted: ' + msg), []).append(dict(case=cid, label=cid))
    import hashlib
    bycls = {}
    for (cid, what), qs in groups.items():
        c = meta[cid][2]
        cls = 'order=%d:n=%d:%s' % (c['orders'][c['dim']], len(c['kernel']), re.sub(r'[^A-Za-z0-9=_ -]', '', what)[:60])
        bycls.setdefault(cls, []).append((cid, what, len(qs)))
    for cls, items in bycls.items():
        cid, what, nq = items[0]; c = meta[cid][2]
        spec = meta[cid][1]
        path = os.path.join(VERIF, 'replay', 'C14-%s.spec' % hashlib.sha1(spec.encode()).hexdigest()[:10]); os.makedirs(os.path.dirname(path), exist_ok=True); open(path, 'w').write(spec)
        r = run([replay_binary(), path], check=False, timeout=300)
        rep = r['rc'] == 3 or r['timeout'] or r['rc'] < 0
        msg = 'convolve (order %d, %d kernel knots): %s; %d case(s)' % (c['orders'][c['dim']], len(c['kernel']), what, len(items))
        if rep: out.add_violation('C14:' + cls, msg, path, (r['out'] + r['err'])[-500:])
        else: out.errors.append(msg + ' -- not reproduced on the real build (%s): %s' % (path, (r['out'] + r['err'])[-200:].replace('\n', ' ')))
    out.cov['queries'] = len(res); out.cov['e2_cases'] = len(cases); out.cov['functions_encoded'] = m['translated']
    out.cov['samples'] = [dict(label=q['label'], verdict=q['verdict'], nodes=q.get('nodes')) for q in res[:6]] + [cases[0][1][:400]]
    out.cov['bounds'] = dict(orders=list(range(0, 4)) if tier == 'quick' else list(range(0, 6)), kernel_knots=[2, 3, 4] if tier == 'quick' else [2, 3, 4, 5, 6], multi_d='2..4-D, every dimension index',
                             symbolic='all coefficients; table and kernel knots concrete rationals (comparisons on computed knot sums need values)', solver_budget_s=budget)
    out.cov['checker_cmd'] = 'z3 -t:%d000 (QF_NRA obligations)' % budget
    out.cov['trusted_base'] = ['clang-14 IR', 'ir2c.py', 'rt_sym.cpp', 'tools/oracle_conv.py (exact piecewise polynomial convolution)', 'models/alloc_ledger.c', 'z3 / cvc5']
    out.assumptions = ['floats as exact reals: single-precision rounding of the stored coefficients is outside', 'extents heuristics are not part of the claim', 'concrete rational knots and kernels from the listed families']
    return out.finish()

def replay(path):
    r = run([replay_binary(), path], check=False, timeout=300)
    print(r['out'] + r['err']); return 1 if r['rc'] != 0 else 0
